// C09: deadlines cross the HTTP transport without being extended or
// spuriously expired.
//
// Three clauses, each a complete enumeration of a stated grammar on the real
// code, with bracketing oracles only (instants measured around the call, no
// tolerances):
//
//	server  every GRPC-Timeout string of the grammar (see grammar.go) through
//	        httpgrpc.NewServer + ServeHTTP on a recorder, unary and streaming
//	        handler, the handler records ctx.Deadline();
//	client  every remaining duration of the grammar through Channel.Invoke /
//	        Channel.NewStream with a recording RoundTripper that captures the
//	        GRPC-Timeout header;
//	e2e     the same durations, client -> common.HandlerRT(server) -> handler.
//
// The client and e2e clauses are crossed with two more dimensions of the call:
//
//	creds   time that passes between the entry of the call and the request
//	        being built: per-RPC credentials (grpc.PerRPCCredentials) whose
//	        GetRequestMetadata consumes a controlled amount of time. "Transit"
//	        starts at the instant GetRequestMetadata returned (the last instant
//	        at which the request is known not to have been sent yet), as with
//	        grpc-go, which encodes the timeout after the credentials answered;
//	md      the caller's outgoing metadata: none, an unrelated key, and a
//	        "grpc-timeout" key with values that denote less / more than the
//	        context's deadline, values that are no timeouts, and two values.
//	        The context's deadline decides, the metadata entry never does
//	        (grpc-go drops that reserved key from the caller's metadata).
package main

import (
	"context"
	"errors"
	"fmt"
	"io"
	"math"
	"math/big"
	"net/http"
	"net/http/httptest"
	"net/url"
	"os"
	"runtime/debug"
	"strings"
	"sync"
	"time"

	"github.com/fullstorydev/grpchan/httpgrpc"
	"google.golang.org/grpc"
	"google.golang.org/grpc/codes"
	"google.golang.org/grpc/metadata"
	"google.golang.org/grpc/status"
	"google.golang.org/protobuf/proto"
	"google.golang.org/protobuf/types/known/wrapperspb"

	"verif/seq/common"
	"verif/vlib"
)

const hangGuard = 30 * time.Second

var maxI64 = big.NewInt(math.MaxInt64)

// ---------------------------------------------------------------- reference

// form is the reference reading of a GRPC-Timeout string.
type form struct {
	Valid  bool     // ^[0-9]+[HMSmun]$
	Digits int      // number of digit characters
	Unit   byte     // H M S m u n
	D      *big.Int // the duration it denotes, in ns, unbounded
	Fits   bool     // D <= MaxInt64 ns
}

func parseRef(s string) form {
	if len(s) < 2 {
		return form{}
	}
	u := s[len(s)-1]
	var unit time.Duration
	switch u {
	case 'H':
		unit = time.Hour
	case 'M':
		unit = time.Minute
	case 'S':
		unit = time.Second
	case 'm':
		unit = time.Millisecond
	case 'u':
		unit = time.Microsecond
	case 'n':
		unit = time.Nanosecond
	default:
		return form{}
	}
	v := s[:len(s)-1]
	for i := 0; i < len(v); i++ {
		if v[i] < '0' || v[i] > '9' {
			return form{}
		}
	}
	n, ok := new(big.Int).SetString(v, 10)
	if !ok {
		return form{}
	}
	d := n.Mul(n, big.NewInt(int64(unit)))
	return form{Valid: true, Digits: len(v), Unit: u, D: d, Fits: d.Cmp(maxI64) <= 0}
}

// laterThanBig reports whether a-b (a after b) exceeds d ns, for d that may
// be beyond time.Duration.
func laterThanBig(a, b time.Time, d *big.Int) bool {
	if diff := a.Sub(b); diff < math.MaxInt64 {
		return big.NewInt(int64(diff)).Cmp(d) > 0
	}
	// Sub saturated: compare in whole seconds, rounded down (one-sided)
	secs := a.Unix() - b.Unix() - 1
	x := new(big.Int).Mul(big.NewInt(secs), big.NewInt(int64(time.Second)))
	return x.Cmp(d) > 0
}

func fmtTime(t time.Time, ref time.Time, name string) string {
	d := t.Sub(ref)
	if d == math.MaxInt64 || d == math.MinInt64 {
		return name + sign(d) + "(saturated; " + t.UTC().Format(time.RFC3339) + ")"
	}
	return name + sign(d) + absDur(d).String()
}

func sign(d time.Duration) string {
	if d < 0 {
		return "-"
	}
	return "+"
}

func absDur(d time.Duration) time.Duration {
	if d < 0 {
		if d == math.MinInt64 {
			return math.MaxInt64
		}
		return -d
	}
	return d
}

// ---------------------------------------------------------------- plumbing

// guard runs f and exits 2 if it does not come back: a hang is not something
// this property forbids, so it is "could not decide", not a violation.
func guard(what string, f func()) {
	done := make(chan struct{})
	go func() {
		defer close(done)
		f()
	}()
	t := time.NewTimer(hangGuard)
	defer t.Stop()
	select {
	case <-done:
	case <-t.C:
		fmt.Fprintf(os.Stderr, "INCONCLUSIVE: case %s did not finish within the %v hang guard\n", what, hangGuard)
		os.Exit(2)
	}
}

func inconclusive(format string, a ...interface{}) {
	fmt.Fprintf(os.Stderr, "INCONCLUSIVE: "+format+"\n", a...)
	os.Exit(2)
}

// hObs is what the handler saw.
type hObs struct {
	Reached bool
	HasDl   bool
	Dl      time.Time
	T       time.Time // instant inside the handler
}

var cur *hObs // cases run strictly one at a time

func record(ctx context.Context) {
	o := cur
	if o == nil {
		return
	}
	o.T = time.Now()
	o.Dl, o.HasDl = ctx.Deadline()
	o.Reached = true
}

var (
	theServer *httpgrpc.Server
	bidiDesc  = &grpc.StreamDesc{StreamName: "B", ClientStreams: true, ServerStreams: true}
)

func server() *httpgrpc.Server {
	if theServer != nil {
		return theServer
	}
	srv := httpgrpc.NewServer()
	svc := &common.Svc{Name: "t.S",
		Unary: map[string]common.UnaryFn{"U": func(ctx context.Context, dec func(interface{}) error) (interface{}, error) {
			record(ctx)
			var in wrapperspb.StringValue
			if err := dec(&in); err != nil {
				return nil, err
			}
			return wrapperspb.String("resp"), nil
		}},
		Streams: map[string]common.StreamDef{"B": {ClientStreams: true, ServerStreams: true, Fn: func(s grpc.ServerStream) error {
			record(s.Context())
			return nil
		}}},
	}
	srv.RegisterService(svc.Desc(), common.Impl{})
	theServer = srv
	return srv
}

// ---------------------------------------------------------------- server clause

type serverCase struct {
	Kind    string `json:"kind"`    // "server"
	Handler string `json:"handler"` // unary | stream
	Absent  bool   `json:"absent,omitempty"`
	Header  string `json:"header"`
}

type serverObs struct {
	hObs
	T0, T2 time.Time // before ServeHTTP, after it returned
	Status int
	Panic  string
}

func runServer(c serverCase) serverObs {
	var o serverObs
	srv := server()
	var req *http.Request
	if c.Handler == "stream" {
		req = httptest.NewRequest("POST", "/t.S/B", strings.NewReader(""))
		req.Header.Set("Content-Type", httpgrpc.StreamRpcContentType_V1)
	} else {
		body, _ := proto.Marshal(wrapperspb.String("req"))
		req = httptest.NewRequest("POST", "/t.S/U", strings.NewReader(string(body)))
		req.Header.Set("Content-Type", httpgrpc.UnaryRpcContentType_V1)
	}
	if !c.Absent {
		// placed directly in the map: what the server's parser gets to see is
		// exactly this string (a real net/http server would already have trimmed
		// optional white space)
		req.Header["Grpc-Timeout"] = []string{c.Header}
	}
	rec := httptest.NewRecorder()
	guard(fmt.Sprintf("server/%s/%q", c.Handler, c.Header), func() {
		defer func() {
			if p := recover(); p != nil {
				o.Panic = fmt.Sprint(p)
			}
		}()
		cur = &o.hObs
		defer func() { cur = nil }()
		o.T0 = time.Now()
		srv.ServeHTTP(rec, req)
		o.T2 = time.Now()
	})
	o.Status = rec.Code
	return o
}

// checkServer returns ("", obs) when the case satisfies the property. class is
// the description of the input used in the fingerprint.
func checkServer(c serverCase) (clause, obs string, reachedParser bool) {
	o := runServer(c)
	f := parseRef(c.Header)
	switch {
	case o.Panic != "":
		obs = "panic: " + o.Panic
	case !o.Reached:
		obs = fmt.Sprintf("handler not reached, http=%d", o.Status)
	case !o.HasDl:
		obs = fmt.Sprintf("handler reached at t0+%v, no deadline, http=%d", o.T.Sub(o.T0), o.Status)
	default:
		obs = fmt.Sprintf("handler reached at t0+%v, deadline=%s, http=%d", o.T.Sub(o.T0), fmtTime(o.Dl, o.T0, "t0"), o.Status)
	}
	reachedParser = !c.Absent && c.Header != "" && o.Reached
	if o.Panic != "" {
		return "panic", obs, reachedParser
	}
	if c.Absent {
		if !o.Reached {
			return "handler-not-reached", obs, false
		}
		if o.HasDl {
			return "deadline-without-header", obs, false
		}
		return "", obs, false
	}
	if !f.Valid {
		// not of the form <digits><unit>: anything but a crash
		if o.Status >= 500 && o.Status != http.StatusGatewayTimeout {
			return "5xx", obs, reachedParser
		}
		return "", obs, reachedParser
	}
	want := "want deadline-D in [t0,t_handler], D=" + f.D.String() + "ns"
	if !o.Reached {
		// only legitimate when the deadline had really passed already
		if !laterThanBig(o.T2, o.T0, f.D) {
			return "handler-not-reached", obs + "; " + want, reachedParser
		}
		return "", obs, reachedParser
	}
	if f.Fits {
		d := time.Duration(f.D.Int64())
		switch {
		case !o.HasDl:
			return "no-deadline", obs + "; " + want, true
		case o.Dl.Before(o.T0):
			return "past-deadline", obs + "; " + want, true
		case o.Dl.Before(o.T0.Add(d)):
			return "too-early", obs + "; " + want, true
		case o.Dl.After(o.T.Add(d)):
			return "too-late", obs + "; " + want, true
		}
		return "", obs, true
	}
	// D is beyond what time.Duration holds: saturate (or no deadline), never wrap
	want = "D=" + f.D.String() + "ns exceeds MaxInt64: want no deadline or one not before t0+MaxInt64ns"
	switch {
	case !o.HasDl:
		return "", obs, true
	case o.Dl.Before(o.T0):
		return "past-deadline", obs + "; " + want, true
	case o.Dl.Before(o.T0.Add(math.MaxInt64)):
		return "too-early", obs + "; " + want, true
	case laterThanBig(o.Dl, o.T, f.D):
		return "too-late", obs + "; " + want, true
	}
	return "", obs, true
}

func plain(s string) bool {
	if s == "" {
		return false
	}
	for i := 0; i < len(s); i++ {
		ch := s[i]
		if !(ch >= '0' && ch <= '9' || ch >= 'a' && ch <= 'z' || ch >= 'A' && ch <= 'Z' || ch == '+' || ch == '-' || ch == '.') {
			return false
		}
	}
	return true
}

// serverFingerprint: values whose product with the unit fits int64 ns are
// identified literally when they have at most 8 digits (the wire format's
// limit) and by digit count and unit beyond that; everything that is not of the
// valid form literally; values whose product overflows by unit and size class.
func serverFingerprint(c serverCase, clause string) string {
	side := "server"
	if c.Handler == "stream" {
		side = "server-stream"
	}
	if c.Absent {
		return fmt.Sprintf("C09|%s|GRPC-Timeout=<absent>|%s", side, clause)
	}
	f := parseRef(c.Header)
	if f.Valid && !f.Fits {
		// one cause (the product does not fit int64 ns) per unit and size class,
		// however the wrapped value happens to come out
		cls := "1-8digits"
		if f.Digits > 8 {
			cls = "9+digits"
		}
		if clause == "past-deadline" || clause == "too-early" {
			clause = "wrapped"
		}
		return fmt.Sprintf("C09|%s|GRPC-Timeout=%s%c|overflows|%s", side, cls, f.Unit, clause)
	}
	if f.Valid && f.Digits > 8 {
		return fmt.Sprintf("C09|%s|GRPC-Timeout=%d-digit%c|fits|%s", side, f.Digits, f.Unit, clause)
	}
	h := c.Header
	if !plain(h) {
		h = fmt.Sprintf("%q", h)
	}
	return fmt.Sprintf("C09|%s|GRPC-Timeout=%s|%s", side, h, clause)
}

// ---------------------------------------------------------------- client and e2e clauses

type clientCase struct {
	Kind        string `json:"kind"` // "client" | "e2e"
	Path        string `json:"path"` // unary | stream
	NoDeadline  bool   `json:"no_deadline,omitempty"`
	RemainingNs int64  `json:"remaining_ns"`
	Label       string `json:"label"`
	// per-RPC credentials: "" = none, otherwise GetRequestMetadata returns
	// only after CredsDelayNs have passed
	Creds        string `json:"creds,omitempty"`
	CredsDelayNs int64  `json:"creds_delay_ns,omitempty"`
	// caller's outgoing metadata: "" = none
	MDKey  string   `json:"md_key,omitempty"`
	MDVals []string `json:"md_values,omitempty"`
}

func (c clientCase) md() mdDim { return mdDim{c.MDKey, c.MDVals} }

func (c clientCase) name() string {
	n := fmt.Sprintf("%s/%s/%s", c.Kind, c.Path, c.Label)
	if c.Creds != "" {
		n += "/creds=" + c.Creds
	}
	if c.MDKey != "" {
		n += "/md:" + c.md().label()
	}
	return n
}

// slowCreds are per-RPC credentials that return only after delay has passed on
// the clock and record the instants around that.
type slowCreds struct {
	delay time.Duration
	o     *callObs
}

func (s slowCreds) GetRequestMetadata(ctx context.Context, uri ...string) (map[string]string, error) {
	t0 := time.Now()
	for {
		left := s.delay - time.Since(t0)
		if left <= 0 {
			break
		}
		time.Sleep(left) // actuator, not oracle: the loop ends on the clock reading
	}
	if s.o.CredsCalls == 0 {
		s.o.Tc0 = t0
	}
	s.o.CredsCalls++
	s.o.Tc1 = time.Now() // nothing of the request can have been built before this
	return map[string]string{"authorization": "bearer c09"}, nil
}

func (slowCreds) RequireTransportSecurity() bool { return false }

func timeoutValues(h http.Header) []string {
	var out []string
	for k, v := range h {
		if strings.EqualFold(k, "grpc-timeout") {
			out = append(out, v...)
		}
	}
	return out
}

var errRecorded = errors.New("c09: request recorded, no response")

type callObs struct {
	Ta, Dl time.Time // instant before the call = base of the deadline; the caller's deadline
	Tb     time.Time // instant inside RoundTrip
	// first entry into / last return from GetRequestMetadata
	Tc0, Tc1   time.Time
	CredsCalls int
	Called     bool
	Values     []string
	After      time.Time
	Err        error
	Panic      string
	H          hObs
}

// sendBase is the latest recorded instant at which the request is known not to
// have been built yet: the return of the credentials if they were consulted,
// otherwise the instant before the call.
func (o *callObs) sendBase() time.Time {
	if o.CredsCalls > 0 {
		return o.Tc1
	}
	return o.Ta
}

func (o *callObs) credsObs() string {
	if o.CredsCalls == 0 {
		return ""
	}
	return fmt.Sprintf(", credentials consulted t_call+%v..t_call+%v", o.Tc0.Sub(o.Ta), o.Tc1.Sub(o.Ta))
}

// call performs one RPC with a fresh context whose deadline is exactly
// Ta+remaining. Every request is recorded (GRPC-Timeout values, instant) and
// then handed to the backend.
func call(c clientCase, backend http.RoundTripper) *callObs {
	o := &callObs{}
	finished := make(chan struct{})
	var once sync.Once
	rt := common.RT(func(r *http.Request) (*http.Response, error) {
		defer once.Do(func() { close(finished) })
		o.Tb = time.Now()
		o.Values = timeoutValues(r.Header)
		o.Called = true
		return backend.RoundTrip(r)
	})
	u, _ := url.Parse("http://example.test/")
	ch := &httpgrpc.Channel{Transport: rt, BaseURL: u}
	var opts []grpc.CallOption
	if c.Creds != "" {
		opts = append(opts, grpc.PerRPCCredentials(slowCreds{delay: time.Duration(c.CredsDelayNs), o: o}))
	}
	guard(c.name(), func() {
		defer func() {
			if p := recover(); p != nil {
				o.Panic = fmt.Sprint(p)
			}
		}()
		cur, curCall = &o.H, o
		defer func() { cur, curCall = nil, nil }()
		ctx, cancel := context.WithCancel(context.Background())
		defer cancel()
		if c.MDKey != "" {
			ctx = metadata.NewOutgoingContext(ctx, metadata.MD{c.MDKey: append([]string(nil), c.MDVals...)})
		}
		o.Ta = time.Now()
		if !c.NoDeadline {
			o.Dl = o.Ta.Add(time.Duration(c.RemainingNs))
			var c2 context.CancelFunc
			ctx, c2 = context.WithDeadline(ctx, o.Dl)
			defer c2()
		}
		if c.Path == "stream" {
			cs, err := ch.NewStream(ctx, bidiDesc, "/t.S/B", opts...)
			if err != nil {
				o.Err = err
				o.After = time.Now()
				return
			}
			cs.CloseSend()
			// the round trip happens on the library's goroutine and is made
			// unconditionally; wait until it is over (RecvMsg alone may return on
			// an expired context while the request is still on its way)
			<-finished
			var m wrapperspb.StringValue
			for {
				if err := cs.RecvMsg(&m); err != nil {
					if err != io.EOF {
						o.Err = err
					}
					break
				}
			}
		} else {
			var out wrapperspb.StringValue
			o.Err = ch.Invoke(ctx, "/t.S/U", wrapperspb.String("req"), &out, opts...)
		}
		o.After = time.Now()
	})
	return o
}

// recordingBackend answers unary calls with a canned reply and fails stream
// calls right away: only the request matters.
func recordingBackend() http.RoundTripper {
	body, _ := proto.Marshal(wrapperspb.String("resp"))
	canned := common.CannedRT(200, http.Header{"Content-Type": []string{httpgrpc.UnaryRpcContentType_V1}}, body)
	return common.RT(func(r *http.Request) (*http.Response, error) {
		if strings.HasSuffix(r.URL.Path, "/B") {
			return nil, errRecorded
		}
		return canned.RoundTrip(r)
	})
}

// e2eBackend is common.HandlerRT(server) behind a RoundTripper that detaches
// the request from the caller's context, as any real connection does: otherwise
// the handler context would inherit the caller's deadline directly and
// "extended" could never be observed.
func e2eBackend() http.RoundTripper {
	inner := common.HandlerRT(server())
	return common.RT(func(r *http.Request) (resp *http.Response, err error) {
		// for streams the round trip runs on a goroutine of the library: a panic
		// of the server must be caught here to be reported with its input
		o := curCall
		defer func() {
			if p := recover(); p != nil {
				if o != nil && o.Panic == "" {
					o.Panic = "server: " + fmt.Sprint(p)
				}
				resp, err = nil, errServerPanic
			}
		}()
		return inner.RoundTrip(r.WithContext(context.Background()))
	})
}

var (
	errServerPanic = errors.New("c09: the server panicked")
	curCall        *callObs // cases run strictly one at a time
)

func addBig(d time.Duration, e time.Duration) *big.Int {
	return new(big.Int).Add(big.NewInt(int64(d)), big.NewInt(int64(e)))
}

// notSent decides the case in which the request / the handler was never
// reached: fine once the caller's deadline has passed, a spurious expiry when
// the library says DeadlineExceeded before it, and otherwise a problem of the
// harness.
func notSent(c clientCase, o *callObs, obs string) (string, string) {
	if !c.NoDeadline && !o.After.Before(o.Dl) {
		return "", obs
	}
	if !c.NoDeadline && status.Code(o.Err) == codes.DeadlineExceeded {
		return "spurious-expiry", obs
	}
	inconclusive("%s: %s", c.name(), obs)
	return "", obs
}

// remainingAt is the caller's remaining time at instant t (t_call <= t), exact
// also for deadlines whose distance does not fit the monotonic clock: the
// remaining duration at t_call is known exactly, and t - t_call is a difference
// of monotonic readings. Never below zero.
func remainingAt(c clientCase, o *callObs, t time.Time) *big.Int {
	r := addBig(time.Duration(c.RemainingNs), -t.Sub(o.Ta))
	if r.Sign() < 0 {
		return big.NewInt(0)
	}
	return r
}

// hasTimeoutMD: the caller's outgoing metadata carries a grpc-timeout entry.
func hasTimeoutMD(c clientCase) bool { return strings.EqualFold(c.MDKey, timeoutKey) }

func checkClient(c clientCase) (clause, obs string, nontrivial bool) {
	o := call(c, recordingBackend())
	if o.Panic != "" {
		return "panic", "panic: " + o.Panic, false
	}
	if !o.Called {
		cl, ob := notSent(c, o, fmt.Sprintf("RoundTrip never called, err=%v%s", o.Err, o.credsObs()))
		return cl, ob, false
	}
	obs = fmt.Sprintf("GRPC-Timeout=%q captured at t_call+%v%s", o.Values, o.Tb.Sub(o.Ta), o.credsObs())
	if c.NoDeadline {
		// "with no caller deadline the transport adds none": nothing may be sent
		// that a server would turn into a deadline (or reject as a malformed one)
		if len(o.Values) != 0 {
			return "header-without-deadline", obs, hasTimeoutMD(c)
		}
		return "", obs, hasTimeoutMD(c)
	}
	obs += fmt.Sprintf(", remaining at t_call=%v", time.Duration(c.RemainingNs))
	if len(o.Values) == 0 {
		return "missing-header", obs, true
	}
	// the handler of a zero-transit server gets t_send+E, with t_send in
	// [t_base, t_rt], t_base = the return of the credentials (t_call without):
	//   not later than caller+transit+1ms   <=  E <= remaining(t_base) + 1ms
	//   not earlier than caller-1ms         <=  E >= remaining(t_rt) - 1ms
	// Which of several GRPC-Timeout values a server reads is its own business
	// (this package's takes the first, grpc-go's the last): each must comply.
	upper := new(big.Int).Add(remainingAt(c, o, o.sendBase()), big.NewInt(int64(time.Millisecond)))
	lower := addBig(o.Dl.Sub(o.Tb), -time.Millisecond)
	obs += fmt.Sprintf(", allowed [%s, %s]ns", lower, upper)
	for _, v := range o.Values {
		f := parseRef(v)
		if !f.Valid {
			return "malformed-header", obs + fmt.Sprintf(", %q is not a timeout", v), true
		}
		if f.D.Cmp(upper) > 0 {
			return "extended", obs + fmt.Sprintf(", %q encodes %sns", v, f.D), true
		}
		if f.D.Cmp(lower) < 0 {
			return "shortened", obs + fmt.Sprintf(", %q encodes %sns", v, f.D), true
		}
	}
	return "", obs, true
}

func checkE2E(c clientCase) (clause, obs string, nontrivial bool) {
	o := call(c, e2eBackend())
	if o.Panic != "" {
		return "panic", "panic: " + o.Panic, false
	}
	if !o.H.Reached {
		cl, ob := notSent(c, o, fmt.Sprintf("handler never reached (RoundTrip called: %v), err=%v%s", o.Called, o.Err, o.credsObs()))
		return cl, ob, false
	}
	obs = fmt.Sprintf("GRPC-Timeout=%q%s, handler reached at t_call+%v", o.Values, o.credsObs(), o.H.T.Sub(o.Ta))
	if c.NoDeadline {
		if o.H.HasDl {
			return "deadline-added", obs + ", handler deadline=" + fmtTime(o.H.Dl, o.Ta, "t_call"), hasTimeoutMD(c)
		}
		return "", obs + ", no deadline", hasTimeoutMD(c)
	}
	obs += fmt.Sprintf(", caller deadline=t_call+%v", time.Duration(c.RemainingNs))
	if !o.H.HasDl {
		return "no-deadline", obs + ", handler has no deadline", true
	}
	obs += ", handler deadline=" + fmtTime(o.H.Dl, o.Ta, "t_call")
	// transit = from the latest instant at which the request was known not to
	// be built yet (t_base) to the instant inside the handler. A deadline that
	// had run out by t_base counts from t_base: whatever is sent then can give
	// the handler no more than the 1 ms granularity.
	base := o.sendBase()
	transit := o.H.T.Sub(base)
	from := o.Dl
	if from.Before(base) {
		from = base
	}
	switch {
	case o.H.Dl.Before(o.Ta):
		return "past-deadline", obs, true
	case o.H.Dl.Before(o.Dl.Add(-time.Millisecond)):
		return "earlier-than-caller", obs, true
	case o.H.Dl.After(from.Add(transit).Add(time.Millisecond)):
		return "later-than-caller", obs + fmt.Sprintf(", transit=%v", transit), true
	}
	return "", obs, true
}

// caseKey identifies a case of the client / e2e clauses.
func caseKey(c clientCase, creds, md string) string {
	return c.Kind + "|" + c.Path + "|" + c.Label + "|" + creds + "|" + md
}

// credsClass: how long credentials take is not part of a finding's identity,
// that they take time is.
func credsClass(c clientCase) string {
	switch {
	case c.Creds == "":
		return ""
	case c.CredsDelayNs == 0:
		return "instant"
	}
	return "slow"
}

func mdClass(c clientCase) string {
	switch {
	case c.MDKey == "":
		return ""
	case hasTimeoutMD(c):
		return timeoutKey
	}
	return "other"
}

// clientFingerprint names the case by (clause, path, duration) and by the
// classes of the two further dimensions, each only if it is needed for the
// finding: a class is left out when the same case without that dimension (which
// ran earlier, simplest first) broke the same clause. failed records that.
func clientFingerprint(c clientCase, clause string, failed map[string]bool) string {
	cr, md := credsClass(c), mdClass(c)
	if failed != nil {
		failed[caseKey(c, cr, md)+"|"+clause] = true
		if cr != "" && failed[caseKey(c, "", md)+"|"+clause] {
			cr = ""
		}
		if md != "" && failed[caseKey(c, cr, "")+"|"+clause] {
			md = ""
		}
	}
	l := "remaining=" + c.Label
	if c.NoDeadline {
		l = "no-deadline"
	}
	if cr != "" {
		l += "|creds=" + cr
	}
	if md != "" {
		l += "|md=" + md
	}
	return fmt.Sprintf("C09|%s|%s|%s|%s", c.Kind, c.Path, l, clause)
}

// ---------------------------------------------------------------- main

func main() {
	debug.SetMemoryLimit(2 << 30)
	rep := vlib.NewReporter("C09")
	if p := common.Arg("replay"); p != "" {
		var probe struct {
			Kind string `json:"kind"`
		}
		if err := common.LoadReplay(p, &probe); err != nil {
			inconclusive("cannot read replay file: %v", err)
		}
		var clause, obs string
		switch probe.Kind {
		case "server":
			var c serverCase
			common.LoadReplay(p, &c)
			clause, obs, _ = checkServer(c)
		case "client":
			var c clientCase
			common.LoadReplay(p, &c)
			clause, obs, _ = checkClient(c)
		case "e2e":
			var c clientCase
			common.LoadReplay(p, &c)
			clause, obs, _ = checkE2E(c)
		default:
			inconclusive("unknown replay kind %q", probe.Kind)
		}
		fmt.Printf("replay: clause=%q observed: %s\n", clause, obs)
		if clause != "" {
			fmt.Printf("VIOLATION property=C09 replay=%s\n", p)
			os.Exit(1)
		}
		os.Exit(0)
	}

	thorough := rep.Tier == "thorough"
	evals := 0
	distinct := map[string]bool{}
	var samples []interface{}
	sample := func(c interface{}, obs string) {
		samples = append(samples, map[string]interface{}{"case": c, "observed": obs})
	}
	wantSample := map[string]bool{"<absent>": true, "100m": true, "1S": true, "99999999H": true, "2562047H": true, "9223372036854775807n": true, "-1S": true, "5": true}

	// ---- server clause
	headers := serverGrammar(thorough)
	nValid := 0
	for _, h := range headers {
		if parseRef(h).Valid {
			nValid++
		}
	}
	for _, kind := range []string{"unary", "stream"} {
		c := serverCase{Kind: "server", Handler: kind, Absent: true}
		evals++
		clause, obs, _ := checkServer(c)
		if kind == "unary" {
			sample(c, obs)
		}
		if clause != "" {
			rep.Violation(serverFingerprint(c, clause), clause+": "+obs, c)
		}
	}
	for _, h := range headers {
		for _, kind := range []string{"unary", "stream"} {
			c := serverCase{Kind: "server", Handler: kind, Header: h}
			evals++
			clause, obs, reached := checkServer(c)
			if reached {
				distinct["server|"+kind+"|"+h] = true
			}
			if kind == "unary" && wantSample[h] {
				sample(c, obs)
			}
			if clause != "" {
				rep.Violation(serverFingerprint(c, clause), fmt.Sprintf("GRPC-Timeout=%q (%s handler): %s: %s", h, kind, clause, obs), c)
			}
		}
	}

	// ---- client and end-to-end clauses
	rems := remainingGrammar(thorough)
	quickRems := map[string]bool{}
	for _, r := range remainingGrammar(false) {
		quickRems[r.Label] = true
	}
	// the further dimensions, simplest first: the plain call; then every
	// (credentials in {none, at once}) x (metadata) pair; then credentials that
	// take time x the bracketing metadata values
	type dims struct {
		cr       credsDim
		md       mdDim
		baseOnly bool // only the durations of the quick tier
	}
	var combos []dims
	combos = append(combos, dims{cr: noCreds})
	for _, cr := range []credsDim{noCreds, instantCreds} {
		for _, md := range mdGrammar {
			if cr.Delay < 0 && md.Key == "" {
				continue
			}
			combos = append(combos, dims{cr: cr, md: md})
		}
	}
	for _, cr := range slowCredsQuick {
		for _, md := range mdGrammarSlow {
			combos = append(combos, dims{cr: cr, md: md})
		}
	}
	if thorough {
		for _, cr := range slowCredsExtra {
			combos = append(combos, dims{cr: cr, baseOnly: true})
		}
	}
	failed := map[string]bool{}
	slowMeasured, mdWithDl, mdWithoutDl, credsConsulted := 0, 0, 0, 0
	sampled := map[string]bool{}
	for _, kind := range []string{"client", "e2e"} {
		for _, path := range []string{"unary", "stream"} {
			for _, dm := range combos {
				for i := -1; i < len(rems); i++ {
					c := clientCase{Kind: kind, Path: path, MDKey: dm.md.Key, MDVals: dm.md.Vals}
					if dm.cr.Delay >= 0 {
						c.Creds, c.CredsDelayNs = dm.cr.Label, int64(dm.cr.Delay)
					}
					if i < 0 {
						c.NoDeadline, c.Label = true, "none"
					} else {
						c.RemainingNs, c.Label = int64(rems[i].D), rems[i].Label
					}
					if dm.baseOnly && i >= 0 && !quickRems[c.Label] {
						continue
					}
					evals++
					var clause, obs string
					var nontrivial bool
					if kind == "client" {
						clause, obs, nontrivial = checkClient(c)
					} else {
						clause, obs, nontrivial = checkE2E(c)
					}
					if nontrivial {
						distinct[kind+"|"+path+"|"+c.Label+"|"+c.Creds+"|"+c.md().label()] = true
						if c.Creds != "" && strings.Contains(obs, "credentials consulted") {
							credsConsulted++
							if c.CredsDelayNs > 0 {
								slowMeasured++
							}
						}
						if hasTimeoutMD(c) {
							if c.NoDeadline {
								mdWithoutDl++
							} else {
								mdWithDl++
							}
						}
					}
					plainSample := c.Creds == "" && c.MDKey == "" && (c.Label == "none" || c.Label == "100us" || c.Label == "1.5ms" || c.Label == "1h" || c.Label == "max")
					dimSample := (c.Label == "none" || c.Label == "10ms" || c.Label == "1h") &&
						(c.Creds == "30ms" && c.MDKey == "" || c.Creds == "" && (c.md().label() == timeoutKey+"=1n" || c.md().label() == timeoutKey+"=1H,1n") ||
							c.Creds == "3ms" && c.md().label() == timeoutKey+"=1H")
					if path == "unary" && (plainSample || dimSample) && !sampled[c.name()] {
						sampled[c.name()] = true
						sample(c, obs)
					}
					if clause != "" {
						rep.Violation(clientFingerprint(c, clause, failed), fmt.Sprintf("%s: %s: %s", c.name(), clause, obs), c)
					}
				}
			}
		}
	}

	os.Exit(rep.Finish("exploration", map[string]interface{}{
		"evaluations":         evals,
		"distinct_nontrivial": len(distinct),
		"rule": "server: every string of the grammar (" + grammarText(thorough) + ") as the GRPC-Timeout value, plus the header absent, x {unary, streaming} handler through httpgrpc.Server.ServeHTTP on a recorder; " +
			"non-trivial = header present and non-empty (the parse branch of contextFromHeaders runs) and the handler was reached so that ctx.Deadline() was observed; distinct by (handler kind, string). " +
			"client / e2e: every remaining duration of the grammar (" + remainingText(thorough) + ") plus no deadline x {Invoke, NewStream} through a recording RoundTripper, and through HandlerRT(server), " +
			"crossed with per-RPC " + credsText(thorough) + " and " + mdText() + ": the full cross product for credentials {none, at once} x metadata; credentials that take time (each case costs its delay on the clock) x metadata {none, " + mdGrammarSlow[1].label() + ", " + mdGrammarSlow[2].label() + "}, swept over every duration; " +
			"non-trivial = the context had a deadline (the encoding branch of headersFromContext runs) or the metadata carried a grpc-timeout entry (the entry reaches the header map), and the RoundTripper / the handler was reached; distinct by (clause, path, duration, credentials, metadata). " +
			"slow_credentials_measured counts the non-trivial cases in which GetRequestMetadata was entered and left with at least the delay between the two recorded instants; grpc_timeout_metadata_with/without_deadline count the non-trivial cases with such an entry.",
		"server_strings":                         len(headers),
		"server_strings_valid":                   nValid,
		"remaining_durations":                    len(rems),
		"credentials_metadata_combinations":      len(combos),
		"metadata_values":                        len(mdGrammar),
		"credentials_consulted":                  credsConsulted,
		"slow_credentials_measured":              slowMeasured,
		"grpc_timeout_metadata_with_deadline":    mdWithDl,
		"grpc_timeout_metadata_without_deadline": mdWithoutDl,
		"samples":                                samples,
		"exhaustive":                             true,
	}, []string{
		"server side on httptest.ResponseRecorder, client side on a synthetic RoundTripper: net/http's own header handling (trimming of optional white space, rejection of control characters) is not in the loop, the parser sees the raw string",
		"end to end, the request is detached from the caller's context before it reaches the server (as over a real connection), so the handler's deadline comes from the GRPC-Timeout header alone",
		"deadlines 292 years or more ahead lose their monotonic clock reading inside package time; for those cases the bracketing comparison falls back to wall-clock readings and assumes the wall clock is not stepped backwards during the few microseconds of the case",
		"client-side oracle demands what the statement says (within the 1 ms granularity either way, measured against instants around the call), not the particular rounding mode or unit",
		"transit time starts when the per-RPC credentials have answered (grpc-go, the reference, computes the timeout it sends after GetRequestMetadata returned); the time credentials take is produced with time.Sleep inside GetRequestMetadata but judged only by the instants recorded at its entry and return, there is no tolerance anywhere",
		"a deadline that runs out while the credentials are being obtained: the request may not be sent at all, or sent with the minimal timeout; the handler then may get no more than the 1 ms granularity counted from the return of the credentials",
		"a grpc-timeout entry supplied by the credentials themselves (rather than by the caller's metadata) is not enumerated: grpc-go sends such an entry after its own and its server lets the last one win, so the reference does not define it; upper-case spellings of the key are not valid metadata keys for the reference either",
		"when several GRPC-Timeout values are sent the client clause demands that each of them complies (servers differ in which one they read); the end-to-end clause judges what this package's server makes of them",
	}))
}
