package main

// Overlapping copies: a second copy (of a different message, through the same
// adapter) runs in the middle of a first one. Both must still equal their own
// sources. The overlap is produced deterministically, on one goroutine, by a
// message type that wraps a generated message and calls back at a fixed moment:
//
//   dst-reset    the destination's Reset method (the library, or proto.Unmarshal
//                on its behalf, resets the destination after the source has been
//                read / encoded and before the content is written)
//   src-reflect  the first time the library looks at the source (ProtoReflect)
//
// A wrapper type is a third Go representation of the message type; the
// statement promises copies between generated and dynamic ones only, so an
// adapter may refuse a wrapper with an error. What is demanded is: if the outer
// copy reports success, its destination equals its source, and so does the
// inner copy's, and neither source changed.

import (
	"bytes"
	"fmt"

	"google.golang.org/protobuf/proto"
	"google.golang.org/protobuf/reflect/protoreflect"
)

type hooked struct {
	M    proto.Message
	at   string // which callback is armed
	fire func()
}

func (h *hooked) trigger(at string) {
	if h.fire != nil && h.at == at {
		f := h.fire
		h.fire = nil // once
		f()
	}
}

func (h *hooked) ProtoReflect() protoreflect.Message {
	h.trigger("src-reflect")
	return h.M.ProtoReflect()
}

func (h *hooked) Reset() {
	h.trigger("dst-reset")
	proto.Reset(h.M)
}

func (h *hooked) String() string { return fmt.Sprint(h.M) }
func (h *hooked) ProtoMessage()  {}

func unwrap(m interface{}) interface{} {
	if h, ok := m.(*hooked); ok {
		return h.M
	}
	return m
}

func runOverlap(k kase) (o outcome) {
	defer func() {
		if r := recover(); r != nil {
			o.Internal = fmt.Sprintf("checker panic on %s: %v", k.key(), r)
		}
	}()
	add := func(clause, what string) { o.Findings = append(o.Findings, finding{Clause: clause, What: what}) }
	c := mkAdapter(k.Adapter)
	a, b := specByName[k.Src], specByName[k.Inner]

	mk := func(s *spec, rep string) interface{} {
		if rep == "hooked" {
			return &hooked{M: s.build()}
		}
		return s.instance(rep)
	}
	srcA := mk(a, k.SrcRep)
	var dstA interface{}
	if k.DstFill != "" {
		dstA = mk(specByName[k.DstFill], k.DstRep)
	} else {
		e := k
		e.DstRep = map[string]string{"hooked": "gen"}[k.DstRep]
		if e.DstRep == "" {
			e.DstRep = k.DstRep
		}
		dstA = e.buildDst()
		if k.DstRep == "hooked" {
			dstA = &hooked{M: dstA.(proto.Message)}
		}
	}
	// Prelude, part of every overlap case so that a single case behaves the same
	// alone (replay) and inside the full enumeration: the adapter has already
	// copied the largest message of the pool in every pairing, i.e. whatever
	// buffers or caches it keeps are warm and large.
	big := largestSpec()
	for _, r := range []string{"dyn", "gen"} {
		for _, dr := range []string{"gen", "dyn"} {
			pk := kase{Adapter: k.Adapter, Op: "Copy", Src: big.Name, SrcRep: r, DstType: big.Type, DstRep: dr}
			invoke(c, pk, pk.buildSrc(), pk.buildDst())
		}
	}
	srcB := b.instance(k.InnerSrcRep)
	ik := kase{Adapter: k.Adapter, Op: "Copy", Src: k.Inner, SrcRep: k.InnerSrcRep, DstType: b.Type, DstRep: k.InnerDstRep}
	dstB := ik.buildDst()

	wantA, _ := canon(unwrap(srcA))
	wantB, _ := canon(srcB)

	var innerRan bool
	var innerErr error
	var innerPanic interface{}
	inner := func() {
		innerRan = true
		_, innerErr, innerPanic = invoke(c, ik, srcB, dstB)
	}
	switch k.Hook {
	case "dst-reset":
		h := dstA.(*hooked)
		h.at, h.fire = "dst-reset", inner
	case "src-reflect":
		h := srcA.(*hooked)
		h.at, h.fire = "src-reflect", inner
	}
	_, err, p := invoke(c, k, srcA, dstA)
	for _, m := range []interface{}{srcA, dstA} {
		if h, ok := m.(*hooked); ok {
			h.fire = nil
		}
	}
	o.Reached = true
	switch {
	case p != nil:
		o.Observed = fmt.Sprintf("panic: %v", p)
		add("panic", fmt.Sprintf("%s panicked: %v", describe(k), p))
		return
	case innerPanic != nil:
		o.Observed = fmt.Sprintf("inner panic: %v", innerPanic)
		add("panic", fmt.Sprintf("%s: the inner copy panicked: %v", describe(k), innerPanic))
		return
	case err != nil:
		o.Observed = "outer copy refused: " + err.Error()
		return // a wrapper may be refused
	case !innerRan:
		o.Observed = "outer copy ok, callback never reached"
		return
	}
	o.Mutations = 1 // the overlap happened
	o.Observed = "outer ok, inner ran"
	gotA, errA := canon(unwrap(dstA))
	if errA != nil || !bytes.Equal(gotA, wantA) {
		add("outer-not-equal", fmt.Sprintf("%s: the outer copy returned nil but its destination marshals to %s, its source to %s (%v)", describe(k), short(gotA), short(wantA), errA))
	}
	if innerErr != nil {
		o.Observed += ", inner refused: " + innerErr.Error()
	} else {
		gotB, errB := canon(dstB)
		if errB != nil || !bytes.Equal(gotB, wantB) {
			add("inner-not-equal", fmt.Sprintf("%s: the inner copy returned nil but its destination marshals to %s, its source to %s (%v)", describe(k), short(gotB), short(wantB), errB))
		}
	}
	if now, _ := canon(unwrap(srcA)); !bytes.Equal(now, wantA) {
		add("source-changed", fmt.Sprintf("%s: the outer source changed", describe(k)))
	}
	if now, _ := canon(srcB); !bytes.Equal(now, wantB) {
		add("source-changed", fmt.Sprintf("%s: the inner source changed", describe(k)))
	}
	return
}

// enumerateOverlap: outer (source, destination) representations that put a
// wrapper where the callback is needed x inner copy pairings x message pairs
// (A, B) of the same type, B != A (quick: the type's filler and the type's
// first and last spec; thorough: every other spec).
func enumerateOverlap(a string, thorough bool) []kase {
	var out []kase
	type od struct{ hook, src, dst string }
	outers := []od{
		{"dst-reset", "dyn", "hooked"}, {"dst-reset", "gen", "hooked"}, {"dst-reset", "hooked", "hooked"},
		{"src-reflect", "hooked", "dyn"}, {"src-reflect", "hooked", "gen"}, {"src-reflect", "hooked", "hooked"},
	}
	reps := []string{"gen", "dyn"}
	for _, o := range outers {
		for _, s := range pool {
			others := partners(s, thorough)
			for _, b := range others {
				for _, ir := range reps {
					for _, idr := range reps {
						for _, fill := range []string{"", b.Name} {
							out = append(out, kase{Adapter: a, Op: "Copy", Src: s.Name, SrcRep: o.src, DstType: s.Type, DstRep: o.dst, DstFill: fill,
								Hook: o.hook, Inner: b.Name, InnerSrcRep: ir, InnerDstRep: idr})
						}
					}
				}
			}
		}
	}
	return out
}

var biggest *spec

func largestSpec() *spec {
	if biggest == nil {
		n := -1
		for _, s := range pool {
			if b, err := canon(s.build()); err == nil && len(b) > n {
				biggest, n = s, len(b)
			}
		}
	}
	return biggest
}

func partners(s *spec, thorough bool) []*spec {
	var all []*spec
	for _, x := range specsOfType[s.Type] {
		if x != s {
			all = append(all, x)
		}
	}
	if thorough || len(all) <= 3 {
		return all
	}
	pick := map[*spec]bool{all[0]: true, all[len(all)-1]: true}
	for _, f := range fillers(s.Type, s, false) {
		pick[f] = true
	}
	var out []*spec
	for _, x := range all {
		if pick[x] {
			out = append(out, x)
		}
	}
	return out
}
