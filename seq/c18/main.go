// C18: every cloner adapter produces equal, deep and independent copies.
//
// Bounded-exhaustive: message pool (generated and *dynamic.Message form of each)
// x 4 adapters x {Clone, Copy into empty / pre-populated destination} x pairing
// {same type, generated<->dynamic, different message type, pointer to non-proto}.
// The real adapters from inprocgrpc run on every case; the oracle is in oracle.go
// (equality, source unchanged, behavioural disjointness by in-place mutation,
// destination replaced, refusal with an error and never a panic).
package main

import (
	"fmt"
	"os"
	"runtime"
	"runtime/debug"
	"strings"

	"verif/seq/common"
	"verif/vlib"
)

func fingerprint(k kase, clause string) string {
	return fmt.Sprintf("C18|%s|%s|%s|%s", k.Adapter, k.Op, k.pairing(), clause)
}

type aggregate struct {
	first   kase
	what    string
	telling string
	n       int
}

// telling: the finding text shows data that ended up where it must not (a
// silently accepted copy into another type with a non-empty result).
func telling(f finding) bool {
	i := strings.Index(f.What, "destination now marshals to ")
	return i >= 0 && len(f.What) > i+len("destination now marshals to ")
}

func inconclusive(msg string) {
	fmt.Fprintln(os.Stderr, "INCONCLUSIVE:", msg)
	os.Exit(2)
}

func main() {
	debug.SetMemoryLimit(2 << 30)
	// everything runs on one goroutine; one P also pins per-P caches (sync.Pool
	// free lists) that a library might use, so overlapping copies meet them
	// the same way in every run
	runtime.GOMAXPROCS(1)
	rep := vlib.NewReporter("C18")
	thorough := rep.Tier == "thorough"

	if p := common.Arg("replay"); p != "" {
		var k kase
		if err := common.LoadReplay(p, &k); err != nil {
			inconclusive("cannot load replay: " + err.Error())
		}
		if k.Adapter == "" || (!isNP(k.Src) && specByName[k.Src] == nil) || (k.DstFill != "" && specByName[k.DstFill] == nil) || (k.Hook != "" && specByName[k.Inner] == nil) {
			inconclusive("replay file does not describe a C18 case")
		}
		o := runCase(k)
		if o.Internal != "" {
			inconclusive(o.Internal)
		}
		fmt.Printf("replay: %s (expected outcome: %s) observed: %s\n", describe(k), k.expect(), o.Observed)
		for _, f := range o.Findings {
			fmt.Printf("  %s: %s\n", fingerprint(k, f.Clause), f.What)
		}
		if len(o.Findings) > 0 {
			fmt.Printf("VIOLATION property=C18 replay=%s\n", p)
			os.Exit(1)
		}
		os.Exit(0)
	}

	// --- the checker checks itself first: pool, mutator power, reference clone/copy functions
	if pr := poolCheck(); len(pr) > 0 {
		inconclusive(fmt.Sprintf("message pool is not well-formed: %v", pr))
	}
	if pr := mutatorCheck(); len(pr) > 0 {
		inconclusive(fmt.Sprintf("disjointness test mis-calibrated: %v", pr))
	}
	selfCases := 0
	for _, k := range enumerate([]string{"raw"}, thorough) {
		selfCases++
		o := runCase(k)
		if o.Internal != "" {
			inconclusive(o.Internal)
		}
		if len(o.Findings) > 0 {
			inconclusive(fmt.Sprintf("the reference clone/copy functions handed to CloneFunc/CopyFunc are not correct on %s: %s: %s",
				describe(k), o.Findings[0].Clause, o.Findings[0].What))
		}
	}

	// --- the adapters
	evals := 0
	distinct := map[string]bool{}
	perClass := map[string]int{}
	var samples []interface{}
	sampled := map[string]bool{}
	agg := map[string]*aggregate{}
	var aggOrder []string
	for _, k := range enumerate(adapterNames, thorough) {
		evals++
		o := runCase(k)
		if o.Internal != "" {
			inconclusive(o.Internal)
		}
		if o.Reached && (k.expect() == "refuse" || o.Mutations > 0 || len(o.Findings) > 0) {
			distinct[k.key()] = true
			perClass[k.Adapter+"|"+k.Op+"|"+k.pairing()]++
		}
		sk := k.Op + "|" + k.pairing()
		if !sampled[sk] && len(samples) < 12 && k.Adapter == "ProtoCloner" && (isNP(k.Src) || k.Src == "msg-full") {
			sampled[sk] = true
			samples = append(samples, map[string]interface{}{"case": k, "expected": k.expect(), "observed": o.Observed, "in_place_mutations": o.Mutations})
		}
		for _, f := range o.Findings {
			fp := fingerprint(k, f.Clause)
			a := agg[fp]
			if a == nil {
				a = &aggregate{first: k, what: f.What}
				agg[fp] = a
				aggOrder = append(aggOrder, fp)
			}
			a.n++
			// the simplest case is the replay; the text also quotes the first case whose effect is visible in the data
			if a.telling == "" && a.n > 1 && telling(f) {
				a.telling = f.What
			}
		}
	}
	for _, fp := range aggOrder {
		a := agg[fp]
		what := a.what
		if a.n > 1 && a.first.Hook == "" { // (the number of overlap cases that show a corruption may depend on map order inside the library)
			what += fmt.Sprintf(" [%d cases of the grammar fail in this class; the replay is the simplest]", a.n)
		}
		if a.telling != "" && !telling(finding{What: a.what}) {
			what += " [e.g. also: " + a.telling + "]"
		}
		rep.Violation(fp, what, a.first)
	}

	classes := map[string]interface{}{}
	for _, c := range sortedKeys(perClass) {
		classes[c] = perClass[c]
	}
	os.Exit(rep.Finish("exploration", map[string]interface{}{
		"evaluations":         evals,
		"distinct_nontrivial": len(distinct),
		"rule": "every (adapter, operation, source message, source representation, destination type / representation / previous content) of the grammar is run through the real adapter. " +
			"Overlapping copies: for every adapter, a second copy of another message of the same type (4 generated/dynamic pairings) runs inside a callback of a wrapper message type placed as " +
			"destination (its Reset) or source (its first ProtoReflect) of the first; when the first reports success both results must equal their sources. " +
			"A case is non-trivial when the adapter operation was actually invoked and either a refusal was due (different type, non-proto pointer), or the copy went through the " +
			"disjointness test with at least one in-place mutation applied, or (overlap cases) the outer copy succeeded and the inner copy really ran inside it, or a clause failed; distinct by all case parameters.",
		"samples":             samples,
		"exhaustive":          true,
		"pool_messages":       len(pool),
		"message_types":       len(typeOrder),
		"adapters":            adapterNames,
		"self_check_cases":    selfCases,
		"nontrivial_by_class": classes,
	}, []string{
		"*dynamic.Message exposes no protoreflect view: its content is mutated through its public accessors (stored byte slices, nested messages and unknown-field records are handed out by reference; SetRepeatedField/PutMapField write into the stored slice/map)",
		"equality of a dynamic message is judged on its deterministic wire form parsed into the generated type",
		"the clone and copy functions given to CloneFunc/CopyFunc are the checker's own; they pass the same oracle on the whole grammar before the adapters are run (otherwise exit 2)",
	}))
}
