// C18: every cloner adapter produces equal, deep and independent copies.
//
// Bounded-exhaustive: message pool (generated and *dynamic.Message form of each)
// x 4 adapters x {Clone, Copy into empty / pre-populated destination} x pairing
// {same type, generated<->dynamic, different message type, pointer to non-proto};
// overlapping copies (overlap.go); and sequences of 2-3 operations of ONE adapter
// object in which later operations read objects that earlier ones produced or
// read, modified by their owner in between (seqs.go, seqmod.go); and the
// provenance of the descriptor behind a dynamic message (prov.go): the cached
// descriptor of the generated type or a second descriptor object for the same
// message type (built again from the FileDescriptorProto, through a descriptor
// set round trip, with the whole import closure built again, or anew for every
// message), source and destination independently, crossed with the isolated
// operations and swept around the 2-step sequences.
// And the configuration of a dynamic message (cfg.go): made by dynamic.NewMessage,
// with an extension registry, with a message factory, or having learnt extension
// fields from its owner, over messages of an extendable type with extension
// fields set; source and destination independently, crossed with the isolated
// operations and swept around the 2-step sequences.
// The real adapters from inprocgrpc run on every case; the oracle is in oracle.go
// (equality, source unchanged, behavioural disjointness by in-place mutation,
// destination replaced, refusal with an error and never a panic).
package main

import (
	"fmt"
	"os"
	"runtime"
	"runtime/debug"
	"strings"

	"verif/seq/common"
	"verif/vlib"
)

func fingerprint(k kase, f finding) string {
	if f.Class != "" {
		return fmt.Sprintf("C18|%s|%s|%s", k.Adapter, f.Class, f.Clause)
	}
	return fmt.Sprintf("C18|%s|%s|%s|%s", k.Adapter, k.Op, k.pairing(), f.Clause)
}

type aggregate struct {
	first   kase
	what    string
	telling string
	n       int
}

// telling: the finding text shows data that ended up where it must not (a
// silently accepted copy into another type with a non-empty result).
func telling(f finding) bool {
	i := strings.Index(f.What, "destination now marshals to ")
	return i >= 0 && len(f.What) > i+len("destination now marshals to ")
}

func inconclusive(msg string) {
	fmt.Fprintln(os.Stderr, "INCONCLUSIVE:", msg)
	os.Exit(2)
}

func main() {
	debug.SetMemoryLimit(2 << 30)
	debug.SetGCPercent(1000) // the live heap is a few MB; millions of short-lived messages are made
	// everything runs on one goroutine; one P also pins per-P caches (sync.Pool
	// free lists) that a library might use, so overlapping copies meet them
	// the same way in every run
	runtime.GOMAXPROCS(1)
	rep := vlib.NewReporter("C18")
	thorough := rep.Tier == "thorough"

	if p := common.Arg("replay"); p != "" {
		var k kase
		if err := common.LoadReplay(p, &k); err != nil {
			inconclusive("cannot load replay: " + err.Error())
		}
		if k.Adapter == "" || (!isNP(k.Src) && specByName[k.Src] == nil) || (k.DstFill != "" && specByName[k.DstFill] == nil) || (k.Hook != "" && specByName[k.Inner] == nil) {
			inconclusive("replay file does not describe a C18 case")
		}
		for _, r := range []string{k.SrcRep, k.DstRep, k.InnerSrcRep, k.InnerDstRep} {
			if r != "" && !knownRep(r) {
				inconclusive("replay file names an unknown representation: " + r)
			}
		}
		for _, st := range k.Seq {
			if st.DstRep != "" && !knownRep(st.DstRep) {
				inconclusive("replay file names an unknown representation: " + st.DstRep)
			}
			if (st.Op != "Clone" && st.Op != "Copy") || (st.Dst == "fill" && specByName[st.DstFill] == nil) || isNP(k.Src) {
				inconclusive("replay file does not describe a C18 sequence")
			}
		}
		o := runCase(k)
		if o.Internal != "" {
			inconclusive(o.Internal)
		}
		fmt.Printf("replay: %s (expected outcome: %s) observed: %s\n", describe(k), k.expect(), o.Observed)
		for _, f := range o.Findings {
			fmt.Printf("  %s: %s\n", fingerprint(k, f), f.What)
		}
		if len(o.Findings) > 0 {
			fmt.Printf("VIOLATION property=C18 replay=%s\n", p)
			os.Exit(1)
		}
		os.Exit(0)
	}

	// --- the checker checks itself first: pool, mutator power, reference clone/copy functions
	if pr := poolCheck(); len(pr) > 0 {
		inconclusive(fmt.Sprintf("message pool is not well-formed: %v", pr))
	}
	if pr := provCheck(); len(pr) > 0 {
		inconclusive(fmt.Sprintf("the descriptor provenances are not what they are meant to be: %v", pr))
	}
	if pr := cfgCheck(); len(pr) > 0 {
		inconclusive(fmt.Sprintf("the configurations of the dynamic messages are not what they are meant to be: %v", pr))
	}
	if pr := mutatorCheck(); len(pr) > 0 {
		inconclusive(fmt.Sprintf("disjointness test mis-calibrated: %v", pr))
	}
	if pr := modCheck(); len(pr) > 0 {
		inconclusive(fmt.Sprintf("the modifications made between the steps of a sequence are mis-calibrated: %v", pr))
	}
	if pr := bulkCheck(); len(pr) > 0 {
		inconclusive(fmt.Sprintf("the fast disjointness test of the sequences is mis-calibrated: %v", pr))
	}
	selfCases := 0
	self := func(k kase) {
		selfCases++
		o := runCase(k)
		if o.Internal != "" {
			inconclusive(o.Internal)
		}
		if len(o.Findings) > 0 {
			inconclusive(fmt.Sprintf("the reference clone/copy functions handed to CloneFunc/CopyFunc are not correct on %s: %s: %s",
				describe(k), o.Findings[0].Clause, o.Findings[0].What))
		}
	}
	for _, k := range enumerate([]string{"raw"}, thorough) {
		self(k)
	}
	enumerateSeq("raw", false, self) // (the reference functions keep no state: the sequences of the quick tier)
	for _, k := range enumerateProv("raw", thorough) {
		self(k)
	}
	enumerateSeqProv("raw", false, self)
	for _, k := range enumerateCfg("raw", thorough) {
		self(k)
	}
	enumerateSeqCfg("raw", false, self)
	calProblems, calCases := seqCalibration()
	if len(calProblems) > 0 {
		inconclusive(fmt.Sprintf("the sequence grammar is mis-calibrated: %v", calProblems))
	}

	// --- the adapters
	evals := 0
	distinct := map[string]bool{}
	distinctSeq := map[uint64]struct{}{}
	seqEvals := map[int]int{}
	var seqSamples, provSamples, cfgSamples []interface{}
	provEvals, seqProvEvals := 0, 0
	cfgEvals, seqCfgEvals := 0, 0
	perClass := map[string]int{}
	var samples []interface{}
	sampled := map[string]bool{}
	agg := map[string]*aggregate{}
	var aggOrder []string
	process := func(k kase) {
		evals++
		o := runCase(k)
		if o.Internal != "" {
			inconclusive(o.Internal)
		}
		if len(k.Seq) > 0 && k.hasCfg() {
			seqCfgEvals++
			if o.Reached || len(o.Findings) > 0 {
				h := hash64(k.Adapter + "|" + k.Src + "|" + k.SrcRep + o.EffKey)
				if _, dup := distinctSeq[h]; !dup {
					distinctSeq[h] = struct{}{}
					perClass[fmt.Sprintf("%s|Seq|2 steps, dynamic message configuration sweep", k.Adapter)]++
				}
			}
			if sk := "seqcfg|" + k.SrcRep + "|" + k.Seq[0].DstRep; !sampled[sk] && len(cfgSamples) < 14 && k.Adapter == "ProtoCloner" && k.Src == "mopt-filler" &&
				k.SrcRep == "dyn+er" && k.Seq[0].Op == "Clone" && k.Seq[1].Dst == "fill" && k.Seq[1].Src == 1 && k.Seq[1].Mod == "deep" {
				sampled[sk] = true
				cfgSamples = append(cfgSamples, map[string]interface{}{"case": k, "reads": describe(k), "observed": o.Observed, "in_place_mutations": o.Mutations})
			}
		} else if len(k.Seq) > 0 && k.hasProv() {
			seqProvEvals++
			if o.Reached || len(o.Findings) > 0 {
				h := hash64(k.Adapter + "|" + k.Src + "|" + k.SrcRep + o.EffKey)
				if _, dup := distinctSeq[h]; !dup {
					distinctSeq[h] = struct{}{}
					perClass[fmt.Sprintf("%s|Seq|2 steps, descriptor provenance sweep", k.Adapter)]++
				}
			}
			if sk := "seqprov|" + k.SrcRep + "|" + k.Seq[0].DstRep; !sampled[sk] && len(provSamples) < 12 && k.Adapter == "ProtoCloner" && k.Src == seqPoolQuick[0] &&
				(k.SrcRep == "dyn@fresh" || k.SrcRep == "dyn@set") && k.Seq[0].Dst == "fill" && k.Seq[1].Dst == "obj" && k.Seq[1].Src == 1 && k.Seq[1].Mod == "deep" {
				sampled[sk] = true
				provSamples = append(provSamples, map[string]interface{}{"case": k, "reads": describe(k), "observed": o.Observed, "in_place_mutations": o.Mutations})
			}
		} else if len(k.Seq) > 0 {
			seqEvals[len(k.Seq)]++
			// distinct by the steps that had an effect: a modification kind that does not
			// apply to the object makes the case coincide with the unmodified one
			if o.Reached || len(o.Findings) > 0 {
				h := hash64(k.Adapter + "|" + k.Src + "|" + k.SrcRep + o.EffKey)
				if _, dup := distinctSeq[h]; !dup {
					distinctSeq[h] = struct{}{}
					perClass[fmt.Sprintf("%s|Seq|%d steps", k.Adapter, len(k.Seq))]++
				}
			}
			last := k.Seq[len(k.Seq)-1]
			sk := fmt.Sprintf("seq|%d|%s|%s|%s|%v", len(k.Seq), k.Adapter, last.Op, last.Dst, last.Src)
			want := (len(k.Seq) == 2 && last.Mod == "map") || (len(k.Seq) == 3 && last.Mod == "deep" && k.Seq[1].Mod == "deep" && k.Seq[1].Src == 1)
			if !sampled[sk] && len(seqSamples) < 10 && k.Adapter == "CodecCloner" && k.Src == seqPoolQuick[0] && k.SrcRep == "dyn" && last.Src > 0 && want {
				sampled[sk] = true
				seqSamples = append(seqSamples, map[string]interface{}{"case": k, "reads": describe(k), "observed": o.Observed, "in_place_mutations": o.Mutations})
			}
		} else {
			if o.Reached && (k.expect() == "refuse" || o.Mutations > 0 || len(o.Findings) > 0) {
				distinct[k.key()] = true
				perClass[k.Adapter+"|"+k.Op+"|"+k.pairing()]++
			}
			sk := k.Op + "|" + k.pairing()
			if k.hasCfg() {
				cfgEvals++
				if sk = "cfg|" + sk; !sampled[sk] && len(cfgSamples) < 10 && k.Adapter == "ProtoCloner" && k.Src == "mopt-ext-full" && k.expect() == "copy" && k.DstFill == "" && !k.hasProv() {
					sampled[sk] = true
					cfgSamples = append(cfgSamples, map[string]interface{}{"case": k, "expected": k.expect(), "observed": o.Observed, "in_place_mutations": o.Mutations,
						"equality_as_dynamic_messages_demanded": demandDynEqual(k.Op, k.SrcRep, k.DstRep)})
				}
			} else if k.hasProv() {
				provEvals++
				if sk = "prov|" + sk + "|" + k.SrcRep + "|" + k.DstRep; !sampled[sk] && len(provSamples) < 8 && k.Adapter == "ProtoCloner" && k.Src == "trailer-full" && k.DstFill != "" &&
					(k.SrcRep == "dyn@deps" || k.DstRep == "dyn@fresh") && k.SrcRep != "dyn@rebuilt" && k.DstRep != "dyn@set" {
					sampled[sk] = true
					provSamples = append(provSamples, map[string]interface{}{"case": k, "expected": k.expect(), "observed": o.Observed, "in_place_mutations": o.Mutations})
				}
			} else if !sampled[sk] && len(samples) < 12 && k.Adapter == "ProtoCloner" && (isNP(k.Src) || k.Src == "msg-full") {
				sampled[sk] = true
				samples = append(samples, map[string]interface{}{"case": k, "expected": k.expect(), "observed": o.Observed, "in_place_mutations": o.Mutations})
			}
		}
		for _, f := range o.Findings {
			fp := fingerprint(k, f)
			a := agg[fp]
			if a == nil {
				a = &aggregate{first: k, what: f.What}
				agg[fp] = a
				aggOrder = append(aggOrder, fp)
			}
			a.n++
			// the simplest case is the replay; the text also quotes the first case whose effect is visible in the data
			if a.telling == "" && a.n > 1 && telling(f) {
				a.telling = f.What
			}
		}
	}
	for _, k := range enumerate(adapterNames, thorough) {
		process(k)
	}
	// operation sequences on one adapter object, after every isolated operation
	for _, a := range adapterNames {
		enumerateSeq(a, thorough, process)
	}
	// the provenance of a dynamic message's descriptor: isolated operations, then 2-step sequences
	for _, a := range provAdapters() {
		for _, k := range enumerateProv(a, thorough) {
			process(k)
		}
	}
	for _, a := range adapterNames {
		enumerateSeqProv(a, thorough, process)
	}
	// the configuration of a dynamic message (extension registry, message factory, learnt fields): isolated operations, then 2-step sequences
	for _, a := range provAdapters() {
		for _, k := range enumerateCfg(a, thorough) {
			process(k)
		}
	}
	for _, a := range adapterNames {
		enumerateSeqCfg(a, thorough, process)
	}
	for _, fp := range aggOrder {
		a := agg[fp]
		what := a.what
		if a.n > 1 && a.first.Hook == "" { // (the number of overlap cases that show a corruption may depend on map order inside the library)
			what += fmt.Sprintf(" [%d cases of the grammar fail in this class; the replay is the simplest]", a.n)
		}
		if a.telling != "" && !telling(finding{What: a.what}) {
			what += " [e.g. also: " + a.telling + "]"
		}
		rep.Violation(fp, what, a.first)
	}

	classes := map[string]interface{}{}
	for _, c := range sortedKeys(perClass) {
		classes[c] = perClass[c]
	}
	os.Exit(rep.Finish("exploration", map[string]interface{}{
		"evaluations":         evals,
		"distinct_nontrivial": len(distinct) + len(distinctSeq),
		"rule": "every (adapter, operation, source message, source representation, destination type / representation / previous content) of the grammar is run through the real adapter. " +
			"Overlapping copies: for every adapter, a second copy of another message of the same type (4 generated/dynamic pairings) runs inside a callback of a wrapper message type placed as " +
			"destination (its Reset) or source (its first ProtoReflect) of the first; when the first reports success both results must equal their sources. " +
			"A case is non-trivial when the adapter operation was actually invoked and either a refusal was due (different type, non-proto pointer), or the copy went through the " +
			"disjointness test with at least one in-place mutation applied, or (overlap cases) the outer copy succeeded and the inner copy really ran inside it, or a clause failed; distinct by all case parameters. " +
			"Operation sequences: for every adapter ONE adapter object performs 2 or 3 operations on a base object x0 (sequence pool, generated and dynamic form); each operation is Clone, " +
			"Copy into an empty or a pre-populated destination (generated / dynamic), Copy into an object that already takes part in the sequence, or Copy into a destination of another message type (refusal due); " +
			"the source of step 2 and 3 is any object that exists so far (x0 again, or the result / destination of an earlier step), after its owner did one of {nothing, set a field, clear a field, " +
			"append to a repeated field, change and add a map entry, add an unknown field, mutate everything reachable in place}. 2 steps: all of it crossed, over the whole sequence pool of the tier. " +
			"3 steps: both modifications in {nothing, everything in place}; quick: the first 3 messages of the pool, pre-populated destinations at the last step only; thorough: the whole pool, every operation at every step, " +
			"and over the first 3 messages of the pool also every sequence in which exactly one of the two modifications is a single-kind one. " +
			"Every step is judged by the oracle of the single operation against the source as it is at that moment, " +
			"every other object of the sequence must keep its marshalled form across each modification and each operation that does not write it, and the last (source, result) pair goes through the two-way in-place mutation test. " +
			"A failing sequence is reduced before it is reported: shortest failing prefix, then the failing step is repeated by a NEW adapter object on the same objects; if it fails there too the finding is reported in the class of the isolated operation, " +
			"so a fingerprint with 'seq:' names something that takes a long-lived adapter: seq:src=<what the adapter did with the source object last: base (read it) | clone-result | copy-dest>[,modified (by its owner since)]:<representations>. " +
			"A sequence counts as non-trivial when its last operation was reached (every step >= 2 then ran on an object the adapter had seen before) or a clause failed; distinct by adapter, base object and the steps, " +
			"where a modification kind that changed nothing (no such field) is struck out, so that it coincides with the unmodified sequence. " +
			"Provenance of a dynamic message's descriptor: the representation of a message is one of gen | dyn | dyn@rebuilt | dyn@set | dyn@deps | dyn@fresh, where dyn is a *dynamic.Message over the cached descriptor of the generated type " +
			"(desc.LoadMessageDescriptorForMessage), @rebuilt over a second descriptor object made by desc.CreateFileDescriptor from a copy of the same FileDescriptorProto on the same dependency file objects, @set over one obtained through a descriptor set " +
			"round trip (ToFileDescriptorSet, marshal, unmarshal, CreateFileDescriptorFromSet), @deps over one for which every file of the import closure was built again, @fresh over a descriptor object built anew for every single message " +
			"(so two @fresh messages never share their descriptor, whereas two messages of one other kind do). Source and destination take their representation independently: all 32 ordered pairs with at least one descriptor that is not the cached one " +
			"(24 dynamic->dynamic, 4 ->generated, 4 generated->) are crossed with the whole message pool (all 14 message types), with Clone, Copy into an empty and into a pre-populated destination (fillers of the tier), with copies from and to a pointer to a non-proto value, " +
			"with copies into every OTHER message type (empty and pre-populated; quick: from the last message of each type, thorough: from every message of the pool), for the four adapters and for CloneFunc / CopyFunc around the library's own ProtoCloner methods " +
			"(a user function that delegates). The oracle is the one of the isolated operation: same full message name => a copy that is equal, deep, independent and replaces the destination; another name or a non-proto pointer => refusal. " +
			"The dimension is then swept around the 2-step sequences: for each of the 32 pairs (representation of the base object, representation of every dynamic destination the steps make), every 2-step sequence with modifications in {nothing, everything in place} " +
			"over provenance_sequence_pool. It is not crossed with the overlapping copies and the 3-step sequences. " +
			"Fingerprints class two dynamic messages by the relation of their descriptor objects (@descs=separate: two objects for one type; @descs=one-uncached: one object that is not the cached one; @desc=uncached where only one side is dynamic or a refusal is due), the replay names the provenances. A failing case of this part of the grammar is first run again with every dynamic message over the cached descriptor; a clause that fails there too is reported in the class of that base case, so a class with @desc names something in which the descriptor object plays a part. " +
			"Non-trivial and distinct as for the isolated operations and the sequences. " +
			"Configuration of a dynamic message: a dynamic representation also says how the message was made: dyn = dynamic.NewMessage (recognises the fields of its descriptor only), dyn+er = NewMessageWithExtensionRegistry over a registry that holds four extensions " +
			"(string, bytes, repeated bytes, message) of google.protobuf.MethodOptions declared in a file that is not linked in, dyn+mf = NewMessageWithMessageFactory over a factory with that registry and a known-type registry with defaults (nested messages of linked-in types are held as generated structs), " +
			"dyn+xf = a plain dynamic message that has learnt its extension fields because its owner read them through their descriptors. The pool has 7 messages of the extendable type, 5 of them with extension fields set (to the generated form and to a plain dynamic message they are unrecognised fields). " +
			"Source and destination take their configuration independently: all 21 ordered pairs over gen | dyn | dyn+er | dyn+mf | dyn+xf with at least one configured side are crossed with the whole message pool, with Clone, Copy into an empty and a pre-populated destination, copies from and to non-proto pointers, " +
			"copies into another message type (quick: from the last message of each type into the next type of the pool; thorough: from every message into every other type), for the four adapters and the two delegating ones; Clone and the copies between two messages of one configuration are crossed with the four uncached descriptor provenances as well; " +
			"and the dimension is swept around the 2-step sequences (modifications in {nothing, everything in place}) over configuration_sequence_pool. " +
			"The oracle is the one of the isolated operation with a second clause of equality: where both source and result are dynamic messages and the result is a clone, or a copy into a destination that recognises the same things by construction (both plain, or both over the registry), " +
			"the result must be dynamic.Equal to the source as it was when the operation began (same fields recognised, same values, same unrecognised fields; clause not-equal:as-dynamic), and the source must still be dynamic.Equal to that snapshot afterwards; the in-place mutation test and the modifications reach recognised extension fields like any other field. " +
			"Fingerprints name the configurations that met as +cfg=<source>/<destination> (plain, er, mf, xf, - for a side that is not a dynamic message; one name when both agree); a failing case of this part is first run again with plain dynamic messages, as for the provenance.",
		"samples":                         append(append(append(samples, seqSamples...), provSamples...), cfgSamples...),
		"exhaustive":                      true,
		"pool_messages":                   len(pool),
		"message_types":                   len(typeOrder),
		"adapters":                        adapterNames,
		"self_check_cases":                selfCases,
		"sequence_evaluations":            map[string]int{"2 steps": seqEvals[2], "3 steps": seqEvals[3], "2 steps, descriptor provenance sweep": seqProvEvals, "2 steps, dynamic message configuration sweep": seqCfgEvals},
		"descriptor_provenances":          append([]string{"cached (the descriptor of the generated type)"}, provKinds[1:]...),
		"representations":                 append([]string{"gen"}, dynReps...),
		"provenance_evaluations":          map[string]int{"isolated operations": provEvals, "2-step sequences": seqProvEvals},
		"provenance_representation_pairs": len(repPairs()),
		"dynamic_message_configurations":  append([]string{"plain (dynamic.NewMessage)"}, cfgKinds[1:]...),
		"configuration_evaluations":       map[string]int{"isolated operations": cfgEvals, "2-step sequences": seqCfgEvals},
		"configuration_pairs":             len(cfgPairs()),
		"configuration_sequence_pool":     seqCfgPoolNames(thorough),
		"provenance_adapters":             provAdapters(),
		"provenance_sequence_pool":        seqProvPoolNames(thorough),
		"sequence_distinct_nontrivial":    len(distinctSeq),
		"sequence_pool":                   seqPoolNames(thorough),
		"sequence_pool_3_steps":           map[string]interface{}{"quick": seqPoolNames(false)[:seqPool3Quick], "thorough_one_single_kind_modification": seqPoolNames(false)[:seqPool3Quick], "thorough_coarse_modifications": "whole sequence pool"},
		"sequence_modifications":          allMods[1:],
		"sequence_calibration": map[string]interface{}{"adapters_wrong_only_across_operations": faultyAdapters, "cases": calCases,
			"result": "each passes every isolated operation of the quick grammar and is reported by the 2-step sequences"},
		"nontrivial_by_class": classes,
	}, []string{
		"descriptor provenance: every descriptor object describes the message type exactly as the generated code does (same FileDescriptorProto; checked before the run); descriptors with the same full name and different content are not in the grammar, nor are descriptors obtained over a live reflection connection (they are built the same way as @set)",
		"descriptor provenance: the delegating configurations CloneFunc(ProtoCloner.Clone) / CopyFunc(ProtoCloner.Copy) run the provenance grammar of the isolated operations only; overlapping copies and 3-step sequences use the cached descriptor only",
		"configuration of a dynamic message: the registry holds the extensions of one message type (MethodOptions) only; extension fields inside NESTED messages, a known-type registry other than the default one, and two different registries on the two sides of a copy are not in the grammar; overlapping copies and 3-step sequences use plain dynamic messages only; with the provenance of the descriptor the dimension is crossed for Clone and same-configuration copies only",
		"equality as dynamic messages (dynamic.Equal) is demanded of a clone, and of a copy only where source and destination recognise the same fields by construction (both plain, or both over the registry); between a side that recognises an extension and one that cannot, and for a destination that has learnt fields of its own (xf), equality of the content (wire form through the generated type) is what is demanded",
		"*dynamic.Message exposes no protoreflect view: its content is mutated through its public accessors (stored byte slices, nested messages and unknown-field records are handed out by reference; SetRepeatedField/PutMapField write into the stored slice/map)",
		"equality of a dynamic message is judged on its deterministic wire form parsed into the generated type",
		"the clone and copy functions given to CloneFunc/CopyFunc are the checker's own; they pass the same oracle on the whole grammar, sequences included, before the adapters are run (otherwise exit 2)",
		"sequences: the modification dimension is crossed completely with everything else for 2 steps only; for 3 steps it is swept (nothing / everything in place, plus one single-kind modification per sequence in the thorough tier over 3 messages); a pre-populated destination holds one other message of the type (its largest, or the type's dedicated filler); a refused step takes a generated destination of one other message type; the reference clone/copy functions (no state) run the sequences of the quick tier in both tiers",
		"sequences: an object of the sequence that changes its marshalled form when the owner of ANOTHER object of the sequence modifies that one, or when an operation runs that neither reads nor writes it, is reported as shared mutable memory even when the two are not source and copy of one operation (two copies of one source, a copy of a copy)",
	}))
}
