package main

// What the owner of an object does to it between two operations of a sequence
// (seqs.go). Each kind changes the root object through the ordinary API of its
// representation (protoreflect for generated messages, the accessors of
// *dynamic.Message for dynamic ones):
//
//   set      give the first singular scalar / bytes field another value
//   clear    clear the first populated field
//   append   append one element to the first repeated field
//   map      first map field: give the entry with the smallest key another value and add an entry
//   unknown  one more unknown field
//   deep     every in-place mutation pass of mutate.go, over everything reachable
//
// modify returns the number of changes made; 0 = the kind does not apply to the
// object as it is (no such field); the case then coincides with "no modification".

import (
	"fmt"
	"sort"

	protov1 "github.com/golang/protobuf/proto"
	"github.com/jhump/protoreflect/dynamic"
	"google.golang.org/protobuf/proto"
	"google.golang.org/protobuf/reflect/protoreflect"
)

func modify(m interface{}, mod string) int {
	if mod == "deep" {
		n := 0
		for _, p := range passes {
			n += mutate(m, p)
		}
		return n
	}
	switch x := m.(type) {
	case *dynamic.Message:
		return modDyn(x, mod)
	case proto.Message:
		return modPR(x.ProtoReflect(), mod)
	case protov1.Message:
		return modPR(protov1.MessageReflect(x), mod)
	}
	panic(fmt.Sprintf("modify: not a message: %T", m))
}

func modPR(m protoreflect.Message, mod string) int {
	fds := m.Descriptor().Fields()
	switch mod {
	case "unknown":
		m.SetUnknown(append(append(protoreflect.RawFields(nil), m.GetUnknown()...), extraUnknown...))
		return 1
	case "set":
		for i := 0; i < fds.Len(); i++ {
			fd := fds.Get(i)
			if fd.IsList() || fd.IsMap() || isMsg(fd) {
				continue
			}
			m.Set(fd, otherScalar(fd, m.Get(fd)))
			return 1
		}
	case "clear":
		for i := 0; i < fds.Len(); i++ {
			if fd := fds.Get(i); m.Has(fd) {
				m.Clear(fd)
				return 1
			}
		}
	case "append":
		for i := 0; i < fds.Len(); i++ {
			fd := fds.Get(i)
			if !fd.IsList() {
				continue
			}
			l := m.Mutable(fd).List()
			if isMsg(fd) {
				nv := l.NewElement()
				fillScalars(nv.Message())
				l.Append(nv)
			} else {
				l.Append(otherScalar(fd, fd.Default()))
			}
			return 1
		}
	case "map":
		for i := 0; i < fds.Len(); i++ {
			fd := fds.Get(i)
			if !fd.IsMap() {
				continue
			}
			vfd := fd.MapValue()
			mp := m.Mutable(fd).Map()
			var keys []protoreflect.MapKey
			mp.Range(func(k protoreflect.MapKey, _ protoreflect.Value) bool { keys = append(keys, k); return true })
			sort.Slice(keys, func(a, b int) bool { return keys[a].String() < keys[b].String() })
			n := 0
			mk := func(cur protoreflect.Value, has bool) protoreflect.Value {
				if isMsg(vfd) {
					nv := mp.NewValue()
					fillScalars(nv.Message())
					return nv
				}
				if !has {
					cur = vfd.Default()
				}
				return otherScalar(vfd, cur)
			}
			if len(keys) > 0 {
				mp.Set(keys[0], mk(mp.Get(keys[0]), true))
				n++
			}
			if k, ok := newKey(fd.MapKey()); ok {
				mp.Set(k, mk(protoreflect.Value{}, false))
				n++
			}
			return n
		}
	default:
		panic("modify: unknown kind " + mod)
	}
	return 0
}

func modDyn(dm *dynamic.Message, mod string) int {
	switch mod {
	case "unknown":
		if err := dm.UnmarshalMerge(extraUnknown); err != nil {
			panic("adding an unknown field to a dynamic message: " + err.Error())
		}
		return 1
	case "set":
		for _, fd := range dynFields(dm) {
			if fd.IsRepeated() || dynIsMsg(fd) {
				continue
			}
			cur := dm.GetField(fd)
			if !dm.HasField(fd) {
				cur = zeroGo(fd)
			}
			dm.SetField(fd, otherGo(cur))
			return 1
		}
	case "clear":
		for _, fd := range dynFields(dm) {
			if dm.HasField(fd) {
				dm.ClearField(fd)
				return 1
			}
		}
	case "append":
		for _, fd := range dynFields(dm) {
			if !fd.IsRepeated() || fd.IsMap() {
				continue
			}
			if dynIsMsg(fd) {
				dm.AddRepeatedField(fd, dynFilled(fd.GetMessageType()))
			} else {
				dm.AddRepeatedField(fd, otherGo(zeroGo(fd)))
			}
			return 1
		}
	case "map":
		for _, fd := range dynFields(dm) {
			if !fd.IsMap() {
				continue
			}
			vfd := fd.GetMapValueType()
			type kv struct{ k, v interface{} }
			var entries []kv
			if dm.HasField(fd) {
				dm.ForEachMapFieldEntry(fd, func(k, v interface{}) bool { entries = append(entries, kv{k, v}); return true })
			}
			sort.Slice(entries, func(a, b int) bool { return fmt.Sprint(entries[a].k) < fmt.Sprint(entries[b].k) })
			mk := func(cur interface{}, has bool) interface{} {
				if dynIsMsg(vfd) {
					return dynFilled(vfd.GetMessageType())
				}
				if !has {
					cur = zeroGo(vfd)
				}
				return otherGo(cur)
			}
			n := 0
			if len(entries) > 0 {
				dm.PutMapField(fd, entries[0].k, mk(entries[0].v, true))
				n++
			}
			if _, ok := zeroGo(fd.GetMapKeyType()).(string); ok {
				dm.PutMapField(fd, "zz-mutation-key", mk(nil, false))
				n++
			}
			return n
		}
	default:
		panic("modify: unknown kind " + mod)
	}
	return 0
}

// modCheck (calibration): every modification kind that reports a change does
// change the marshalled form of the object, changes nothing in an independent
// build of the same message, and generated and dynamic form agree on whether
// the kind applies.
func modCheck() []string {
	var problems []string
	for _, s := range pool {
		for _, mod := range allMods[1:] {
			applies := map[string]bool{}
			for _, rep := range append([]string{"gen", "dyn"}, cfgReps...) {
				a, b := s.instance(rep), s.instance(rep)
				before, err1 := canon(a)
				n := modify(a, mod)
				after, err2 := canon(a)
				other, err3 := canon(b)
				if err1 != nil || err2 != nil || err3 != nil {
					problems = append(problems, fmt.Sprintf("%s[%s] %s: marshal error %v %v %v", s.Name, rep, mod, err1, err2, err3))
					continue
				}
				changed := string(before) != string(after)
				applies[rep] = n > 0
				if (n > 0) != changed {
					problems = append(problems, fmt.Sprintf("%s[%s] modification %s reports %d changes but the marshalled form changed=%v", s.Name, rep, mod, n, changed))
				}
				if string(other) != string(before) {
					problems = append(problems, fmt.Sprintf("%s[%s] modification %s reached an independent build", s.Name, rep, mod))
				}
			}
			if applies["gen"] != applies["dyn"] {
				problems = append(problems, fmt.Sprintf("%s modification %s applies to generated=%v dynamic=%v", s.Name, mod, applies["gen"], applies["dyn"]))
			}
		}
	}
	return problems
}

// bulkCheck (calibration): the fast form of the disjointness test used after the
// last step of a sequence (all passes at once on one object, then on the other)
// flags exactly what the pass-by-pass form flags: a shallow copy of every message
// that has something to share, and never two independent builds.
func bulkCheck() []string {
	var problems []string
	for _, s := range pool {
		for _, rep := range append([]string{"gen", "dyn"}, cfgReps...) {
			for _, mode := range []string{"shallow", "independent"} {
				a := s.instance(rep)
				var b interface{}
				if mode == "shallow" {
					b = shallow(a)
				} else {
					b = s.instance(rep)
				}
				flagged := false
				a0, err1 := stamp(a)
				modify(b, "deep")
				a1, err2 := stamp(a)
				b1, err3 := stamp(b)
				modify(a, "deep")
				b2, err4 := stamp(b)
				if err1 != nil || err2 != nil || err3 != nil || err4 != nil {
					problems = append(problems, fmt.Sprintf("%s[%s] %s: marshal error in the fast disjointness test: %v %v %v %v", s.Name, rep, mode, err1, err2, err3, err4))
					continue
				}
				if string(a0) != string(a1) || string(b1) != string(b2) {
					flagged = true
				}
				want := mode == "shallow" && hasRefContent(s.build())
				if mode == "shallow" && isDyn(rep) {
					g := s.build()
					want = !proto.Equal(g, g.ProtoReflect().New().Interface()) || len(g.ProtoReflect().GetUnknown()) > 0
				}
				if flagged != want {
					problems = append(problems, fmt.Sprintf("%s[%s] %s copy: fast disjointness test flagged=%v, expected %v", s.Name, rep, mode, flagged, want))
				}
			}
		}
	}
	return problems
}
