package main

// Provenance of the descriptor behind a dynamic message.
//
// A message type is what its fully-qualified name says. A program usually
// holds several *desc.MessageDescriptor objects for one message type: the one
// derived from the generated code (desc.LoadMessageDescriptorForMessage caches
// it, so it is always the same object), one built from a FileDescriptorProto,
// one parsed from a descriptor set, one fetched through server reflection (and
// fetched again after a reconnect). Dynamic messages made from any of them are
// "dynamic representations of the same message type"; the statement promises a
// copy between any two of them and between each of them and the generated form.
//
// The representation dimension of the grammar is therefore
//
//	gen | dyn | dyn@rebuilt | dyn@set | dyn@deps | dyn@fresh
//
//	dyn          the cached descriptor of the generated type
//	dyn@rebuilt  desc.CreateFileDescriptor from a copy of the same FileDescriptorProto, over the
//	             SAME dependency file objects; one object per type for the whole run
//	dyn@set      descriptor set round trip: desc.ToFileDescriptorSet -> marshal -> unmarshal ->
//	             desc.CreateFileDescriptorFromSet (dependency files are new objects as well)
//	dyn@deps     every file of the import closure built again with desc.CreateFileDescriptor,
//	             dependencies first (no marshalling); one object per type for the whole run
//	dyn@fresh    like dyn@rebuilt but a NEW descriptor object for every message that is made
//	             (descriptors fetched twice): two dyn@fresh messages never share their descriptor

import (
	"bytes"
	"fmt"
	"strings"

	protov1 "github.com/golang/protobuf/proto"
	"github.com/jhump/protoreflect/desc"
	"github.com/jhump/protoreflect/dynamic"
	"google.golang.org/protobuf/proto"
	"google.golang.org/protobuf/types/descriptorpb"
)

var provKinds = []string{"", "rebuilt", "set", "deps", "fresh"}

// dynReps: every dynamic representation, the cached one first.
var dynReps = func() []string {
	var out []string
	for _, p := range provKinds {
		out = append(out, mkRep("dyn", p))
	}
	return out
}()

func mkRep(base, prov string) string {
	if prov == "" {
		return base
	}
	return base + "@" + prov
}

// A representation reads base[+configuration][@provenance]: "dyn+er@set" is a
// dynamic message made with an extension registry (cfg.go) over a descriptor
// that went through a descriptor set.
func repBase(r string) string {
	if i := strings.IndexAny(r, "+@"); i >= 0 {
		return r[:i]
	}
	return r
}

func repProv(r string) string {
	if i := strings.IndexByte(r, '@'); i >= 0 {
		return r[i+1:]
	}
	return ""
}

func isDyn(r string) bool { return repBase(r) == "dyn" }

func knownRep(r string) bool {
	switch repBase(r) {
	case "gen", "np", "hooked":
		return repProv(r) == "" && repCfg(r) == ""
	case "dyn":
		if !knownCfg(repCfg(r)) {
			return false
		}
		for _, p := range provKinds {
			if p == repProv(r) {
				return true
			}
		}
	}
	return false
}

// pairClass: which kinds of representation met, the part of a fingerprint that
// does not depend on the message. Two dynamic messages are classed by the
// relation of their descriptor OBJECTS, not by the particular provenances:
//
//	(nothing)             both made from the cached descriptor
//	@descs=separate       two distinct descriptor objects for the one message type
//	@descs=one-uncached   one and the same descriptor object, not the cached one
//	@desc=uncached        (one dynamic side only, or a refusal) a descriptor object other than the cached one
func pairClass(prefix, sr, dr string) string {
	sb, db := repBase(sr), repBase(dr)
	var p string
	switch {
	case prefix != "":
		p = prefix + sb + "->" + db
	case sb == db:
		p = "same:" + sb
	default:
		p = sb + "->" + db
	}
	return p + cfgRel(sr, dr) + descRel(prefix == "", sr, dr)
}

func descRel(sameType bool, sr, dr string) string {
	sp, dp := repProv(sr), repProv(dr)
	if sp == "" && dp == "" {
		return ""
	}
	if !(sameType && isDyn(sr) && isDyn(dr)) {
		return "@desc=uncached"
	}
	if sp == dp && sp != "fresh" {
		return "@descs=one-uncached"
	}
	return "@descs=separate"
}

// tagRep: sequences name every object made over a "fresh" descriptor apart
// (dyn@fresh#<object index>), so that a clone of such an object, which keeps the
// descriptor object of its source, is classed as "one uncached object" with it.
func tagRep(r string, obj int) string {
	if repProv(r) == "fresh" {
		return fmt.Sprintf("%s#%d", r, obj)
	}
	return r
}

func cloneClass(sr string) string {
	if repProv(sr) != "" {
		return repBase(sr) + cfgRel(sr, sr) + "@desc=uncached"
	}
	return repBase(sr) + cfgRel(sr, sr)
}

// ------------------------------------------------------------ building the descriptors

var provCache = map[string]*desc.MessageDescriptor{} // prov + "|" + full name

func cloneFDP(fd *desc.FileDescriptor) *descriptorpb.FileDescriptorProto {
	return proto.Clone(fd.AsFileDescriptorProto()).(*descriptorpb.FileDescriptorProto)
}

// rebuildClosure builds fd and every file it imports again, dependencies first.
func rebuildClosure(fd *desc.FileDescriptor, done map[string]*desc.FileDescriptor) *desc.FileDescriptor {
	if d := done[fd.GetName()]; d != nil {
		return d
	}
	var deps []*desc.FileDescriptor
	for _, dep := range fd.GetDependencies() {
		deps = append(deps, rebuildClosure(dep, done))
	}
	d, err := desc.CreateFileDescriptor(cloneFDP(fd), deps...)
	if err != nil {
		panic(fmt.Sprintf("rebuilding %s: %v", fd.GetName(), err))
	}
	done[fd.GetName()] = d
	return d
}

func buildDesc(cached *desc.MessageDescriptor, prov string) *desc.MessageDescriptor {
	file := cached.GetFile()
	var fd2 *desc.FileDescriptor
	var err error
	switch prov {
	case "rebuilt", "fresh":
		fd2, err = desc.CreateFileDescriptor(cloneFDP(file), file.GetDependencies()...)
	case "set":
		var b []byte
		b, err = proto.MarshalOptions{Deterministic: true}.Marshal(desc.ToFileDescriptorSet(file))
		if err == nil {
			var set descriptorpb.FileDescriptorSet
			if err = proto.Unmarshal(b, &set); err == nil {
				fd2, err = desc.CreateFileDescriptorFromSet(&set)
			}
		}
	case "deps":
		fd2 = rebuildClosure(file, map[string]*desc.FileDescriptor{})
	default:
		panic("unknown descriptor provenance " + prov)
	}
	if err != nil {
		panic(fmt.Sprintf("descriptor of %s (%s): %v", cached.GetFullyQualifiedName(), prov, err))
	}
	md := fd2.FindMessage(cached.GetFullyQualifiedName())
	if md == nil {
		panic(fmt.Sprintf("descriptor of %s (%s): the file built again does not hold the message", cached.GetFullyQualifiedName(), prov))
	}
	return md
}

// descOf: the descriptor of gen's message type with the given provenance.
func descOf(gen proto.Message, prov string) *desc.MessageDescriptor {
	cached := descFor(gen)
	switch prov {
	case "":
		return cached
	case "fresh":
		return buildDesc(cached, prov)
	}
	key := prov + "|" + cached.GetFullyQualifiedName()
	if md := provCache[key]; md != nil {
		return md
	}
	md := buildDesc(cached, prov)
	provCache[key] = md
	return md
}

// asDynP: asDyn over a descriptor of the given provenance.
func asDynP(gen proto.Message, prov string) *dynamic.Message { return asDynPC(gen, prov, "") }

// asDynPC: asDyn over a descriptor of the given provenance, the dynamic message
// made in the given configuration (cfg.go).
func asDynPC(gen proto.Message, prov, cfg string) *dynamic.Message {
	b, err := proto.MarshalOptions{AllowPartial: true, Deterministic: true}.Marshal(gen)
	if err != nil {
		panic(err)
	}
	dm := newDyn(descOf(gen, prov), cfg)
	if err := dm.Unmarshal(b); err != nil {
		panic(fmt.Sprintf("dynamic unmarshal of %T (%s, %s): %v", gen, prov, cfg, err))
	}
	learn(dm, cfg)
	return dm
}

// ------------------------------------------------------------ self check

// provCheck: the provenances really give separate descriptor objects that
// describe the same message type with the same content, the memoized kinds give
// one object per type, "fresh" a new one every time, "rebuilt" keeps the
// dependency file objects and "set" / "deps" replace them; and every message of
// the pool has the same content over every one of them.
func provCheck() []string {
	var problems []string
	bad := func(f string, a ...interface{}) { problems = append(problems, fmt.Sprintf(f, a...)) }
	for _, t := range typeOrder {
		g := specsOfType[t][0].build()
		cached := descOf(g, "")
		if again, err := desc.LoadMessageDescriptorForMessage(protov1.MessageV1(g)); err != nil || again != cached {
			bad("%s: the descriptor of the generated type is not cached by the protoreflect library (%v)", t, err)
		}
		want, _ := proto.MarshalOptions{Deterministic: true}.Marshal(cached.GetFile().AsFileDescriptorProto())
		all := []*desc.MessageDescriptor{cached}
		names := []string{"cached"}
		for _, p := range provKinds[1:] {
			md := descOf(g, p)
			if md.GetFullyQualifiedName() != t {
				bad("%s (%s): descriptor is for %s", t, p, md.GetFullyQualifiedName())
			}
			got, _ := proto.MarshalOptions{Deterministic: true}.Marshal(md.GetFile().AsFileDescriptorProto())
			if !bytes.Equal(got, want) {
				bad("%s (%s): the file descriptor differs from the one of the generated code", t, p)
			}
			if md2 := descOf(g, p); (md2 == md) != (p != "fresh") {
				bad("%s (%s): asking twice gives the same object: %v", t, p, md2 == md)
			}
			deps, cdeps := md.GetFile().GetDependencies(), cached.GetFile().GetDependencies()
			if len(deps) != len(cdeps) {
				bad("%s (%s): %d dependencies, the cached descriptor has %d", t, p, len(deps), len(cdeps))
				continue
			}
			for i := range deps {
				if keeps := p == "rebuilt" || p == "fresh"; (deps[i] == cdeps[i]) != keeps {
					bad("%s (%s): dependency %s is the cached file object: %v", t, p, deps[i].GetName(), deps[i] == cdeps[i])
				}
			}
			all, names = append(all, md), append(names, p)
		}
		for i := range all {
			for j := i + 1; j < len(all); j++ {
				if all[i] == all[j] || all[i].GetFile() == all[j].GetFile() {
					bad("%s: provenances %s and %s give one descriptor object", t, names[i], names[j])
				}
			}
		}
	}
	for _, s := range pool {
		c1, _ := canon(s.build())
		for _, r := range dynReps[1:] {
			d, ok := s.instance(r).(*dynamic.Message)
			if !ok || d.GetMessageDescriptor() != descOf(s.build(), repProv(r)) && repProv(r) != "fresh" {
				bad("%s[%s]: not a dynamic message over the descriptor asked for", s.Name, r)
				continue
			}
			if c2, err := canon(d); err != nil || !bytes.Equal(c1, c2) {
				bad("%s[%s]: marshals differently from the generated form (%v)", s.Name, r, err)
			}
		}
	}
	return problems
}

// ------------------------------------------------------------ the grammar along the provenance dimension

// delegating: CloneFunc / CopyFunc around the library's own ProtoCloner methods
// instead of the checker's reference functions (a user function that delegates
// to the default strategy). They run the provenance grammar only.
var delegating = []string{"CloneFunc:proto", "CopyFunc:proto"}

func provAdapters() []string { return append(append([]string(nil), adapterNames...), delegating...) }

// repPairs: every (source, destination) representation pair in which at least
// one side is a dynamic message over a descriptor other than the cached one
// (the four pairs over gen / dyn are the base grammar, oracle.go enumerate).
func repPairs() [][2]string {
	all := append([]string{"gen"}, dynReps...)
	var out [][2]string
	for _, sr := range all {
		for _, dr := range all {
			if repProv(sr) == "" && repProv(dr) == "" {
				continue
			}
			out = append(out, [2]string{sr, dr})
		}
	}
	return out
}

// enumerateProv: the single-operation grammar again with the representation
// dimension widened by the provenance of the descriptor, source and destination
// independently, crossed with the whole message pool, Clone / Copy into an empty
// and a pre-populated destination (the fillers of the tier), non-proto pointers
// and destinations of every other message type (quick: from one message per
// type, its last spec; thorough: from every message of the pool).
func enumerateProv(a string, thorough bool) []kase {
	var out []kase
	pairs := repPairs()
	// 1. Clone
	for _, s := range pool {
		for _, r := range dynReps[1:] {
			out = append(out, kase{Adapter: a, Op: "Clone", Src: s.Name, SrcRep: r})
		}
	}
	// 2. Copy into the same message type: empty, then pre-populated
	for _, fillPass := range []bool{false, true} {
		for _, s := range pool {
			for _, p := range pairs {
				if !fillPass {
					out = append(out, kase{Adapter: a, Op: "Copy", Src: s.Name, SrcRep: p[0], DstType: s.Type, DstRep: p[1]})
					continue
				}
				for _, f := range fillers(s.Type, s, thorough) {
					out = append(out, kase{Adapter: a, Op: "Copy", Src: s.Name, SrcRep: p[0], DstType: s.Type, DstRep: p[1], DstFill: f.Name})
				}
			}
		}
	}
	// 3. non-proto pointers
	for _, s := range pool {
		for _, r := range dynReps[1:] {
			for _, np := range npKinds {
				out = append(out, kase{Adapter: a, Op: "Copy", Src: s.Name, SrcRep: r, DstType: "np:" + np, DstRep: "np"})
				out = append(out, kase{Adapter: a, Op: "Copy", Src: "np:" + np, SrcRep: "np", DstType: s.Type, DstRep: r, DstFill: s.Name})
			}
		}
	}
	// 4. Copy into a different message type
	for _, s := range pool {
		if ss := specsOfType[s.Type]; !thorough && ss[len(ss)-1] != s {
			continue
		}
		for _, t := range typeOrder {
			if t == s.Type {
				continue
			}
			fs := specsOfType[t]
			for _, p := range pairs {
				out = append(out, kase{Adapter: a, Op: "Copy", Src: s.Name, SrcRep: p[0], DstType: t, DstRep: p[1]})
				out = append(out, kase{Adapter: a, Op: "Copy", Src: s.Name, SrcRep: p[0], DstType: t, DstRep: p[1], DstFill: fs[len(fs)-1].Name})
			}
		}
	}
	return out
}

// enumerateSeqProv: the provenance dimension swept around the 2-step sequences.
// For every (base representation, representation of every dynamic destination
// the steps make) in repPairs: every sequence of 2 operations, modifications in
// {nothing, everything in place}; quick: over the first seqPool3Quick messages
// of the sequence pool, thorough: over the whole sequence pool of that tier.
// The result of a Clone has the representation of its source, so all three
// relations of descriptor objects (the cached one twice, one uncached object
// twice, two separate objects) meet inside one sequence.
func enumerateSeqProv(a string, thorough bool, emit func(kase)) {
	for _, s := range seqProvPool(thorough) {
		for _, p := range repPairs() {
			dstReps := []string{"gen", p[1]}
			if p[1] == "gen" {
				dstReps = []string{"gen", "dyn"}
			}
			for _, s1 := range stepVariantsReps(s, []bool{true}, coarseMods, true, dstReps) {
				for _, s2 := range stepVariantsReps(s, []bool{true, makesObject(s1)}, coarseMods, true, dstReps) {
					if k := (kase{Adapter: a, Op: "Seq", Src: s.Name, SrcRep: p[0], Seq: []step{s1, s2}}); k.hasProv() {
						emit(k) // (a generated base object whose steps make no dynamic destination is a sequence of the base grammar)
					}
				}
			}
		}
	}
}

func seqProvPool(thorough bool) []*spec {
	if thorough {
		return seqPool(true)
	}
	return seqPool(false)[:seqPool3Quick]
}

func seqProvPoolNames(thorough bool) []string {
	var out []string
	for _, s := range seqProvPool(thorough) {
		out = append(out, s.Name)
	}
	return out
}

// hasProv: does the case use a descriptor other than the cached one anywhere?
func (k kase) hasProv() bool {
	if repProv(k.SrcRep) != "" || repProv(k.DstRep) != "" {
		return true
	}
	for _, st := range k.Seq {
		if repProv(st.DstRep) != "" {
			return true
		}
	}
	return false
}

// stripRep: the same case with every representation mapped through f.
func (k kase) stripRep(f func(string) string) kase {
	k.SrcRep, k.DstRep, k.InnerSrcRep, k.InnerDstRep = f(k.SrcRep), f(k.DstRep), f(k.InnerSrcRep), f(k.InnerDstRep)
	seq := append([]step(nil), k.Seq...)
	for i := range seq {
		seq[i].DstRep = f(seq[i].DstRep)
	}
	if len(seq) > 0 {
		k.Seq = seq
	}
	return k
}

// withoutProv: the same case with every dynamic message over the cached descriptor (its configuration kept).
func (k kase) withoutProv() kase {
	return k.stripRep(func(r string) string {
		if i := strings.IndexByte(r, '@'); i >= 0 {
			return r[:i]
		}
		return r
	})
}

// plainDyn: the same case with every dynamic message made by dynamic.NewMessage over the cached descriptor.
func (k kase) plainDyn() kase { return k.stripRep(repBase) }

// reduceProv: a failing case that uses a descriptor other than the cached one,
// or a dynamic message in a configuration other than the default (cfg.go), is
// run again (1) over the cached descriptors, the configurations kept, and (2)
// with plain dynamic messages over the cached descriptors. A clause that fails
// there as well does not take the dimension that was taken away: the finding is
// then reported in the class (and under the fingerprint) of the simpler case, so
// that a "@desc" class names something in which the descriptor object plays a
// part and a "+cfg" class something in which the configuration does.
func reduceProv(k kase, o outcome) outcome {
	if !(k.hasProv() || k.hasCfg()) || o.Internal != "" || len(o.Findings) == 0 {
		return o
	}
	type stage struct {
		k    kase
		note string
	}
	var stages []stage
	if k.hasProv() && k.hasCfg() {
		stages = append(stages, stage{k.withoutProv(), " [fails the same way when every dynamic message is made from the cached descriptor: the provenance of the descriptor plays no part]"})
	}
	note := " [fails the same way when every dynamic message is made from the cached descriptor: the provenance of the descriptor plays no part]"
	if k.hasCfg() {
		note = " [fails the same way when every dynamic message is made by dynamic.NewMessage from the cached descriptor: the configuration of the dynamic message plays no part]"
	}
	stages = append(stages, stage{k.plainDyn(), note})
	for _, st := range stages {
		k0 := st.k
		o0 := runCase1(k0)
		if o0.Internal != "" {
			return o0
		}
		for i := range o.Findings {
			for _, f0 := range o0.Findings {
				if family(f0.Clause) != family(o.Findings[i].Clause) {
					continue
				}
				class := f0.Class
				if class == "" {
					class = k0.Op + "|" + k0.pairing()
				}
				o.Findings[i].Class, o.Findings[i].Clause = class, f0.Clause
				o.Findings[i].What += st.note
				break
			}
		}
	}
	return o
}
