package main

// In-place mutation of everything reachable from a message, used as the
// behavioural disjointness test: after mutating object X, the deterministic
// marshal of object Y must be unchanged, or X and Y share mutable memory.
//
// A mutation is done in separate passes so that a report can say through which
// kind of memory the sharing was seen:
//   unknown        flip a bit in the stored unknown fields, in place
//   bytes          flip the first byte of every non-empty bytes value, in place
//   root           set the scalar fields of the root object and give it one more unknown field
//                  (visible in the other object only if both are the same object / share their state)
//   nested-message the same for every nested message (shared message pointers)
//   map            add a key to every map (shared Go map)
//   list           overwrite element 0 of every list in place and append (shared backing array)
// (executed in that order; a finding is attributed to the first pass of
// viaPriority that showed sharing, so that a shared nested message is reported
// as such and not as "its bytes are shared")
// Generated messages are mutated through protoreflect; *dynamic.Message has no
// protoreflect view, so its public accessors are used (they hand out the stored
// byte slices, nested messages and unknown-field records, and SetRepeatedField /
// PutMapField write into the stored slice / map in place).

import (
	"fmt"

	protov1 "github.com/golang/protobuf/proto"
	"github.com/jhump/protoreflect/desc"
	"github.com/jhump/protoreflect/dynamic"
	"google.golang.org/protobuf/encoding/protowire"
	"google.golang.org/protobuf/proto"
	"google.golang.org/protobuf/reflect/protoreflect"
	"google.golang.org/protobuf/types/descriptorpb"
)

var passes = []string{"unknown", "bytes", "root", "nested-message", "map", "list"}
var viaPriority = []string{"root", "nested-message", "bytes", "map", "unknown", "list"}

func scalarPass(depth int) string {
	if depth == 0 {
		return "root"
	}
	return "nested-message"
}

// one more unknown field: tag 9999, varint 1
var extraUnknown = protowire.AppendVarint(protowire.AppendTag(nil, 9999, protowire.VarintType), 1)

// mutate applies one pass to m (generated or dynamic); returns the number of mutations made.
func mutate(m interface{}, pass string) int {
	return mutateAt(m, pass, 0)
}

func mutateAt(m interface{}, pass string, depth int) int {
	switch x := m.(type) {
	case *dynamic.Message:
		if x == nil {
			return 0
		}
		return mutDyn(x, pass, depth)
	case proto.Message:
		r := x.ProtoReflect()
		if !r.IsValid() {
			return 0
		}
		return mutPR(r, pass, depth)
	case protov1.Message:
		r := protov1.MessageReflect(x)
		if !r.IsValid() {
			return 0
		}
		return mutPR(r, pass, depth)
	}
	panic(fmt.Sprintf("mutate: not a message: %T", m))
}

// ---------------------------------------------------------------- protoreflect

func otherScalar(fd protoreflect.FieldDescriptor, cur protoreflect.Value) protoreflect.Value {
	switch fd.Kind() {
	case protoreflect.BoolKind:
		return protoreflect.ValueOfBool(!cur.Bool())
	case protoreflect.EnumKind:
		return protoreflect.ValueOfEnum(cur.Enum() + 1)
	case protoreflect.Int32Kind, protoreflect.Sint32Kind, protoreflect.Sfixed32Kind:
		return protoreflect.ValueOfInt32(int32(cur.Int()) + 1)
	case protoreflect.Int64Kind, protoreflect.Sint64Kind, protoreflect.Sfixed64Kind:
		return protoreflect.ValueOfInt64(cur.Int() + 1)
	case protoreflect.Uint32Kind, protoreflect.Fixed32Kind:
		return protoreflect.ValueOfUint32(uint32(cur.Uint()) + 1)
	case protoreflect.Uint64Kind, protoreflect.Fixed64Kind:
		return protoreflect.ValueOfUint64(cur.Uint() + 1)
	case protoreflect.FloatKind:
		return protoreflect.ValueOfFloat32(float32(cur.Float()) + 1)
	case protoreflect.DoubleKind:
		return protoreflect.ValueOfFloat64(cur.Float() + 1)
	case protoreflect.StringKind:
		return protoreflect.ValueOfString(cur.String() + "~")
	case protoreflect.BytesKind:
		return protoreflect.ValueOfBytes(append(append([]byte(nil), cur.Bytes()...), 0xAB))
	}
	panic("otherScalar: " + fd.Kind().String())
}

func isMsg(fd protoreflect.FieldDescriptor) bool {
	return fd.Kind() == protoreflect.MessageKind || fd.Kind() == protoreflect.GroupKind
}

// fillScalars gives a freshly created message some content (its singular scalar
// fields, one member per oneof), which also satisfies proto2 required fields.
func fillScalars(m protoreflect.Message) {
	fds := m.Descriptor().Fields()
	for i := 0; i < fds.Len(); i++ {
		fd := fds.Get(i)
		if fd.IsList() || fd.IsMap() || isMsg(fd) {
			continue
		}
		if od := fd.ContainingOneof(); od != nil && !od.IsSynthetic() && m.WhichOneof(od) != nil {
			continue
		}
		m.Set(fd, otherScalar(fd, fd.Default()))
	}
}

func newKey(fd protoreflect.FieldDescriptor) (protoreflect.MapKey, bool) {
	switch fd.Kind() {
	case protoreflect.StringKind:
		return protoreflect.ValueOfString("zz-mutation-key").MapKey(), true
	case protoreflect.BoolKind:
		return protoreflect.MapKey{}, false
	case protoreflect.Int32Kind, protoreflect.Sint32Kind, protoreflect.Sfixed32Kind:
		return protoreflect.ValueOfInt32(424242).MapKey(), true
	case protoreflect.Int64Kind, protoreflect.Sint64Kind, protoreflect.Sfixed64Kind:
		return protoreflect.ValueOfInt64(424242).MapKey(), true
	case protoreflect.Uint32Kind, protoreflect.Fixed32Kind:
		return protoreflect.ValueOfUint32(424242).MapKey(), true
	case protoreflect.Uint64Kind, protoreflect.Fixed64Kind:
		return protoreflect.ValueOfUint64(424242).MapKey(), true
	}
	return protoreflect.MapKey{}, false
}

func mutPR(m protoreflect.Message, pass string, depth int) int {
	n := 0
	fds := m.Descriptor().Fields()
	for i := 0; i < fds.Len(); i++ {
		fd := fds.Get(i)
		has := m.Has(fd)
		switch {
		case fd.IsMap():
			vfd := fd.MapValue()
			if has {
				mp := m.Mutable(fd).Map()
				var keys []protoreflect.MapKey
				mp.Range(func(k protoreflect.MapKey, _ protoreflect.Value) bool { keys = append(keys, k); return true })
				for _, k := range keys {
					v := mp.Get(k)
					switch {
					case isMsg(vfd):
						n += mutPR(v.Message(), pass, depth+1)
					case vfd.Kind() == protoreflect.BytesKind:
						if b := v.Bytes(); pass == "bytes" && len(b) > 0 {
							b[0] ^= 0xff
							n++
						}
					}
				}
			}
			if pass == "map" {
				if k, ok := newKey(fd.MapKey()); ok {
					mp := m.Mutable(fd).Map()
					if isMsg(vfd) {
						nv := mp.NewValue()
						fillScalars(nv.Message())
						mp.Set(k, nv)
					} else {
						mp.Set(k, otherScalar(vfd, vfd.Default()))
					}
					n++
				}
			}
		case fd.IsList():
			if has {
				l := m.Mutable(fd).List()
				for j := 0; j < l.Len(); j++ {
					switch {
					case isMsg(fd):
						n += mutPR(l.Get(j).Message(), pass, depth+1)
					case fd.Kind() == protoreflect.BytesKind:
						if b := l.Get(j).Bytes(); pass == "bytes" && len(b) > 0 {
							b[0] ^= 0xff
							n++
						}
					}
				}
			}
			if pass == "list" {
				l := m.Mutable(fd).List()
				mk := func() protoreflect.Value {
					if isMsg(fd) {
						nv := l.NewElement()
						fillScalars(nv.Message())
						return nv
					}
					return otherScalar(fd, fd.Default())
				}
				if l.Len() > 0 {
					if isMsg(fd) {
						l.Set(0, mk())
					} else {
						l.Set(0, otherScalar(fd, l.Get(0)))
					}
				}
				l.Append(mk())
				n++
			}
		case isMsg(fd):
			if has {
				n += mutPR(m.Get(fd).Message(), pass, depth+1)
			}
		case fd.Kind() == protoreflect.BytesKind:
			b := m.Get(fd).Bytes()
			if has && len(b) > 0 {
				if pass == "bytes" {
					b[0] ^= 0xff
					n++
				}
			} else if pass == scalarPass(depth) && oneofFree(m, fd) {
				m.Set(fd, protoreflect.ValueOfBytes([]byte{0xAB}))
				n++
			}
		default:
			if pass == scalarPass(depth) && (has || oneofFree(m, fd)) {
				m.Set(fd, otherScalar(fd, m.Get(fd)))
				n++
			}
		}
	}
	if pass == "unknown" {
		if u := m.GetUnknown(); len(u) > 0 {
			u[len(u)-1] ^= 0x01
			n++
		}
	}
	if pass == scalarPass(depth) {
		// a fresh slice: the stored one is never appended to in place
		m.SetUnknown(append(append(protoreflect.RawFields(nil), m.GetUnknown()...), extraUnknown...))
		n++
	}
	return n
}

// oneofFree: an unpopulated field may be set without displacing a populated
// member of the same oneof.
func oneofFree(m protoreflect.Message, fd protoreflect.FieldDescriptor) bool {
	od := fd.ContainingOneof()
	if od == nil || od.IsSynthetic() {
		return true
	}
	return m.WhichOneof(od) == nil
}

// ---------------------------------------------------------------- dynamic

func otherGo(v interface{}) interface{} {
	switch x := v.(type) {
	case bool:
		return !x
	case int32:
		return x + 1
	case int64:
		return x + 1
	case uint32:
		return x + 1
	case uint64:
		return x + 1
	case float32:
		return x + 1
	case float64:
		return x + 1
	case string:
		return x + "~"
	case []byte:
		return append(append([]byte(nil), x...), 0xAB)
	}
	panic(fmt.Sprintf("otherGo: %T", v))
}

func zeroGo(fd *desc.FieldDescriptor) interface{} {
	switch fd.GetType() {
	case descriptorpb.FieldDescriptorProto_TYPE_BOOL:
		return false
	case descriptorpb.FieldDescriptorProto_TYPE_INT32, descriptorpb.FieldDescriptorProto_TYPE_SINT32,
		descriptorpb.FieldDescriptorProto_TYPE_SFIXED32, descriptorpb.FieldDescriptorProto_TYPE_ENUM:
		return int32(0)
	case descriptorpb.FieldDescriptorProto_TYPE_INT64, descriptorpb.FieldDescriptorProto_TYPE_SINT64,
		descriptorpb.FieldDescriptorProto_TYPE_SFIXED64:
		return int64(0)
	case descriptorpb.FieldDescriptorProto_TYPE_UINT32, descriptorpb.FieldDescriptorProto_TYPE_FIXED32:
		return uint32(0)
	case descriptorpb.FieldDescriptorProto_TYPE_UINT64, descriptorpb.FieldDescriptorProto_TYPE_FIXED64:
		return uint64(0)
	case descriptorpb.FieldDescriptorProto_TYPE_FLOAT:
		return float32(0)
	case descriptorpb.FieldDescriptorProto_TYPE_DOUBLE:
		return float64(0)
	case descriptorpb.FieldDescriptorProto_TYPE_STRING:
		return ""
	case descriptorpb.FieldDescriptorProto_TYPE_BYTES:
		return []byte(nil)
	}
	panic("zeroGo: " + fd.GetType().String())
}

func dynIsMsg(fd *desc.FieldDescriptor) bool { return fd.GetMessageType() != nil }

func dynFilled(md *desc.MessageDescriptor) *dynamic.Message {
	dm := dynamic.NewMessage(md)
	for _, fd := range md.GetFields() {
		if fd.IsRepeated() || dynIsMsg(fd) {
			continue
		}
		if od := fd.GetOneOf(); od != nil && !od.IsSynthetic() {
			if c, _ := dm.GetOneOfField(od); c != nil {
				continue
			}
		}
		dm.SetField(fd, otherGo(zeroGo(fd)))
	}
	return dm
}

func dynOneofFree(dm *dynamic.Message, fd *desc.FieldDescriptor) bool {
	od := fd.GetOneOf()
	if od == nil || od.IsSynthetic() {
		return true
	}
	c, _ := dm.GetOneOfField(od)
	return c == nil
}

func mutDynElem(v interface{}, fd *desc.FieldDescriptor, pass string, depth int) int {
	if dynIsMsg(fd) {
		return mutateAt(v, pass, depth+1)
	}
	if b, ok := v.([]byte); ok && pass == "bytes" && len(b) > 0 {
		b[0] ^= 0xff
		return 1
	}
	return 0
}

func mutDyn(dm *dynamic.Message, pass string, depth int) int {
	n := 0
	md := dm.GetMessageDescriptor()
	if md == nil {
		return 0
	}
	for _, fd := range dynFields(dm) {
		has := dm.HasField(fd)
		switch {
		case fd.IsMap():
			vfd := fd.GetMapValueType()
			if has {
				dm.ForEachMapFieldEntry(fd, func(_, v interface{}) bool {
					n += mutDynElem(v, vfd, pass, depth)
					return true
				})
			}
			if pass == "map" && fd.GetMapKeyType().GetType() == descriptorpb.FieldDescriptorProto_TYPE_STRING {
				var nv interface{}
				if dynIsMsg(vfd) {
					nv = dynFilled(vfd.GetMessageType())
				} else {
					nv = otherGo(zeroGo(vfd))
				}
				dm.PutMapField(fd, "zz-mutation-key", nv)
				n++
			}
		case fd.IsRepeated():
			ln := 0
			if has {
				ln = dm.FieldLength(fd)
				for j := 0; j < ln; j++ {
					n += mutDynElem(dm.GetRepeatedField(fd, j), fd, pass, depth)
				}
			}
			if pass == "list" {
				mk := func() interface{} {
					if dynIsMsg(fd) {
						return dynFilled(fd.GetMessageType())
					}
					return otherGo(zeroGo(fd))
				}
				if ln > 0 {
					if dynIsMsg(fd) {
						dm.SetRepeatedField(fd, 0, mk())
					} else {
						dm.SetRepeatedField(fd, 0, otherGo(dm.GetRepeatedField(fd, 0)))
					}
				}
				dm.AddRepeatedField(fd, mk())
				n++
			}
		case dynIsMsg(fd):
			if has {
				n += mutateAt(dm.GetField(fd), pass, depth+1)
			}
		case fd.GetType() == descriptorpb.FieldDescriptorProto_TYPE_BYTES:
			b, _ := dm.GetField(fd).([]byte)
			if has && len(b) > 0 {
				if pass == "bytes" {
					b[0] ^= 0xff
					n++
				}
			} else if pass == scalarPass(depth) && dynOneofFree(dm, fd) {
				dm.SetField(fd, []byte{0xAB})
				n++
			}
		default:
			if pass == scalarPass(depth) && (has || dynOneofFree(dm, fd)) {
				cur := dm.GetField(fd)
				if !has {
					cur = zeroGo(fd) // ignore proto2 declared defaults
				}
				dm.SetField(fd, otherGo(cur))
				n++
			}
		}
	}
	if pass == "unknown" {
		tags := dm.GetUnknownFields()
		// order does not matter: each record is touched independently
		for _, tag := range tags {
			if u := dm.GetUnknownField(tag); len(u) > 0 {
				if len(u[0].Contents) > 0 {
					u[0].Contents[len(u[0].Contents)-1] ^= 0x01
				} else {
					u[0].Value ^= 0x01
				}
				n++
			}
		}
	}
	if pass == scalarPass(depth) {
		if err := dm.UnmarshalMerge(extraUnknown); err != nil {
			panic("adding an unknown field to a dynamic message: " + err.Error())
		}
		n++
	}
	return n
}
