package main

import (
	"bytes"
	"errors"
	"fmt"
	"reflect"
	"sort"
	"strings"

	protov1 "github.com/golang/protobuf/proto"
	"github.com/jhump/protoreflect/dynamic"
	"google.golang.org/grpc/encoding"
	_ "google.golang.org/grpc/encoding/proto" // registers the "proto" codec
	"google.golang.org/protobuf/proto"
	"google.golang.org/protobuf/reflect/protoreflect"
	"google.golang.org/protobuf/reflect/protoregistry"

	"github.com/fullstorydev/grpchan/inprocgrpc"
)

// ------------------------------------------------------------ canonical forms

var detMarshal = proto.MarshalOptions{Deterministic: true, AllowPartial: true}

// normalize returns the generated-struct form of a message (the message itself
// when it already is one; a dynamic message goes through its own deterministic
// wire form into a fresh generated message).
func normalize(m interface{}) (res proto.Message, err error) {
	defer func() {
		if r := recover(); r != nil {
			res, err = nil, fmt.Errorf("panic while reading the message: %v", r)
		}
	}()
	switch x := m.(type) {
	case nil:
		return nil, errors.New("nil")
	case *dynamic.Message:
		if x == nil {
			return nil, errors.New("nil *dynamic.Message")
		}
		md := x.GetMessageDescriptor()
		if md == nil {
			return nil, errors.New("*dynamic.Message without a descriptor")
		}
		b, err := x.MarshalDeterministic()
		if err != nil {
			return nil, err
		}
		mt, err := protoregistry.GlobalTypes.FindMessageByName(protoreflect.FullName(md.GetFullyQualifiedName()))
		if err != nil {
			return nil, err
		}
		g := mt.New().Interface()
		if err := (proto.UnmarshalOptions{AllowPartial: true}).Unmarshal(b, g); err != nil {
			return nil, err
		}
		return g, nil
	case proto.Message:
		if !x.ProtoReflect().IsValid() {
			return nil, fmt.Errorf("invalid (nil) %T", m)
		}
		return x, nil
	}
	return nil, fmt.Errorf("not a protobuf message: %T", m)
}

func canon(m interface{}) ([]byte, error) {
	g, err := normalize(m)
	if err != nil {
		return nil, err
	}
	return detMarshal.Marshal(g)
}

// msgName: full name of a protobuf message value, ok=false for anything else.
func msgName(m interface{}) (name string, ok bool) {
	switch x := m.(type) {
	case *dynamic.Message:
		if x == nil || x.GetMessageDescriptor() == nil {
			return "", false
		}
		return x.GetMessageDescriptor().GetFullyQualifiedName(), true
	case proto.Message:
		if rv := reflect.ValueOf(m); rv.Kind() == reflect.Ptr && rv.IsNil() {
			return "", false
		}
		return string(x.ProtoReflect().Descriptor().FullName()), true
	}
	return "", false
}

// ------------------------------------------------------------ reference clone / copy

// goodClone and goodCopy are the (correct) user functions handed to CloneFunc
// and CopyFunc. They are validated against the same oracle as the adapters
// before anything else runs (selfCheck).

func goodClone(in interface{}) (interface{}, error) {
	switch x := in.(type) {
	case *dynamic.Message:
		if x == nil || x.GetMessageDescriptor() == nil {
			return nil, fmt.Errorf("cannot clone %T without a descriptor", in)
		}
		b, err := x.Marshal()
		if err != nil {
			return nil, err
		}
		// an empty instance that recognises what x recognises (descriptor, message factory,
		// extension registry, learnt fields: proto.Clone of a dynamic message hands them on),
		// filled from the wire form
		out := protov1.Clone(x).(*dynamic.Message)
		if err := out.Unmarshal(b); err != nil { // resets first
			return nil, err
		}
		return out, nil
	case proto.Message:
		if rv := reflect.ValueOf(in); rv.Kind() != reflect.Ptr || rv.IsNil() {
			return nil, fmt.Errorf("cannot clone nil %T", in)
		}
		return proto.Clone(x), nil
	}
	return nil, fmt.Errorf("value to clone is not a protobuf message: %T", in)
}

func goodCopy(out, in interface{}) error {
	if dm, ok := out.(*dynamic.Message); ok && dm != nil && dm.GetMessageDescriptor() == nil {
		return fmt.Errorf("destination *dynamic.Message has no message descriptor (it was not made by dynamic.NewMessage)")
	}
	inName, ok := msgName(in)
	if !ok {
		return fmt.Errorf("value to copy is not a protobuf message: %T", in)
	}
	outName, ok := msgName(out)
	if !ok {
		return fmt.Errorf("destination is not a protobuf message: %T", out)
	}
	if inName != outName {
		return fmt.Errorf("cannot copy a %s into a %s", inName, outName)
	}
	gi, inGen := in.(proto.Message)
	gout, outGen := out.(proto.Message)
	if inGen && outGen {
		if reflect.TypeOf(in) != reflect.TypeOf(out) {
			return fmt.Errorf("type mismatch: %T != %T", in, out)
		}
		proto.Reset(gout)
		proto.Merge(gout, gi)
		return nil
	}
	// at least one side is dynamic: go through the wire form, which cannot share memory
	var b []byte
	var err error
	if inGen {
		b, err = proto.MarshalOptions{AllowPartial: true}.Marshal(gi)
	} else {
		b, err = in.(*dynamic.Message).Marshal()
	}
	if err != nil {
		return err
	}
	if outGen {
		return proto.UnmarshalOptions{AllowPartial: true}.Unmarshal(b, gout) // resets first
	}
	return out.(*dynamic.Message).Unmarshal(b) // resets first
}

type rawCloner struct{}

func (rawCloner) Copy(out, in interface{}) error            { return goodCopy(out, in) }
func (rawCloner) Clone(in interface{}) (interface{}, error) { return goodClone(in) }

var adapterNames = []string{"ProtoCloner", "CodecCloner", "CloneFunc", "CopyFunc"}

func mkAdapter(name string) inprocgrpc.Cloner {
	switch name {
	case "ProtoCloner":
		return inprocgrpc.ProtoCloner{}
	case "CodecCloner":
		c := encoding.GetCodec("proto")
		if c == nil {
			panic("no proto codec registered")
		}
		return inprocgrpc.CodecCloner(c)
	case "CloneFunc":
		return inprocgrpc.CloneFunc(goodClone)
	case "CopyFunc":
		return inprocgrpc.CopyFunc(goodCopy)
	case "CloneFunc:proto": // a user function that delegates to the default strategy (prov.go)
		return inprocgrpc.CloneFunc(inprocgrpc.ProtoCloner{}.Clone)
	case "CopyFunc:proto":
		return inprocgrpc.CopyFunc(inprocgrpc.ProtoCloner{}.Copy)
	case "raw": // the reference functions themselves, for selfCheck only
		return rawCloner{}
	case "faulty:stale-by-identity": // calibration of the sequence grammar only (seqs.go)
		return &staleCloner{seen: map[interface{}]interface{}{}}
	case "faulty:same-object-twice":
		return &twinCloner{}
	}
	panic("unknown adapter " + name)
}

// ------------------------------------------------------------ cases

type kase struct {
	Adapter string `json:"adapter"`
	Op      string `json:"op"`                 // Clone | Copy
	Src     string `json:"src"`                // spec name, or np:<kind>
	SrcRep  string `json:"src_rep"`            // gen | dyn[+configuration][@provenance] (cfg.go, prov.go) | np
	DstType string `json:"dst_type,omitempty"` // Copy: message full name, or np:<kind>
	DstRep  string `json:"dst_rep,omitempty"`  // gen | dyn | np
	DstFill string `json:"dst_fill,omitempty"` // Copy: "" = empty destination, else spec name whose content pre-populates it
	// overlapping copies (overlap.go): SrcRep / DstRep may then be "hooked"
	Hook        string `json:"hook,omitempty"`  // dst-reset | src-reflect
	Inner       string `json:"inner,omitempty"` // spec copied by the inner copy
	InnerSrcRep string `json:"inner_src_rep,omitempty"`
	InnerDstRep string `json:"inner_dst_rep,omitempty"`
	// operation sequences on one adapter object (seqs.go): Op == "Seq", Src / SrcRep describe the base object x0
	Seq []step `json:"seq,omitempty"`
	// (not part of a case of the grammar: used when the failing step of a sequence is repeated in isolation)
	freshAt int // > 0: a new adapter object takes over just before step freshAt (0-based)
}

type npBytes struct {
	B []byte
	N int
}

func nonProto(kind string, variant int) interface{} {
	switch kind {
	case "int":
		v := 41 + variant
		return &v
	case "struct":
		return &struct{}{}
	case "bytes-struct":
		return &npBytes{B: []byte{byte(variant), 2, 3}, N: variant}
	}
	panic("nonProto " + kind)
}

var npKinds = []string{"int", "struct", "bytes-struct"}

func isNP(s string) bool { return strings.HasPrefix(s, "np:") }

func (k kase) srcType() string {
	if isNP(k.Src) {
		return k.Src
	}
	return specByName[k.Src].Type
}

// expect: "copy" when the statement promises a copy, "refuse" when it promises an error.
func (k kase) expect() string {
	if len(k.Seq) > 0 {
		return "sequence"
	}
	if k.Hook != "" {
		return "overlap"
	}
	if isNP(k.Src) || (k.Op == "Copy" && (isNP(k.DstType) || k.DstType != k.srcType())) {
		return "refuse"
	}
	return "copy"
}

// pairing class, the part of the fingerprint that says which kinds of things met.
func (k kase) pairing() string {
	if len(k.Seq) > 0 {
		return "seq"
	}
	if k.Hook != "" {
		return "overlap:" + k.SrcRep + "->" + k.DstRep + "@" + k.Hook
	}
	if k.Op == "Clone" {
		if isNP(k.Src) {
			return "nonproto"
		}
		return cloneClass(k.SrcRep)
	}
	switch {
	case isNP(k.Src) && isNP(k.DstType):
		return "nonproto->nonproto"
	case isNP(k.Src):
		return "nonproto->" + repBase(k.DstRep) + cfgRel("np", k.DstRep) + descRel(false, "", k.DstRep)
	case isNP(k.DstType):
		return repBase(k.SrcRep) + "->nonproto" + cfgRel(k.SrcRep, "np") + descRel(false, k.SrcRep, "")
	case k.DstType != k.srcType():
		return pairClass("difftype:", k.SrcRep, k.DstRep)
	}
	return pairClass("", k.SrcRep, k.DstRep)
}

func (k kase) key() string {
	return strings.Join([]string{k.Adapter, k.Op, k.Src, k.SrcRep, k.DstType, k.DstRep, k.DstFill, k.Hook, k.Inner, k.InnerSrcRep, k.InnerDstRep}, "|") + seqKey(k.Seq, nil)
}

func (k kase) buildSrc() interface{} {
	if isNP(k.Src) {
		return nonProto(strings.TrimPrefix(k.Src, "np:"), 1)
	}
	return specByName[k.Src].instance(k.SrcRep)
}

func (k kase) buildDst() interface{} {
	if isNP(k.DstType) {
		return nonProto(strings.TrimPrefix(k.DstType, "np:"), 0)
	}
	if k.DstFill != "" {
		return specByName[k.DstFill].instance(k.DstRep)
	}
	// empty message of the type
	g := specsOfType[k.DstType][0].build()
	proto.Reset(g)
	if isDyn(k.DstRep) {
		return newDyn(descOf(g, repProv(k.DstRep)), repCfg(k.DstRep))
	}
	return g
}

type finding struct {
	Clause string
	What   string
	Class  string // sequences: "<operation>|<class of the failing step>", replaces the case's own operation and pairing in the fingerprint
}

type outcome struct {
	Findings  []finding
	Observed  string
	Mutations int  // in-place mutations applied during the disjointness test (both objects)
	Reached   bool // the adapter operation was invoked and returned / panicked
	Internal  string
	EffKey    string   // sequences: the steps with every modification that changed nothing struck out
	failStep  int      // sequences: index of the step whose operation failed (-1: none, or seen at a modification)
	seqRun    []step   // sequences: the (prefix of the) sequence that was run when it failed
	failReps  []string // sequences: representation of every object at that time
}

func invoke(c inprocgrpc.Cloner, k kase, src, dst interface{}) (res interface{}, err error, panicked interface{}) {
	defer func() {
		if r := recover(); r != nil {
			panicked = r
		}
	}()
	if k.Op == "Clone" {
		res, err = c.Clone(src)
		return
	}
	err = c.Copy(dst, src)
	return dst, err, nil
}

func short(b []byte) string {
	if len(b) > 24 {
		return fmt.Sprintf("%x…(%d bytes)", b[:24], len(b))
	}
	return fmt.Sprintf("%x", b)
}

func runCase(k kase) outcome { return reduceProv(k, runCase1(k)) }

func runCase1(k kase) (o outcome) {
	if len(k.Seq) > 0 {
		return runSeq(k)
	}
	if k.Hook != "" {
		return runOverlap(k)
	}
	defer func() {
		if r := recover(); r != nil {
			o.Internal = fmt.Sprintf("checker panic on %s: %v", k.key(), r)
		}
	}()
	c := mkAdapter(k.Adapter)
	src := k.buildSrc()
	var dst interface{}
	if k.Op == "Copy" {
		dst = k.buildDst()
	}
	add := func(clause, what string) { o.Findings = append(o.Findings, finding{Clause: clause, What: what}) }

	if k.expect() == "refuse" {
		_, err, p := invoke(c, k, src, dst)
		o.Reached = true
		switch {
		case p != nil:
			o.Observed = fmt.Sprintf("panic: %v", p)
			add("panic", fmt.Sprintf("%s(%s) panicked instead of refusing with an error: %v", k.Op, describe(k), p))
		case err == nil:
			got := ""
			if b, cerr := canon(dst); cerr == nil {
				got = " destination now marshals to " + short(b)
			}
			o.Observed = "nil error"
			add("not-refused", fmt.Sprintf("%s(%s) returned a nil error; it must be refused.%s", k.Op, describe(k), got))
		default:
			o.Observed = "error: " + err.Error()
		}
		return
	}

	srcCanon, err := canon(src)
	if err != nil {
		o.Internal = "cannot marshal the source: " + err.Error()
		return
	}
	srcNorm, _ := normalize(src)
	srcSnap := proto.Clone(srcNorm)
	var srcDynSnap *dynamic.Message // what the source recognises and holds, when equality as dynamic messages is demanded
	if sd, ok := src.(*dynamic.Message); ok && demandDynEqual(k.Op, k.SrcRep, k.DstRep) {
		if srcDynSnap, err = dynSnapshot(sd); err != nil {
			o.Internal = "cannot take a snapshot of the source: " + err.Error()
			return
		}
	}

	res, err, p := invoke(c, k, src, dst)
	o.Reached = true
	if p != nil {
		o.Observed = fmt.Sprintf("panic: %v", p)
		add("panic", fmt.Sprintf("%s(%s) panicked: %v", k.Op, describe(k), p))
		return
	}
	if err != nil {
		o.Observed = "error: " + err.Error()
		add("error", fmt.Sprintf("%s(%s) failed although a copy is possible: %v", k.Op, describe(k), err))
		return
	}
	resNorm, nerr := normalize(res)
	if nerr != nil {
		o.Observed = "unusable result: " + nerr.Error()
		add("copy-unusable", fmt.Sprintf("%s(%s) returned no error but the result (%T) is not a readable message: %v", k.Op, describe(k), res, nerr))
		return
	}
	if n, _ := msgName(res); n != specByName[k.Src].Type {
		add("wrong-type", fmt.Sprintf("%s(%s) produced a %s", k.Op, describe(k), n))
	}
	o.Observed = "ok"
	if !proto.Equal(resNorm, srcSnap) {
		clause := "not-equal"
		if k.DstFill != "" {
			k2 := k
			k2.DstFill = ""
			if equalOnly(k2) {
				clause = "dest-not-replaced"
			}
		}
		rb, _ := canon(res)
		o.Observed = clause
		add(clause, fmt.Sprintf("%s(%s): result is not proto.Equal to the source: result %s, source %s", k.Op, describe(k), short(rb), short(srcCanon)))
	} else if what := dynEqualFinding(srcDynSnap, res); what != "" {
		o.Observed = "not-equal:as-dynamic"
		add("not-equal:as-dynamic", fmt.Sprintf("%s(%s): %s", k.Op, describe(k), what))
	}
	if what := dynEqualFinding(srcDynSnap, src); what != "" {
		add("source-changed:as-dynamic", fmt.Sprintf("%s(%s) changed what the source recognises: %s", k.Op, describe(k), strings.Replace(what, "the result", "the source afterwards", 2)))
	}
	if after, err := canon(src); err != nil || !bytes.Equal(after, srcCanon) {
		add("source-changed", fmt.Sprintf("%s(%s) changed the source: before %s after %s (%v)", k.Op, describe(k), short(srcCanon), short(after), err))
	}

	// behavioural disjointness, pass by pass, both directions
	var shared []string
	for _, pass := range passes {
		before, err := canon(src)
		if err != nil {
			o.Internal = "source unreadable during disjointness test: " + err.Error()
			return
		}
		n := mutate(res, pass)
		o.Mutations += n
		after, err := canon(src)
		if err != nil {
			o.Internal = "source unreadable after mutating the copy: " + err.Error()
			return
		}
		hit := !bytes.Equal(before, after)
		rb, err := canon(res)
		if err != nil {
			o.Internal = "copy unreadable after its own mutation: " + err.Error()
			return
		}
		n = mutate(src, pass)
		o.Mutations += n
		ra, err := canon(res)
		if err != nil {
			o.Internal = "copy unreadable after mutating the source: " + err.Error()
			return
		}
		if !bytes.Equal(rb, ra) {
			hit = true
		}
		if hit {
			shared = append(shared, pass)
		}
	}
	if len(shared) > 0 {
		o.Observed += " shared=" + strings.Join(shared, ",")
		via := ""
		for _, p := range viaPriority {
			for _, s := range shared {
				if s == p && via == "" {
					via = p
				}
			}
		}
		add("aliasing:via="+via, fmt.Sprintf("%s(%s): source and copy share mutable memory; in-place mutation of one changed the other's marshalled form in passes %v", k.Op, describe(k), shared))
	}
	return
}

// equalOnly: does the case produce a result equal to the source (used to tell
// "destination not replaced" from "copy wrong anyway").
func equalOnly(k kase) (ok bool) {
	defer func() {
		if recover() != nil {
			ok = false
		}
	}()
	src, dst := k.buildSrc(), k.buildDst()
	srcNorm, _ := normalize(src)
	snap := proto.Clone(srcNorm)
	res, err, p := invoke(mkAdapter(k.Adapter), k, src, dst)
	if p != nil || err != nil {
		return false
	}
	rn, err := normalize(res)
	return err == nil && proto.Equal(rn, snap)
}

func describe(k kase) string {
	if len(k.Seq) > 0 {
		return fmt.Sprintf("%s %s[%s] as x0; %s", k.Adapter, k.Src, k.SrcRep, seqString(k.Seq))
	}
	s := fmt.Sprintf("%s %s[%s]", k.Adapter, k.Src, k.SrcRep)
	if k.Hook != "" {
		fill := "empty"
		if k.DstFill != "" {
			fill = "pre-populated with " + k.DstFill
		}
		return fmt.Sprintf("%s Copy %s[%s] -> [%s] %s, with Copy %s[%s] -> [%s] running at %s", k.Adapter, k.Src, k.SrcRep, k.DstRep, fill, k.Inner, k.InnerSrcRep, k.InnerDstRep, k.Hook)
	}
	if k.Op == "Copy" {
		fill := "empty"
		if k.DstFill != "" {
			fill = "pre-populated with " + k.DstFill
		}
		s += fmt.Sprintf(" -> %s[%s] %s", k.DstType, k.DstRep, fill)
	}
	return s
}

// ------------------------------------------------------------ the grammar

func enumerate(adapters []string, thorough bool) []kase {
	var out []kase
	reps := []string{"gen", "dyn"}
	for _, a := range adapters {
		// 1. Clone of every message, both representations
		for _, s := range pool {
			for _, r := range reps {
				out = append(out, kase{Adapter: a, Op: "Clone", Src: s.Name, SrcRep: r})
			}
		}
		// 2. Copy into the same message type: same representation, then generated<->dynamic; empty, then pre-populated
		for _, fillPass := range []bool{false, true} {
			for _, cross := range []bool{false, true} {
				for _, s := range pool {
					for _, r := range reps {
						dr := r
						if cross {
							dr = map[string]string{"gen": "dyn", "dyn": "gen"}[r]
						}
						if !fillPass {
							out = append(out, kase{Adapter: a, Op: "Copy", Src: s.Name, SrcRep: r, DstType: s.Type, DstRep: dr})
							continue
						}
						for _, f := range fillers(s.Type, s, thorough) {
							out = append(out, kase{Adapter: a, Op: "Copy", Src: s.Name, SrcRep: r, DstType: s.Type, DstRep: dr, DstFill: f.Name})
						}
					}
				}
			}
		}
		// 3. non-proto pointers
		for _, np := range npKinds {
			out = append(out, kase{Adapter: a, Op: "Clone", Src: "np:" + np, SrcRep: "np"})
			out = append(out, kase{Adapter: a, Op: "Copy", Src: "np:" + np, SrcRep: "np", DstType: "np:" + np, DstRep: "np"})
		}
		for _, s := range pool {
			for _, r := range reps {
				for _, np := range npKinds {
					out = append(out, kase{Adapter: a, Op: "Copy", Src: s.Name, SrcRep: r, DstType: "np:" + np, DstRep: "np"})
					out = append(out, kase{Adapter: a, Op: "Copy", Src: "np:" + np, SrcRep: "np", DstType: s.Type, DstRep: r, DstFill: s.Name})
				}
			}
		}
		// 5. (enumerated last, see below) overlapping copies
		// 4. Copy into a different message type
		for _, s := range pool {
			for _, r := range reps {
				for _, t := range typeOrder {
					if t == s.Type {
						continue
					}
					for _, dr := range reps {
						out = append(out, kase{Adapter: a, Op: "Copy", Src: s.Name, SrcRep: r, DstType: t, DstRep: dr})
						fs := specsOfType[t]
						out = append(out, kase{Adapter: a, Op: "Copy", Src: s.Name, SrcRep: r, DstType: t, DstRep: dr, DstFill: fs[len(fs)-1].Name})
					}
				}
			}
		}
		out = append(out, enumerateOverlap(a, thorough)...)
	}
	return out
}

// ------------------------------------------------------------ self checks of the checker

// hasRefContent: does the generated message hold anything a shallow struct copy would share?
func hasRefContent(m proto.Message) bool {
	r := m.ProtoReflect()
	if len(r.GetUnknown()) > 0 {
		return true
	}
	found := false
	fds := r.Descriptor().Fields()
	for i := 0; i < fds.Len(); i++ {
		fd := fds.Get(i)
		if !r.Has(fd) {
			continue
		}
		// lists, maps, nested messages, oneof wrappers and proto2 optional
		// scalars are all held by reference in the generated struct
		if fd.IsList() || fd.IsMap() || isMsg(fd) || fd.HasPresence() {
			found = true
		}
		if fd.Kind() == protoreflect.BytesKind && len(r.Get(fd).Bytes()) > 0 {
			found = true
		}
	}
	return found
}

// shallow makes a struct-assignment copy of a message (what a careless cloner would do).
func shallow(m interface{}) interface{} {
	rv := reflect.ValueOf(m)
	cp := reflect.New(rv.Type().Elem())
	cp.Elem().Set(rv.Elem())
	return cp.Interface()
}

// mutatorCheck: the disjointness test must flag a shallow copy of every message
// that has something to share, and must not flag two independent builds.
func mutatorCheck() []string {
	var problems []string
	for _, s := range pool {
		for _, rep := range append([]string{"gen", "dyn"}, cfgReps...) {
			for _, mode := range []string{"shallow", "independent"} {
				a := s.instance(rep)
				var b interface{}
				if mode == "shallow" {
					b = shallow(a)
				} else {
					b = s.instance(rep)
				}
				flagged := false
				total := 0
				for _, pass := range passes {
					before, err1 := canon(a)
					total += mutate(b, pass)
					after, err2 := canon(a)
					bb, err3 := canon(b)
					total += mutate(a, pass)
					ba, err4 := canon(b)
					if err1 != nil || err2 != nil || err3 != nil || err4 != nil {
						problems = append(problems, fmt.Sprintf("%s[%s] %s: marshal error during pass %s: %v %v %v %v", s.Name, rep, mode, pass, err1, err2, err3, err4))
						break
					}
					if !bytes.Equal(before, after) || !bytes.Equal(bb, ba) {
						flagged = true
					}
				}
				want := mode == "shallow" && hasRefContent(s.build())
				if mode == "shallow" && isDyn(rep) {
					// a shallow *dynamic.Message shares its value map as soon as the map exists
					g := s.build()
					want = !proto.Equal(g, g.ProtoReflect().New().Interface()) || len(g.ProtoReflect().GetUnknown()) > 0
				}
				if flagged != want {
					problems = append(problems, fmt.Sprintf("%s[%s] %s copy: disjointness test flagged=%v, expected %v (%d mutations)", s.Name, rep, mode, flagged, want, total))
				}
				if total == 0 && s.Name != "empty" {
					problems = append(problems, fmt.Sprintf("%s[%s]: the mutator found nothing to mutate", s.Name, rep))
				}
			}
		}
	}
	return problems
}

// poolCheck: every spec builds the same content twice, generated and dynamic agree, canon is stable.
func poolCheck() []string {
	var problems []string
	for _, s := range pool {
		g1, g2 := s.build(), s.build()
		if !proto.Equal(g1, g2) {
			problems = append(problems, s.Name+": two builds differ")
		}
		c1, err := canon(g1)
		if err != nil {
			problems = append(problems, s.Name+": "+err.Error())
			continue
		}
		for i := 0; i < 5; i++ {
			d := asDyn(s.build())
			c2, err := canon(d)
			if err != nil || !bytes.Equal(c1, c2) {
				problems = append(problems, fmt.Sprintf("%s: dynamic form marshals differently (%v): %x vs %x", s.Name, err, c2, c1))
				break
			}
			n, err := normalize(d)
			if err != nil || !proto.Equal(n, g1) {
				problems = append(problems, fmt.Sprintf("%s: dynamic form not equal to generated form (%v)", s.Name, err))
				break
			}
		}
		if _, ok := interface{}(asDyn(g1)).(protov1.Message); !ok {
			problems = append(problems, s.Name+": dynamic form is not a v1 proto.Message")
		}
	}
	return problems
}

func sortedKeys(m map[string]int) []string {
	var ks []string
	for k := range m {
		ks = append(ks, k)
	}
	sort.Strings(ks)
	return ks
}
