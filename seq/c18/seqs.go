package main

// Operation sequences on ONE long-lived adapter object.
//
// The statement quantifies over "every message": also over a message that the
// same cloner has produced or seen a moment ago and that its owner has changed
// since. The single-operation grammar (oracle.go) makes a new adapter and new
// objects for every operation, so nothing an adapter remembers between two
// operations can show there. Here one adapter object performs 2 or 3 operations
//
//   Clone | Copy into an empty destination (generated / dynamic)
//         | Copy into a pre-populated destination (generated / dynamic)
//         | Copy into an object that an earlier step of the sequence produced or read
//         | Copy into a destination of another message type (to be refused)
//
// and the source of every later operation is ANY object that exists so far: the
// base object (used again) or the result / destination of an earlier step, after
// its owner has optionally modified it (seqmod.go: field set, field cleared,
// repeated element appended, map entry changed, unknown fields changed, or a
// deep in-place mutation of everything reachable).
//
// The oracle is the one of the single operation, applied to every step with the
// source AS IT IS AT THE TIME OF THE STEP: result equal to the source, source
// unchanged, destination replaced, refusal where due, never a panic; no shared
// mutable memory: an owner's modification of one object, and an operation that
// neither reads nor writes an object, leave every other object of the sequence
// unchanged, and the last (source, result) pair goes through the full two-way
// in-place mutation test.

import (
	"bytes"
	"fmt"
	"hash/fnv"
	"sort"
	"strings"

	"github.com/jhump/protoreflect/dynamic"
	"google.golang.org/protobuf/proto"
)

type step struct {
	Op      string `json:"op"`                 // Clone | Copy
	Src     int    `json:"src"`                // object index: 0 = the base object, i = what step i (1-based) produced
	Mod     string `json:"mod,omitempty"`      // what the owner does to the source object just before the step
	Dst     string `json:"dst,omitempty"`      // Copy: empty | fill | obj | other-type
	DstObj  int    `json:"dst_obj,omitempty"`  // Dst == obj: object index of the destination
	DstRep  string `json:"dst_rep,omitempty"`  // Dst == empty | fill | other-type
	DstFill string `json:"dst_fill,omitempty"` // Dst == fill: spec name
}

func (s step) call() string {
	if s.Op == "Clone" {
		return fmt.Sprintf("Clone(x%d)", s.Src)
	}
	switch s.Dst {
	case "obj":
		return fmt.Sprintf("Copy(x%d -> x%d)", s.Src, s.DstObj)
	case "fill":
		return fmt.Sprintf("Copy(x%d -> [%s] pre-populated with %s)", s.Src, s.DstRep, s.DstFill)
	case "other-type":
		return fmt.Sprintf("Copy(x%d -> [%s] of another message type)", s.Src, s.DstRep)
	}
	return fmt.Sprintf("Copy(x%d -> [%s] empty)", s.Src, s.DstRep)
}

// lazyWhere: "<adapter> <base> as x0; <steps so far>: step n", formatted only when a finding is written.
type lazyWhere struct {
	k kase
	i int
}

func (w lazyWhere) String() string {
	return fmt.Sprintf("%s %s[%s] as x0; %s: step %d", w.k.Adapter, w.k.Src, w.k.SrcRep, seqString(w.k.Seq[:w.i+1]), w.i+1)
}

func seqString(seq []step) string {
	var parts []string
	for i, s := range seq {
		if s.Mod != "" {
			parts = append(parts, fmt.Sprintf("modify(x%d: %s)", s.Src, s.Mod))
		}
		if s.Op == "Copy" && (s.Dst == "obj" || s.Dst == "other-type") {
			parts = append(parts, s.call()) // makes no new object
		} else {
			parts = append(parts, fmt.Sprintf("x%d := %s", i+1, s.call()))
		}
	}
	return strings.Join(parts, "; ")
}

func seqKey(seq []step, eff []string) string {
	var sb strings.Builder
	for i, s := range seq {
		mod := s.Mod
		if eff != nil {
			mod = eff[i]
		}
		fmt.Fprintf(&sb, "/%s,%d,%s,%s,%d,%s,%s", s.Op, s.Src, mod, s.Dst, s.DstObj, s.DstRep, s.DstFill)
	}
	return sb.String()
}

func hash64(s string) uint64 {
	h := fnv.New64a()
	h.Write([]byte(s))
	return h.Sum64()
}

// otherType: the message type used as the destination that must be refused.
func otherType(t string) string {
	for i, x := range typeOrder {
		if x == t {
			return typeOrder[(i+1)%len(typeOrder)]
		}
	}
	panic("otherType " + t)
}

// stepClass: the part of the fingerprint that says what kind of operation met
// what kind of source. The first step of a sequence is an isolated operation of
// a new adapter and gets the class of the single-operation grammar.
func (k kase) stepClass(i int, reps, origins []string, modified bool) string {
	st := k.Seq[i]
	srcRep := reps[st.Src]
	pairing := cloneClass(srcRep)
	if st.Op == "Copy" {
		dr := st.DstRep
		if st.Dst == "obj" {
			dr = reps[st.DstObj]
		}
		if st.Dst == "other-type" {
			pairing = pairClass("difftype:", srcRep, dr)
		} else {
			pairing = pairClass("", srcRep, dr)
		}
	}
	if i == 0 {
		return st.Op + "|" + pairing
	}
	// what the adapter did with the source object last (base: read it; clone-result /
	// copy-dest: wrote it), and whether its owner has modified it since
	origin := origins[st.Src]
	if modified {
		origin += ",modified"
	}
	return fmt.Sprintf("%s|seq:src=%s:%s", st.Op, origin, pairing)
}

// isolatedClass: the class the step would have as an isolated operation.
func (k kase) isolatedClass(i int, reps []string) string {
	k1 := k
	k1.Seq = []step{k.Seq[i]}
	r := append([]string(nil), reps...)
	st := &k1.Seq[0]
	if st.Dst == "obj" {
		st.Dst, st.DstRep = "fill", r[st.DstObj]
	}
	r[0], st.Src = r[st.Src], 0
	return k1.stepClass(0, r, nil, false)
}

func (k kase) seqDst(st step, objs []interface{}) interface{} {
	t := specByName[k.Src].Type
	switch st.Dst {
	case "obj":
		return objs[st.DstObj]
	case "fill":
		return specByName[st.DstFill].instance(st.DstRep)
	case "other-type":
		return kase{DstType: otherType(t), DstRep: st.DstRep}.buildDst()
	}
	return kase{DstType: t, DstRep: st.DstRep}.buildDst()
}

func family(clause string) string {
	switch {
	case clause == "not-equal" || clause == "dest-not-replaced":
		return "equal"
	case strings.HasPrefix(clause, "aliasing:"):
		return "aliasing"
	}
	return clause
}

// runSeq runs the sequence; when a clause fails it is reduced before it is
// reported, so that a defect that does not need a sequence is not reported as
// one: (1) the shortest prefix of the sequence that fails is taken (each prefix
// with its own final disjointness test), (2) the failing step is repeated as an
// operation of a NEW adapter object on the very same objects (the sequence is run
// again and the adapter is replaced just before that step); if the same clause
// fails there too, the finding gets the class of the single-operation grammar.
// Only what needs the long-lived adapter keeps a "seq:" class.
func runSeq(k kase) outcome {
	o := runSeqMode(k, false)
	if o.Internal != "" || len(o.Findings) == 0 {
		return o
	}
	full := o
	for n := 1; n <= len(k.Seq); n++ {
		kn := k
		kn.Seq = k.Seq[:n]
		on := runSeqMode(kn, true)
		if on.Internal != "" {
			return on
		}
		if len(on.Findings) > 0 {
			o = on
			break
		}
	}
	o.EffKey, o.Reached, o.Mutations = full.EffKey, full.Reached, full.Mutations
	if o.failStep < 1 {
		return o // a first step is an isolated operation; a finding at a modification has no operation to repeat
	}
	k1 := k
	k1.Seq, k1.freshAt = k.Seq[:len(o.seqRun)], o.failStep
	o1 := runSeqMode(k1, true)
	if o1.Internal != "" {
		return o1
	}
	for i := range o.Findings {
		for _, f1 := range o1.Findings {
			if family(f1.Clause) == family(o.Findings[i].Clause) {
				if o1.failStep == o.failStep {
					o.Findings[i].Class = k.isolatedClass(o.failStep, o.failReps)
					o.Findings[i].What += " [the step fails the same way when a NEW adapter object performs it on these objects: it does not take a long-lived adapter]"
				}
				break
			}
		}
	}
	return o
}

func runSeqMode(k kase, detailed bool) (o outcome) {
	defer func() {
		if r := recover(); r != nil {
			o.Internal = fmt.Sprintf("checker panic on %s: %v", k.key(), r)
		}
	}()
	cur := -1 // the step whose operation is being judged
	o.failStep = -1
	var reps []string
	defer func() {
		if len(o.Findings) > 0 {
			o.failStep, o.seqRun, o.failReps = cur, k.Seq, reps
		}
	}()
	c := mkAdapter(k.Adapter)
	base := specByName[k.Src]
	objs := []interface{}{base.instance(k.SrcRep)}
	reps = []string{tagRep(k.SrcRep, 0)}
	origins := []string{"base"} // base | clone-result | copy-dest (what the adapter did to the object last)
	dirty := []bool{false}      // modified by its owner since the adapter last read or wrote it
	first, err := stamp(objs[0])
	if err != nil {
		o.Internal = "cannot marshal the base object: " + err.Error()
		return
	}
	canons := [][]byte{first}
	eff := make([]string, len(k.Seq))
	o.Observed = "ok"

	var class string
	add := func(clause, what string) {
		o.Findings = append(o.Findings, finding{Clause: clause, What: what, Class: class})
	}
	// others: every object except skip must still marshal as recorded
	others := func(skip1, skip2 int) (changed []int, err error) {
		for j := range objs {
			if j == skip1 || j == skip2 || objs[j] == nil {
				continue
			}
			cj, err := stamp(objs[j])
			if err != nil {
				return nil, fmt.Errorf("object x%d unreadable: %v", j, err)
			}
			if !bytes.Equal(cj, canons[j]) {
				changed = append(changed, j)
				canons[j] = cj
			}
		}
		return
	}
	lastSrc, lastRes, lastStep, lastDirty := -1, -1, -1, false
	for i, st := range k.Seq {
		cur = -1
		if st.Src < 0 || st.Src >= len(objs) || objs[st.Src] == nil || (st.Dst == "obj" && (st.DstObj < 0 || st.DstObj >= len(objs) || objs[st.DstObj] == nil || st.DstObj == st.Src)) {
			o.Internal = fmt.Sprintf("step %d of %s refers to an object that does not exist", i+1, seqString(k.Seq))
			return
		}
		src := objs[st.Src]
		where := lazyWhere{k, i}

		// --- the owner modifies the source object
		if st.Mod != "" {
			n := modify(src, st.Mod)
			nb, err := stamp(src)
			if err != nil {
				o.Internal = fmt.Sprintf("%s: source unreadable after its modification: %v", where, err)
				return
			}
			if n > 0 && !bytes.Equal(nb, canons[st.Src]) {
				dirty[st.Src] = true
				eff[i] = st.Mod
				o.Mutations += n
			}
			canons[st.Src] = nb
			ch, err := others(st.Src, -1)
			if err != nil {
				o.Internal = where.String() + ": " + err.Error()
				return
			}
			if len(ch) > 0 {
				class = k.stepClass(i, reps, origins, true)
				add("aliasing:via=modify-"+st.Mod, fmt.Sprintf("%s: modifying x%d (%s) changed the marshalled form of x%v: the objects share mutable memory", where, st.Src, st.Mod, ch))
				o.Observed = "shared memory seen at a modification"
				o.EffKey = seqKey(k.Seq, eff)
				return
			}
		}
		class = k.stepClass(i, reps, origins, dirty[st.Src])

		srcCanon := canons[st.Src]
		srcNorm, err := normalize(src)
		if err != nil {
			o.Internal = where.String() + ": cannot read the source: " + err.Error()
			return
		}
		srcSnap := proto.Clone(srcNorm)
		var dst interface{}
		dstIdx := -1
		dstRep := st.DstRep
		if st.Op == "Copy" {
			dst = k.seqDst(st, objs)
			if st.Dst == "obj" {
				dstIdx, dstRep = st.DstObj, reps[st.DstObj]
			}
		}
		var srcDynSnap *dynamic.Message // (oracle.go: equality as dynamic messages, where it is demanded)
		if sd, ok := src.(*dynamic.Message); ok && st.Dst != "other-type" && demandDynEqual(st.Op, reps[st.Src], dstRep) {
			if srcDynSnap, err = dynSnapshot(sd); err != nil {
				o.Internal = where.String() + ": cannot take a snapshot of the source: " + err.Error()
				return
			}
		}
		cur = i
		if k.freshAt > 0 && k.freshAt == i {
			c = mkAdapter(k.Adapter)
		}
		res, err, p := invoke(c, kase{Op: st.Op}, src, dst)
		if i == len(k.Seq)-1 {
			o.Reached = true
		}

		// --- a destination of another type: refusal is due
		if st.Dst == "other-type" {
			switch {
			case p != nil:
				o.Observed = fmt.Sprintf("panic: %v", p)
				add("panic", fmt.Sprintf("%s panicked instead of refusing with an error: %v", where, p))
			case err == nil:
				got := ""
				if b, cerr := canon(dst); cerr == nil {
					got = " destination now marshals to " + short(b)
				}
				o.Observed = "nil error"
				add("not-refused", fmt.Sprintf("%s returned a nil error; it must be refused.%s", where, got))
			default:
				o.Observed = fmt.Sprintf("ok (step %d refused)", i+1)
			}
			if after, cerr := stamp(src); cerr != nil || !bytes.Equal(after, srcCanon) {
				add("source-changed", fmt.Sprintf("%s changed the source: before %s after %s (%v)", where, short(srcCanon), short(after), cerr))
			}
			if ch, cerr := others(st.Src, -1); cerr != nil {
				o.Internal = where.String() + ": " + cerr.Error()
				return
			} else if len(ch) > 0 {
				add("aliasing:via=operation", fmt.Sprintf("%s changed x%v, which it neither reads nor writes", where, ch))
			}
			objs, reps, origins, dirty, canons = append(objs, nil), append(reps, ""), append(origins, ""), append(dirty, false), append(canons, nil)
			if len(o.Findings) > 0 {
				o.EffKey = seqKey(k.Seq, eff)
				return
			}
			continue
		}

		if p != nil {
			o.Observed = fmt.Sprintf("panic: %v", p)
			add("panic", fmt.Sprintf("%s panicked: %v", where, p))
			o.EffKey = seqKey(k.Seq, eff)
			return
		}
		if err != nil {
			o.Observed = "error: " + err.Error()
			add("error", fmt.Sprintf("%s failed although a copy is possible: %v", where, err))
			o.EffKey = seqKey(k.Seq, eff)
			return
		}
		resNorm, nerr := normalize(res)
		if nerr != nil {
			o.Observed = "unusable result: " + nerr.Error()
			add("copy-unusable", fmt.Sprintf("%s returned no error but the result (%T) is not a readable message: %v", where, res, nerr))
			o.EffKey = seqKey(k.Seq, eff)
			return
		}
		if n, _ := msgName(res); n != base.Type {
			add("wrong-type", fmt.Sprintf("%s produced a %s", where, n))
		}
		resCanon, _ := stamp(res)
		if !proto.Equal(resNorm, srcSnap) {
			clause := "not-equal"
			if st.Dst == "fill" || st.Dst == "obj" {
				k2 := k
				k2.Seq = append([]step(nil), k.Seq[:i+1]...)
				dr := st.DstRep
				if st.Dst == "obj" {
					dr = reps[st.DstObj]
				}
				k2.Seq[i].Dst, k2.Seq[i].DstRep, k2.Seq[i].DstObj, k2.Seq[i].DstFill = "empty", dr, 0, ""
				if o2 := runSeqMode(k2, false); o2.Internal == "" && len(o2.Findings) == 0 {
					clause = "dest-not-replaced"
				}
			}
			o.Observed = clause
			add(clause, fmt.Sprintf("%s: result is not proto.Equal to the source as it is at the time of the operation: result %s, source %s", where, short(resCanon), short(srcCanon)))
		} else if what := dynEqualFinding(srcDynSnap, res); what != "" {
			o.Observed = "not-equal:as-dynamic"
			add("not-equal:as-dynamic", fmt.Sprintf("%s: %s", where, what))
		}
		if what := dynEqualFinding(srcDynSnap, src); what != "" {
			add("source-changed:as-dynamic", fmt.Sprintf("%s changed what the source recognises: %s", where, strings.Replace(what, "the result", "the source afterwards", 2)))
		}
		if after, cerr := stamp(src); cerr != nil || !bytes.Equal(after, srcCanon) {
			add("source-changed", fmt.Sprintf("%s changed the source: before %s after %s (%v)", where, short(srcCanon), short(after), cerr))
		}
		if ch, cerr := others(st.Src, dstIdx); cerr != nil {
			o.Internal = where.String() + ": " + cerr.Error()
			return
		} else if len(ch) > 0 {
			add("aliasing:via=operation", fmt.Sprintf("%s changed x%v, which it neither reads nor writes", where, ch))
		}
		if dstIdx >= 0 {
			// a copy into an earlier object makes no new object: the slot of this step stays empty
			canons[dstIdx], origins[dstIdx] = resCanon, "copy-dest"
			objs, reps, origins, dirty, canons = append(objs, nil), append(reps, ""), append(origins, ""), append(dirty, false), append(canons, nil)
			lastSrc, lastRes, lastStep, lastDirty = st.Src, dstIdx, i, dirty[st.Src]
		} else {
			resRep, origin := reps[st.Src], "clone-result"
			if st.Op == "Copy" {
				resRep, origin = tagRep(st.DstRep, i+1), "copy-dest"
			}
			objs, reps, origins, dirty, canons = append(objs, res), append(reps, resRep), append(origins, origin), append(dirty, false), append(canons, resCanon)
			lastSrc, lastRes, lastStep, lastDirty = st.Src, len(objs)-1, i, dirty[st.Src]
		}
		if len(o.Findings) == 0 {
			dirty[st.Src] = false
			if dstIdx >= 0 {
				dirty[dstIdx] = false
			}
		}
		if len(o.Findings) > 0 {
			o.EffKey = seqKey(k.Seq, eff)
			return
		}
	}
	o.EffKey = seqKey(k.Seq, eff)
	cur = -1

	// --- the last (source, result) pair: behavioural disjointness test, both
	// directions, while every other object of the sequence is watched as well.
	// Fast form: all in-place mutation passes at once on the result, then on the
	// source; when that shows sharing, the sequence is run again pass by pass
	// (detailed) to say through which kind of memory.
	if lastRes < 0 {
		return
	}
	class = k.stepClass(lastStep, reps, origins, lastDirty)
	cur = lastStep
	var shared []string
	pairs := map[string]bool{}
	rounds := [][]string{passes}
	if detailed {
		rounds = nil
		for _, p := range passes {
			rounds = append(rounds, []string{p})
		}
	}
	for _, round := range rounds {
		for _, x := range []int{lastRes, lastSrc} {
			for _, pass := range round {
				o.Mutations += mutate(objs[x], pass)
			}
			for j := range objs {
				if objs[j] == nil {
					continue
				}
				cj, err := stamp(objs[j])
				if err != nil {
					o.Internal = fmt.Sprintf("%s: object x%d unreadable during the disjointness test: %v", seqString(k.Seq), j, err)
					return
				}
				if j != x && !bytes.Equal(cj, canons[j]) {
					if len(shared) == 0 || shared[len(shared)-1] != round[0] {
						shared = append(shared, round[0])
					}
					pairs[fmt.Sprintf("x%d changed when x%d was mutated", j, x)] = true
				}
				canons[j] = cj
			}
		}
	}
	if len(shared) > 0 {
		via := "?"
		if detailed {
			via = ""
			for _, p := range viaPriority {
				for _, s := range shared {
					if s == p && via == "" {
						via = p
					}
				}
			}
			o.Observed += " shared=" + strings.Join(shared, ",")
		}
		var which []string
		for p := range pairs {
			which = append(which, p)
		}
		sort.Strings(which)
		add("aliasing:via="+via, fmt.Sprintf("%s %s[%s] as x0; %s: after the last step the result x%d and the source x%d of that step were mutated in place, one after the other: %s (passes %v): shared mutable memory", k.Adapter, k.Src, k.SrcRep, seqString(k.Seq), lastRes, lastSrc, strings.Join(which, ", "), shared))
	}
	return
}

// stamp: a byte string that changes when the content of the object changes (the
// deterministic wire form; of a dynamic message its own one, without the detour
// through the generated type that canon makes). Used to see change, not to judge equality.
func stamp(m interface{}) (b []byte, err error) {
	if dm, ok := m.(*dynamic.Message); ok && dm != nil && dm.GetMessageDescriptor() != nil {
		defer func() {
			if r := recover(); r != nil {
				b, err = nil, fmt.Errorf("panic while reading the message: %v", r)
			}
		}()
		return dm.MarshalDeterministic()
	}
	return canon(m)
}

// ------------------------------------------------------------ the grammar of sequences

// quick: the small message of each of five types that has every kind of field the type offers
// (they are the dedicated fillers of their types, so a pre-populated destination holds the type's largest message)
var seqPoolQuick = []string{"msg-filler", "trailer-filler", "uopt-filler", "struct-filler", "bytesvalue"}
var seqPoolMore = []string{"msg-full-unknown", "trailer-unknown", "uopt-unknown", "struct-nested", "msg-empty", "value-list", "value-struct", "listvalue-mixed",
	"any-message", "any-unresolvable", "stringvalue", "int64value", "boolvalue", "doublevalue", "duration-negative", "uopt-explicit-zero", "empty-unknown"}

const seqPool3Quick = 3 // 3-step sequences of the quick tier (and the wide ones of the thorough tier) use this many messages of the pool

var allMods = []string{"", "set", "clear", "append", "map", "unknown", "deep"}

func coarseMod(m string) bool { return m == "" || m == "deep" }

func seqPool(thorough bool) []*spec {
	var out []*spec
	names := seqPoolQuick
	if thorough {
		names = append(append([]string(nil), seqPoolQuick...), seqPoolMore...)
	}
	for _, n := range names {
		if specByName[n] == nil {
			panic("sequence pool names an unknown spec: " + n)
		}
		out = append(out, specByName[n])
	}
	return out
}

// stepVariants: every operation that can follow in a sequence whose objects so
// far are x_j, j < len(exists) (exists[j] false: step j made no new object, it
// was a refusal or a copy into an earlier object). withFill: also the copies into
// a pre-populated destination.
func stepVariants(s *spec, exists []bool, mods []string, withFill bool) []step {
	return stepVariantsReps(s, exists, mods, withFill, []string{"gen", "dyn"})
}

// stepVariantsReps: stepVariants with the representations of the destinations the steps make.
func stepVariantsReps(s *spec, exists []bool, mods []string, withFill bool, dstReps []string) []step {
	var out []step
	first := len(exists) == 1
	var fill string
	if fs := fillers(s.Type, s, false); len(fs) > 0 && withFill {
		fill = fs[0].Name
	}
	for src := range exists {
		if !exists[src] {
			continue
		}
		for _, mod := range mods {
			if first && mod != "" {
				continue // a modified base object is just another message
			}
			out = append(out, step{Op: "Clone", Src: src, Mod: mod})
			for _, dr := range dstReps {
				out = append(out, step{Op: "Copy", Src: src, Mod: mod, Dst: "empty", DstRep: dr})
			}
			if fill != "" {
				for _, dr := range dstReps {
					out = append(out, step{Op: "Copy", Src: src, Mod: mod, Dst: "fill", DstRep: dr, DstFill: fill})
				}
			}
			for j := range exists {
				if j != src && exists[j] {
					out = append(out, step{Op: "Copy", Src: src, Mod: mod, Dst: "obj", DstObj: j})
				}
			}
			out = append(out, step{Op: "Copy", Src: src, Mod: mod, Dst: "other-type", DstRep: "gen"})
		}
	}
	return out
}

func makesObject(s step) bool { return s.Dst != "other-type" && s.Dst != "obj" }

var coarseMods = []string{"", "deep"}

// enumerateSeq: all sequences of 2 steps, then all sequences of 3 steps, for one adapter.
//
//	2 steps   sequence pool of the tier; every operation variant; every modification kind
//	3 steps   quick:    the first seqPool3Quick messages of the pool; both modifications in {none, deep}; pre-populated
//	                    destinations at the last step only
//	          thorough: the whole pool; both modifications in {none, deep}; every operation variant at every step;
//	                    and over the first seqPool3Quick messages also every sequence in which exactly one of the
//	                    two modifications is a single-kind one
func enumerateSeq(a string, thorough bool, emit func(kase)) {
	reps := []string{"gen", "dyn"}
	pool := seqPool(thorough)
	for _, s := range pool {
		for _, r0 := range reps {
			for _, s1 := range stepVariants(s, []bool{true}, allMods, true) {
				for _, s2 := range stepVariants(s, []bool{true, makesObject(s1)}, allMods, true) {
					emit(kase{Adapter: a, Op: "Seq", Src: s.Name, SrcRep: r0, Seq: []step{s1, s2}})
				}
			}
		}
	}
	for si, s := range pool {
		if !thorough && si >= seqPool3Quick {
			break
		}
		wide := thorough && si < seqPool3Quick
		mods2 := coarseMods
		if wide {
			mods2 = allMods
		}
		for _, r0 := range reps {
			for _, s1 := range stepVariants(s, []bool{true}, allMods, thorough) {
				e1 := []bool{true, makesObject(s1)}
				for _, s2 := range stepVariants(s, e1, mods2, thorough) {
					mods3 := coarseMods
					if wide && coarseMod(s2.Mod) {
						mods3 = allMods
					}
					for _, s3 := range stepVariants(s, []bool{true, e1[1], makesObject(s2)}, mods3, true) {
						emit(kase{Adapter: a, Op: "Seq", Src: s.Name, SrcRep: r0, Seq: []step{s1, s2, s3}})
					}
				}
			}
		}
	}
}

// ------------------------------------------------------------ calibration: adapters that are wrong only across operations

// staleCloner remembers the encoded form of every object it has read, by
// identity, and never looks at the object again: wrong for an object that was
// modified between two uses as a source, right for every isolated operation.
type staleCloner struct{ seen map[interface{}]interface{} }

func (s *staleCloner) snapshot(in interface{}) (interface{}, error) {
	if c, ok := s.seen[in]; ok {
		return c, nil
	}
	c, err := goodClone(in)
	if err == nil {
		s.seen[in] = c
	}
	return c, err
}
func (s *staleCloner) Copy(out, in interface{}) error {
	c, err := s.snapshot(in)
	if err != nil {
		return err
	}
	return goodCopy(out, c)
}
func (s *staleCloner) Clone(in interface{}) (interface{}, error) {
	c, err := s.snapshot(in)
	if err != nil {
		return nil, err
	}
	return goodClone(c)
}

// twinCloner hands out the same object for two consecutive clones of one source:
// each result equals its source, the two results are one object.
type twinCloner struct {
	lastIn, lastOut interface{}
}

func (t *twinCloner) Copy(out, in interface{}) error { return goodCopy(out, in) }
func (t *twinCloner) Clone(in interface{}) (interface{}, error) {
	if t.lastIn == in && t.lastOut != nil {
		if a, err := canon(in); err == nil {
			if b, err := canon(t.lastOut); err == nil && bytes.Equal(a, b) {
				return t.lastOut, nil
			}
		}
	}
	c, err := goodClone(in)
	if err == nil {
		t.lastIn, t.lastOut = in, c
	}
	return c, err
}

var faultyAdapters = []string{"faulty:stale-by-identity", "faulty:same-object-twice"}

// seqCalibration: the deliberately wrong adapters pass the whole single-operation
// grammar and are caught by the 2-step sequences; returns the problems found.
func seqCalibration() (problems []string, cases int) {
	for _, a := range faultyAdapters {
		for _, k := range enumerate([]string{a}, false) {
			if k.Hook != "" {
				continue
			}
			cases++
			if o := runCase(k); o.Internal != "" || len(o.Findings) > 0 {
				problems = append(problems, fmt.Sprintf("%s is meant to be right on isolated operations but fails %s (%s %v)", a, describe(k), o.Internal, o.Findings))
				break
			}
		}
		caught := 0
		enumerateSeq(a, false, func(k kase) {
			if len(k.Seq) != 2 {
				return
			}
			cases++
			o := runCase(k)
			if o.Internal != "" {
				problems = append(problems, a+": "+o.Internal)
			}
			if len(o.Findings) > 0 {
				caught++
			}
		})
		if caught == 0 {
			problems = append(problems, a+" is wrong across operations but no 2-step sequence shows it")
		}
	}
	return
}

func seqPoolNames(thorough bool) []string {
	var out []string
	for _, s := range seqPool(thorough) {
		out = append(out, s.Name)
	}
	return out
}
