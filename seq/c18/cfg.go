package main

// Configuration of a dynamic message: what it recognises beyond the fields of
// its descriptor.
//
// A *dynamic.Message is more than a descriptor and values. How it was made
// decides which fields it RECOGNISES (answers HasField / GetField / text form by
// name for) and which it merely carries as unrecognised bytes, and how it makes
// the nested messages it decodes:
//
//	dyn      dynamic.NewMessage(md): the fields of the descriptor only
//	dyn+er   dynamic.NewMessageWithExtensionRegistry(md, er): also the extension fields the registry
//	         holds for the message type (what a dynamic stub built with an extension registry hands out)
//	dyn+mf   dynamic.NewMessageWithMessageFactory(md, mf), mf = factory over the same registry and a
//	         known-type registry with defaults: the extensions, and every nested message whose type is
//	         linked into the program is held as its generated struct instead of a dynamic message
//	dyn+xf   dynamic.NewMessage(md) whose owner has read its extension fields through their descriptors
//	         (GetField(fd)): the message has then learnt these fields ("extra fields") and recognises them
//	         without any registry
//
// Two dynamic messages of one type with the same bytes are equal in the sense
// of the library that defines them (dynamic.Equal: "same message type and same
// fields set to equal values") only if they recognise the same fields. The wire
// form does not show the difference, so the oracle of equality gets a second
// clause where it can be demanded (demandDynEqual below).
//
// The dimension needs content that only a configuration makes recognisable: the
// pool has messages of an extendable type (google.protobuf.MethodOptions, pool.go
// "mopt-*") with extension fields set; the extensions (string, bytes, repeated
// bytes, message) are declared in a file that is built here and is not linked
// into the program, so the generated form and a plain dynamic message carry them
// as unrecognised fields.

import (
	"bytes"
	"fmt"
	"sort"
	"strings"

	protov1 "github.com/golang/protobuf/proto"
	"github.com/jhump/protoreflect/desc"
	"github.com/jhump/protoreflect/desc/builder"
	"github.com/jhump/protoreflect/dynamic"
	"google.golang.org/protobuf/encoding/protowire"
	"google.golang.org/protobuf/proto"
	"google.golang.org/protobuf/reflect/protoreflect"
	"google.golang.org/protobuf/types/descriptorpb"
)

var cfgKinds = []string{"", "er", "mf", "xf"}

func knownCfg(c string) bool {
	for _, x := range cfgKinds {
		if x == c {
			return true
		}
	}
	return false
}

// repCfg: the configuration part of a representation ("dyn+er@set" -> "er").
func repCfg(r string) string {
	i := strings.IndexByte(r, '+')
	if i < 0 {
		return ""
	}
	r = r[i+1:]
	if j := strings.IndexAny(r, "@#"); j >= 0 {
		r = r[:j]
	}
	return r
}

// cfgReps: the dynamic representations with a configuration other than the default (over the cached descriptor).
var cfgReps = func() []string {
	var out []string
	for _, c := range cfgKinds[1:] {
		out = append(out, "dyn+"+c)
	}
	return out
}()

func cfgSide(r string) string {
	switch {
	case !isDyn(r):
		return "-"
	case repCfg(r) == "":
		return "plain"
	}
	return repCfg(r)
}

// cfgRel: the part of a pairing class that names the configurations that met
// ("" when every dynamic message involved is a plain one).
func cfgRel(sr, dr string) string {
	if repCfg(sr) == "" && repCfg(dr) == "" {
		return ""
	}
	if cfgSide(sr) == cfgSide(dr) {
		return "+cfg=" + cfgSide(sr)
	}
	return "+cfg=" + cfgSide(sr) + "/" + cfgSide(dr)
}

// knows: what a configuration recognises beyond the descriptor.
func knows(cfg string) string {
	switch cfg {
	case "er", "mf":
		return "registry"
	case "xf":
		return "learnt"
	}
	return "nothing"
}

// demandDynEqual: must the result be dynamic.Equal to the source (both being
// dynamic messages)? A clone is made by the adapter from the source alone and is
// "a copy that is equal to the source": always. A copy goes into a destination
// that the caller made: the destination decides what it recognises, so equality
// in that sense is demanded when destination and source recognise the same things
// by construction (both plain, or both over the registry); between a message that
// recognises an extension and one that cannot, equality of the content (the wire
// form, as for generated <-> dynamic) is all the statement can mean.
func demandDynEqual(op, srcRep, dstRep string) bool {
	if !isDyn(srcRep) {
		return false
	}
	if op == "Clone" {
		return true
	}
	if !isDyn(dstRep) {
		return false
	}
	ks, kd := knows(repCfg(srcRep)), knows(repCfg(dstRep))
	return ks == kd && ks != "learnt"
}

// ------------------------------------------------------------ the extensions

const extTypeName = "google.protobuf.MethodOptions"

// numbers of the extension fields (the extension range of MethodOptions is 1000 to max) and of the
// unrecognised field the messages of the type carry; all below 9999 (mutate.go extraUnknown), so that
// every representation marshals the fields in ascending order
const (
	extNote, extBlob, extBlobs, extOpt = 1001, 1002, 1003, 1004
	moptUnknownTag                     = 5000
)

var (
	extFileD *desc.FileDescriptor
	extER    *dynamic.ExtensionRegistry
	extMF    *dynamic.MessageFactory
	extByNum = map[int32]*desc.FieldDescriptor{}
)

func extInit() {
	if extFileD != nil {
		return
	}
	md := descFor(&descriptorpb.MethodOptions{})
	umd := descFor(&descriptorpb.UninterpretedOption{})
	fd, err := builder.NewFile("c18ext.proto").SetPackageName("c18ext").
		AddExtension(builder.NewExtensionImported("note", extNote, builder.FieldTypeString(), md)).
		AddExtension(builder.NewExtensionImported("blob", extBlob, builder.FieldTypeBytes(), md)).
		AddExtension(builder.NewExtensionImported("blobs", extBlobs, builder.FieldTypeBytes(), md).SetRepeated()).
		AddExtension(builder.NewExtensionImported("opt", extOpt, builder.FieldTypeImportedMessage(umd), md)).
		Build()
	if err != nil {
		panic("building the extension file: " + err.Error())
	}
	extFileD = fd
	extER = dynamic.NewExtensionRegistryWithDefaults()
	extER.AddExtensionsFromFile(fd)
	extMF = dynamic.NewMessageFactoryWithRegistries(extER, dynamic.NewKnownTypeRegistryWithDefaults())
	for _, x := range fd.GetExtensions() {
		extByNum[x.GetNumber()] = x
	}
}

// newDyn: an empty dynamic message over md in the given configuration.
func newDyn(md *desc.MessageDescriptor, cfg string) *dynamic.Message {
	switch cfg {
	case "", "xf":
		return dynamic.NewMessage(md)
	case "er":
		extInit()
		return dynamic.NewMessageWithExtensionRegistry(md, extER)
	case "mf":
		extInit()
		return dynamic.NewMessageWithMessageFactory(md, extMF)
	}
	panic("unknown configuration of a dynamic message: " + cfg)
}

// learn: configuration xf: the owner reads every extension field the message
// carries through its descriptor; the message recognises it from then on.
func learn(dm *dynamic.Message, cfg string) {
	if cfg != "xf" || dm.GetMessageDescriptor().GetFullyQualifiedName() != extTypeName {
		return
	}
	extInit()
	tags := dm.GetUnknownFields()
	sort.Slice(tags, func(i, j int) bool { return tags[i] < tags[j] })
	for _, t := range tags {
		if fd := extByNum[t]; fd != nil {
			if _, err := dm.TryGetField(fd); err != nil {
				panic(fmt.Sprintf("reading extension %d through its descriptor: %v", t, err))
			}
		}
	}
}

// dynFields: the fields a dynamic message recognises: those of its descriptor,
// then the extensions it knows (registry, learnt), by number.
func dynFields(dm *dynamic.Message) []*desc.FieldDescriptor {
	md := dm.GetMessageDescriptor()
	exts := dm.GetKnownExtensions()
	if len(exts) == 0 {
		return md.GetFields()
	}
	sort.Slice(exts, func(i, j int) bool { return exts[i].GetNumber() < exts[j].GetNumber() })
	out := append([]*desc.FieldDescriptor(nil), md.GetFields()...)
	var last int32 = -1
	for _, x := range exts {
		if x.GetNumber() != last {
			out = append(out, x)
		}
		last = x.GetNumber()
	}
	return out
}

// dynSnapshot: an independent dynamic message that recognises what dm recognises
// and holds what dm holds (proto.Clone of a dynamic message gives an instance
// with its descriptor, factory, registry and learnt fields; the content goes
// through the wire form). ok=false: dm is not in a state that can be compared.
func dynSnapshot(dm *dynamic.Message) (snap *dynamic.Message, err error) {
	defer func() {
		if r := recover(); r != nil {
			snap, err = nil, fmt.Errorf("panic while taking a snapshot of a dynamic message: %v", r)
		}
	}()
	b, err := dm.Marshal()
	if err != nil {
		return nil, err
	}
	snap = protov1.Clone(dm).(*dynamic.Message)
	if err := snap.Unmarshal(b); err != nil {
		return nil, err
	}
	if !dynamic.Equal(dm, snap) {
		return nil, fmt.Errorf("the snapshot of a dynamic message is not dynamic.Equal to it: %s vs %s", dynText(snap), dynText(dm))
	}
	return snap, nil
}

func dynText(dm *dynamic.Message) (s string) {
	defer func() {
		if r := recover(); r != nil {
			s = fmt.Sprintf("<unprintable: %v>", r)
		}
	}()
	s = dm.String()
	if len(s) > 160 {
		s = s[:160] + "…"
	}
	return s
}

// dynEqualFinding: the second clause of equality. "" = holds (or is not demanded).
func dynEqualFinding(snap *dynamic.Message, res interface{}) string {
	rd, ok := res.(*dynamic.Message)
	if !ok || snap == nil || rd == nil {
		return ""
	}
	eq := false
	func() {
		defer func() { recover() }()
		eq = dynamic.Equal(snap, rd)
	}()
	if eq {
		return ""
	}
	st, rt := snap.GetUnknownFields(), rd.GetUnknownFields()
	sort.Slice(st, func(i, j int) bool { return st[i] < st[j] })
	sort.Slice(rt, func(i, j int) bool { return rt[i] < rt[j] })
	return fmt.Sprintf("the result is not dynamic.Equal to the source (as it was when the operation began) although it has its content: the two do not recognise the same fields. source: %s (unrecognised: %v); the result: %s (unrecognised: %v)",
		dynText(snap), st, dynText(rd), rt)
}

// ------------------------------------------------------------ the messages of the extendable type

type extContent struct {
	note  *string
	blob  []byte
	blobs [][]byte
	opt   *descriptorpb.UninterpretedOption
	unk   bool
}

// withExt: the extension fields as a generated message carries them (the file
// that declares them is not linked in): unrecognised, in ascending order.
func withExt(m *descriptorpb.MethodOptions, c extContent) proto.Message {
	var u []byte
	if c.note != nil {
		u = protowire.AppendString(protowire.AppendTag(u, extNote, protowire.BytesType), *c.note)
	}
	if c.blob != nil {
		u = protowire.AppendBytes(protowire.AppendTag(u, extBlob, protowire.BytesType), c.blob)
	}
	for _, b := range c.blobs {
		u = protowire.AppendBytes(protowire.AppendTag(u, extBlobs, protowire.BytesType), b)
	}
	if c.opt != nil {
		b, err := proto.MarshalOptions{Deterministic: true, AllowPartial: true}.Marshal(c.opt)
		if err != nil {
			panic(err)
		}
		u = protowire.AppendBytes(protowire.AppendTag(u, extOpt, protowire.BytesType), b)
	}
	if c.unk {
		u = protowire.AppendVarint(protowire.AppendTag(u, moptUnknownTag, protowire.VarintType), 77)
	}
	m.ProtoReflect().SetUnknown(protoreflect.RawFields(u))
	return m
}

// addExtSpecs: called at the end of the pool's init (pool.go), so that the pool keeps its order.
func addExtSpecs() {
	str := func(s string) *string { return &s }
	add("mopt-empty", func() proto.Message { return &descriptorpb.MethodOptions{} })
	add("mopt-plain", func() proto.Message {
		return &descriptorpb.MethodOptions{Deprecated: proto.Bool(true), IdempotencyLevel: descriptorpb.MethodOptions_IDEMPOTENT.Enum(),
			UninterpretedOption: []*descriptorpb.UninterpretedOption{uoptFull()}}
	})
	add("mopt-ext-note", func() proto.Message {
		return withExt(&descriptorpb.MethodOptions{Deprecated: proto.Bool(false)}, extContent{note: str("hello")})
	})
	add("mopt-ext-bytes", func() proto.Message {
		return withExt(&descriptorpb.MethodOptions{}, extContent{blob: []byte{0xca, 0xfe}, blobs: [][]byte{{1, 2}, {3}, []byte("four")}})
	})
	add("mopt-ext-msg", func() proto.Message {
		return withExt(&descriptorpb.MethodOptions{IdempotencyLevel: descriptorpb.MethodOptions_IDEMPOTENT.Enum()}, extContent{opt: uoptFull()})
	})
	add("mopt-ext-full", func() proto.Message {
		return withExt(&descriptorpb.MethodOptions{Deprecated: proto.Bool(true), IdempotencyLevel: descriptorpb.MethodOptions_IDEMPOTENT.Enum(),
			UninterpretedOption: []*descriptorpb.UninterpretedOption{uoptFull(), {StringValue: []byte("second")}}},
			extContent{note: str("n"), blob: []byte("blob"), blobs: [][]byte{[]byte("b1"), []byte("b2")}, opt: uoptFull(), unk: true})
	})
	add("mopt-filler", func() proto.Message {
		return withExt(&descriptorpb.MethodOptions{Deprecated: proto.Bool(true),
			UninterpretedOption: []*descriptorpb.UninterpretedOption{{IdentifierValue: proto.String("FILLER"), StringValue: []byte("FILLER")}}},
			extContent{note: str("FILLER"), blob: []byte("FILLER"), blobs: [][]byte{[]byte("FILLER")},
				opt: &descriptorpb.UninterpretedOption{AggregateValue: proto.String("FILLER"), StringValue: []byte("FILLER")}, unk: true})
	})
}

// ------------------------------------------------------------ self check

// cfgCheck: every configuration gives, for every message of the pool, a dynamic
// message with the content of the generated form; the configurations recognise
// what they are meant to: plain nothing, er / mf / xf every extension field that
// is set; mf holds nested messages of linked-in types as generated structs, the
// others as dynamic messages (well-known types apart); two builds are
// dynamic.Equal; a plain and a configured build of a message with an extension
// set are not.
func cfgCheck() []string {
	extInit()
	var problems []string
	bad := func(f string, a ...interface{}) { problems = append(problems, fmt.Sprintf(f, a...)) }
	if n := len(extER.AllExtensionsForType(extTypeName)); n != 4 {
		bad("the extension registry holds %d extensions of %s, 4 are declared", n, extTypeName)
	}
	sawGenNested, sawDynNested := false, false
	for _, s := range pool {
		c1, _ := canon(s.build())
		extSet := 0
		if s.Type == extTypeName {
			for b := s.build().ProtoReflect().GetUnknown(); len(b) > 0; {
				num, _, n := protowire.ConsumeField(b)
				if n < 0 {
					bad("%s: malformed unknown fields", s.Name)
					break
				}
				if extByNum[int32(num)] != nil {
					extSet++
				}
				b = b[n:]
			}
		}
		plain := s.instance("dyn").(*dynamic.Message)
		for _, r := range cfgReps {
			d, ok := s.instance(r).(*dynamic.Message)
			if !ok {
				bad("%s[%s]: not a dynamic message", s.Name, r)
				continue
			}
			if c2, err := canon(d); err != nil || !bytes.Equal(c1, c2) {
				bad("%s[%s]: marshals differently from the generated form (%v): %x vs %x", s.Name, r, err, c2, c1)
			}
			if st, err := stamp(d); err != nil || !bytes.Equal(st, c1) {
				bad("%s[%s]: its own deterministic wire form differs from the one of the generated form (%v)", s.Name, r, err)
			}
			if d2 := s.instance(r).(*dynamic.Message); !dynamic.Equal(d, d2) {
				bad("%s[%s]: two builds are not dynamic.Equal", s.Name, r)
			}
			recognised := 0
			for num := range extByNum {
				if recognises(d, num) {
					recognised++
				}
			}
			for _, t := range d.GetUnknownFields() {
				if extByNum[t] != nil && s.Type == extTypeName {
					bad("%s[%s]: extension %d is carried as an unrecognised field", s.Name, r, t)
				}
			}
			if recognised != countDistinctExt(s) {
				bad("%s[%s]: recognises %d extension fields, the message has %d", s.Name, r, recognised, countDistinctExt(s))
			}
			if (extSet > 0) == dynamic.Equal(plain, d) {
				bad("%s[%s]: dynamic.Equal to the plain dynamic message: %v, with %d extension values set", s.Name, r, dynamic.Equal(plain, d), extSet)
			}
			if snap, err := dynSnapshot(d); err != nil || !dynamic.Equal(snap, d) {
				bad("%s[%s]: snapshot: %v", s.Name, r, err)
			}
			if s.Name == "trailer-full" {
				v, _ := d.TryGetMapFieldByName("metadata", "abc")
				_, isDynNested := v.(*dynamic.Message)
				if isDynNested == (repCfg(r) == "mf") {
					bad("%s[%s]: nested TrailerValues is held as %T", s.Name, r, v)
				}
				sawGenNested = sawGenNested || !isDynNested
				sawDynNested = sawDynNested || isDynNested
			}
		}
		for num := range extByNum {
			if recognises(plain, num) {
				bad("%s[dyn]: a plain dynamic message recognises extension %d", s.Name, num)
			}
		}
	}
	if !sawGenNested || !sawDynNested {
		bad("the message factory configuration was not seen to change the representation of nested messages")
	}
	return problems
}

// recognises: the message holds a value for the field and knows the field (HasFieldNumber alone is also true for an unrecognised field).
func recognises(dm *dynamic.Message, num int32) bool {
	if dm.FindFieldDescriptor(num) == nil || !dm.HasFieldNumber(int(num)) {
		return false
	}
	for _, t := range dm.GetUnknownFields() {
		if t == num {
			return false
		}
	}
	return true
}

func countDistinctExt(s *spec) int {
	if s.Type != extTypeName {
		return 0
	}
	seen := map[protowire.Number]bool{}
	for b := s.build().ProtoReflect().GetUnknown(); len(b) > 0; {
		num, _, n := protowire.ConsumeField(b)
		if n < 0 {
			break
		}
		if extByNum[int32(num)] != nil {
			seen[num] = true
		}
		b = b[n:]
	}
	return len(seen)
}

// ------------------------------------------------------------ the grammar along the configuration dimension

// cfgPairs: every (source, destination) representation pair over
// gen | dyn | dyn+er | dyn+mf | dyn+xf in which at least one side is a dynamic
// message in a configuration other than the default (21 pairs).
func cfgPairs() [][2]string {
	all := append([]string{"gen", "dyn"}, cfgReps...)
	var out [][2]string
	for _, sr := range all {
		for _, dr := range all {
			if repCfg(sr) == "" && repCfg(dr) == "" {
				continue
			}
			out = append(out, [2]string{sr, dr})
		}
	}
	return out
}

// enumerateCfg: the single-operation grammar again with the representation
// dimension widened by the configuration of the dynamic message, source and
// destination independently, crossed with the whole message pool: Clone, Copy
// into an empty and a pre-populated destination (the fillers of the tier),
// copies from and to non-proto pointers, copies into another message type
// (quick: from the last message of each type into the next type of the pool,
// thorough: from every message into every other type);
// then, for Clone and the copies between two dynamic messages of the same
// configuration, crossed with the provenance of the descriptor as well.
func enumerateCfg(a string, thorough bool) []kase {
	var out []kase
	pairs := cfgPairs()
	// 1. Clone
	for _, s := range pool {
		for _, r := range cfgReps {
			out = append(out, kase{Adapter: a, Op: "Clone", Src: s.Name, SrcRep: r})
		}
	}
	// 2. Copy into the same message type: empty, then pre-populated
	for _, fillPass := range []bool{false, true} {
		for _, s := range pool {
			for _, p := range pairs {
				if !fillPass {
					out = append(out, kase{Adapter: a, Op: "Copy", Src: s.Name, SrcRep: p[0], DstType: s.Type, DstRep: p[1]})
					continue
				}
				for _, f := range fillers(s.Type, s, thorough) {
					out = append(out, kase{Adapter: a, Op: "Copy", Src: s.Name, SrcRep: p[0], DstType: s.Type, DstRep: p[1], DstFill: f.Name})
				}
			}
		}
	}
	// 3. the same over a descriptor that is not the cached one (both sides over that one descriptor provenance)
	for _, s := range pool {
		for _, pv := range provKinds[1:] {
			for _, r := range cfgReps {
				rp := r + "@" + pv
				out = append(out, kase{Adapter: a, Op: "Clone", Src: s.Name, SrcRep: rp})
				out = append(out, kase{Adapter: a, Op: "Copy", Src: s.Name, SrcRep: rp, DstType: s.Type, DstRep: rp})
				for _, f := range fillers(s.Type, s, false) {
					out = append(out, kase{Adapter: a, Op: "Copy", Src: s.Name, SrcRep: rp, DstType: s.Type, DstRep: rp, DstFill: f.Name})
				}
			}
		}
	}
	// 4. non-proto pointers
	for _, s := range pool {
		for _, r := range cfgReps {
			for _, np := range npKinds {
				out = append(out, kase{Adapter: a, Op: "Copy", Src: s.Name, SrcRep: r, DstType: "np:" + np, DstRep: "np"})
				out = append(out, kase{Adapter: a, Op: "Copy", Src: "np:" + np, SrcRep: "np", DstType: s.Type, DstRep: r, DstFill: s.Name})
			}
		}
	}
	// 5. Copy into a different message type
	for _, s := range pool {
		if ss := specsOfType[s.Type]; !thorough && ss[len(ss)-1] != s {
			continue
		}
		for _, t := range typeOrder {
			if t == s.Type || (!thorough && t != otherType(s.Type)) {
				continue
			}
			fs := specsOfType[t]
			for _, p := range pairs {
				out = append(out, kase{Adapter: a, Op: "Copy", Src: s.Name, SrcRep: p[0], DstType: t, DstRep: p[1]})
				out = append(out, kase{Adapter: a, Op: "Copy", Src: s.Name, SrcRep: p[0], DstType: t, DstRep: p[1], DstFill: fs[len(fs)-1].Name})
			}
		}
	}
	return out
}

// seqCfgPool: the messages the configuration dimension is swept around the
// 2-step sequences with: the filler of the extendable type (every extension
// set), and of the sequence pool the messages with nested messages and maps.
func seqCfgPool(thorough bool) []*spec {
	names := []string{"mopt-filler", "trailer-filler", "msg-filler"}
	if thorough {
		names = append(names, "mopt-ext-full", "mopt-plain", "uopt-filler", "struct-filler", "trailer-unknown", "any-message")
	}
	var out []*spec
	for _, n := range names {
		if specByName[n] == nil {
			panic("configuration sequence pool names an unknown spec: " + n)
		}
		out = append(out, specByName[n])
	}
	return out
}

func seqCfgPoolNames(thorough bool) []string {
	var out []string
	for _, s := range seqCfgPool(thorough) {
		out = append(out, s.Name)
	}
	return out
}

// enumerateSeqCfg: the configuration dimension swept around the 2-step
// sequences, as enumerateSeqProv does for the provenance: for every pair of
// cfgPairs (configuration of the base object, configuration of every dynamic
// destination the steps make), every sequence of 2 operations with modifications
// in {nothing, everything in place} (the result of a Clone has the configuration
// of its source, so equal and different configurations meet inside one sequence).
func enumerateSeqCfg(a string, thorough bool, emit func(kase)) {
	for _, s := range seqCfgPool(thorough) {
		for _, p := range cfgPairs() {
			dstReps := []string{"gen", p[1]}
			if p[1] == "gen" {
				dstReps = []string{"gen", "dyn"}
			}
			for _, s1 := range stepVariantsReps(s, []bool{true}, coarseMods, true, dstReps) {
				for _, s2 := range stepVariantsReps(s, []bool{true, makesObject(s1)}, coarseMods, true, dstReps) {
					if k := (kase{Adapter: a, Op: "Seq", Src: s.Name, SrcRep: p[0], Seq: []step{s1, s2}}); k.hasCfg() {
						emit(k)
					}
				}
			}
		}
	}
}

// hasCfg: does the case use a dynamic message in a configuration other than the default anywhere?
func (k kase) hasCfg() bool {
	if repCfg(k.SrcRep) != "" || repCfg(k.DstRep) != "" {
		return true
	}
	for _, st := range k.Seq {
		if repCfg(st.DstRep) != "" {
			return true
		}
	}
	return false
}
