package main

import (
	"fmt"

	protov1 "github.com/golang/protobuf/proto"
	"github.com/jhump/protoreflect/desc"
	"github.com/jhump/protoreflect/dynamic"
	"google.golang.org/protobuf/encoding/protowire"
	"google.golang.org/protobuf/proto"
	"google.golang.org/protobuf/reflect/protoreflect"
	"google.golang.org/protobuf/types/descriptorpb"
	"google.golang.org/protobuf/types/known/anypb"
	"google.golang.org/protobuf/types/known/durationpb"
	"google.golang.org/protobuf/types/known/emptypb"
	"google.golang.org/protobuf/types/known/structpb"
	"google.golang.org/protobuf/types/known/wrapperspb"

	"github.com/fullstorydev/grpchan/grpchantesting"
	"github.com/fullstorydev/grpchan/httpgrpc"
)

// spec is one member of the message pool. build returns a fresh generated
// message every time (no memory shared between two results).
type spec struct {
	Name  string
	Type  string // full message name
	build func() proto.Message
}

var pool []*spec
var specByName = map[string]*spec{}
var typeOrder []string // distinct message types, in pool order
var specsOfType = map[string][]*spec{}

func add(name string, build func() proto.Message) {
	s := &spec{Name: name, build: build}
	s.Type = string(build().ProtoReflect().Descriptor().FullName())
	if specByName[name] != nil {
		panic("duplicate spec " + name)
	}
	pool = append(pool, s)
	specByName[name] = s
	if specsOfType[s.Type] == nil {
		typeOrder = append(typeOrder, s.Type)
	}
	specsOfType[s.Type] = append(specsOfType[s.Type], s)
}

// unknown fields in ascending tag order, distinct tags: varint, fixed32, bytes.
func unk(seed byte) []byte {
	var b []byte
	b = protowire.AppendTag(b, 100, protowire.VarintType)
	b = protowire.AppendVarint(b, uint64(seed)+6)
	b = protowire.AppendTag(b, 101, protowire.Fixed32Type)
	b = protowire.AppendFixed32(b, 0x01020300+uint32(seed))
	b = protowire.AppendTag(b, 102, protowire.BytesType)
	b = protowire.AppendBytes(b, []byte{seed, 'u', 'n', 'k'})
	return b
}

func withUnknown(m proto.Message, seed byte) proto.Message {
	m.ProtoReflect().SetUnknown(protoreflect.RawFields(unk(seed)))
	return m
}

func mustAny(m proto.Message) *anypb.Any {
	// deterministic so that the pool is the same in every run
	b, err := proto.MarshalOptions{Deterministic: true, AllowPartial: true}.Marshal(m)
	if err != nil {
		panic(err)
	}
	return &anypb.Any{TypeUrl: "type.googleapis.com/" + string(m.ProtoReflect().Descriptor().FullName()), Value: b}
}

func mustStruct(m map[string]interface{}) *structpb.Struct {
	s, err := structpb.NewStruct(m)
	if err != nil {
		panic(err)
	}
	return s
}

func msgFull() *grpchantesting.Message {
	return &grpchantesting.Message{
		Payload: []byte("payload-bytes"), Count: 9, Code: 3, DelayMillis: 250,
		Headers:  map[string][]byte{"h1": []byte("v1"), "h2": {0, 1, 2}},
		Trailers: map[string][]byte{"t1": []byte("tv")},
		ErrorDetails: []*anypb.Any{
			mustAny(wrapperspb.String("detail")),
			mustAny(&grpchantesting.Message{Payload: []byte("inner"), Headers: map[string][]byte{"ih": []byte("iv")}}),
		},
	}
}

func trailerFull() *httpgrpc.HttpTrailer {
	return &httpgrpc.HttpTrailer{
		Code: 123, Message: "foobar",
		Metadata: map[string]*httpgrpc.TrailerValues{
			"abc": {Values: []string{"a", "b", "c"}},
			"def": {Values: []string{"foo"}},
			"nil": {},
		},
		Details: []*anypb.Any{mustAny(durationpb.New(1500000000)), mustAny(wrapperspb.Bytes([]byte{9, 8}))},
	}
}

func uoptFull() *descriptorpb.UninterpretedOption {
	return &descriptorpb.UninterpretedOption{
		Name: []*descriptorpb.UninterpretedOption_NamePart{
			{NamePart: proto.String("foo"), IsExtension: proto.Bool(true)},
			{NamePart: proto.String("bar"), IsExtension: proto.Bool(false)},
		},
		IdentifierValue:  proto.String("ident"),
		PositiveIntValue: proto.Uint64(77),
		NegativeIntValue: proto.Int64(-5),
		DoubleValue:      proto.Float64(2.5),
		StringValue:      []byte("string-bytes"),
		AggregateValue:   proto.String("{a:1}"),
	}
}

func init() {
	// --- grpchantesting.Message: bytes, map<string,bytes>, repeated Any
	add("msg-empty", func() proto.Message { return &grpchantesting.Message{} })
	add("msg-scalars", func() proto.Message { return &grpchantesting.Message{Count: 9, Code: 3, DelayMillis: 7} })
	add("msg-payload", func() proto.Message { return &grpchantesting.Message{Payload: []byte{0xde, 0xad, 0xbe, 0xef}} })
	add("msg-headers", func() proto.Message {
		return &grpchantesting.Message{Headers: map[string][]byte{"a": []byte("1"), "b": []byte("22")}}
	})
	add("msg-both-maps", func() proto.Message {
		return &grpchantesting.Message{Headers: map[string][]byte{"a": []byte("1")}, Trailers: map[string][]byte{"z": []byte("26"), "": {1}}}
	})
	add("msg-empty-map-values", func() proto.Message {
		return &grpchantesting.Message{Headers: map[string][]byte{"empty": {}, "nil": nil}, Count: 1}
	})
	add("msg-details", func() proto.Message {
		return &grpchantesting.Message{ErrorDetails: []*anypb.Any{mustAny(wrapperspb.String("x")), {}, mustAny(msgFull())}}
	})
	add("msg-full", func() proto.Message { return msgFull() })
	add("msg-unknown", func() proto.Message { return withUnknown(&grpchantesting.Message{Count: 4}, 1) })
	add("msg-full-unknown", func() proto.Message { return withUnknown(msgFull(), 2) })
	add("msg-filler", func() proto.Message {
		return withUnknown(&grpchantesting.Message{
			Payload: []byte("FILLER"), Count: 1001, Code: 1002, DelayMillis: 1003,
			Headers:      map[string][]byte{"filler-h": []byte("fh")},
			Trailers:     map[string][]byte{"filler-t": []byte("ft")},
			ErrorDetails: []*anypb.Any{mustAny(wrapperspb.Int64(31337))},
		}, 50)
	})

	// --- httpgrpc.HttpTrailer: map<string,message>, string, repeated Any
	add("trailer-empty", func() proto.Message { return &httpgrpc.HttpTrailer{} })
	add("trailer-code-msg", func() proto.Message { return &httpgrpc.HttpTrailer{Code: 9, Message: "m"} })
	add("trailer-metadata", func() proto.Message {
		return &httpgrpc.HttpTrailer{Metadata: map[string]*httpgrpc.TrailerValues{"k": {Values: []string{"v1", "v2"}}}}
	})
	add("trailer-details", func() proto.Message {
		return &httpgrpc.HttpTrailer{Details: []*anypb.Any{mustAny(msgFull())}}
	})
	add("trailer-full", func() proto.Message { return trailerFull() })
	add("trailer-unknown", func() proto.Message { return withUnknown(trailerFull(), 3) })
	add("trailer-filler", func() proto.Message {
		return withUnknown(&httpgrpc.HttpTrailer{Code: 2001, Message: "FILLER",
			Metadata: map[string]*httpgrpc.TrailerValues{"filler": {Values: []string{"fv"}}},
			Details:  []*anypb.Any{mustAny(wrapperspb.Bool(true))}}, 51)
	})

	// --- structpb
	add("struct-empty", func() proto.Message { return &structpb.Struct{} })
	add("struct-flat", func() proto.Message {
		return mustStruct(map[string]interface{}{"n": 1.5, "s": "str", "b": true, "z": nil})
	})
	add("struct-nested", func() proto.Message {
		return mustStruct(map[string]interface{}{"o": map[string]interface{}{"l": []interface{}{1.0, "two", map[string]interface{}{"deep": false}}}, "k": "v"})
	})
	add("struct-filler", func() proto.Message {
		return withUnknown(mustStruct(map[string]interface{}{"FILLER": []interface{}{"f"}}), 52)
	})
	add("value-null", func() proto.Message { return structpb.NewNullValue() })
	add("value-number", func() proto.Message { return structpb.NewNumberValue(3.25) })
	add("value-string", func() proto.Message { return structpb.NewStringValue("sv") })
	add("value-list", func() proto.Message {
		return structpb.NewListValue(&structpb.ListValue{Values: []*structpb.Value{structpb.NewBoolValue(true), structpb.NewStringValue("e")}})
	})
	add("value-struct", func() proto.Message {
		return structpb.NewStructValue(mustStruct(map[string]interface{}{"in": []interface{}{"x"}}))
	})
	add("value-unset", func() proto.Message { return &structpb.Value{} })
	add("listvalue-empty", func() proto.Message { return &structpb.ListValue{} })
	add("listvalue-mixed", func() proto.Message {
		return &structpb.ListValue{Values: []*structpb.Value{structpb.NewNumberValue(1), structpb.NewNullValue(),
			structpb.NewStructValue(mustStruct(map[string]interface{}{"a": "b"}))}}
	})

	// --- Any holding each
	add("any-empty", func() proto.Message { return &anypb.Any{} })
	add("any-message", func() proto.Message { return mustAny(msgFull()) })
	add("any-trailer", func() proto.Message { return mustAny(trailerFull()) })
	add("any-struct", func() proto.Message {
		return mustAny(mustStruct(map[string]interface{}{"only": "one"}))
	})
	add("any-any", func() proto.Message { return mustAny(mustAny(wrapperspb.Bytes([]byte("deep")))) })
	add("any-duration", func() proto.Message { return mustAny(durationpb.New(-3500000000)) })
	add("any-uopt", func() proto.Message { return mustAny(uoptFull()) })
	add("any-unresolvable", func() proto.Message {
		return withUnknown(&anypb.Any{TypeUrl: "example.test/no.such.Type", Value: []byte{0xff, 0xff, 0x01}}, 4)
	})

	// --- wrappers
	add("bytesvalue", func() proto.Message { return wrapperspb.Bytes([]byte("wrapped")) })
	add("bytesvalue-empty", func() proto.Message { return wrapperspb.Bytes(nil) })
	add("bytesvalue-filler", func() proto.Message { return withUnknown(wrapperspb.Bytes([]byte("FILLER")), 53) })
	add("stringvalue", func() proto.Message { return wrapperspb.String("str") })
	add("int64value", func() proto.Message { return wrapperspb.Int64(-1 << 62) })
	add("boolvalue", func() proto.Message { return wrapperspb.Bool(true) })
	add("doublevalue", func() proto.Message { return wrapperspb.Double(-0.5) })

	// --- duration
	add("duration", func() proto.Message { return &durationpb.Duration{Seconds: 12, Nanos: 345} })
	add("duration-negative", func() proto.Message { return &durationpb.Duration{Seconds: -1, Nanos: -999999999} })

	// --- descriptorpb.UninterpretedOption: proto2, optional scalars, optional bytes, repeated message with required fields
	add("uopt-empty", func() proto.Message { return &descriptorpb.UninterpretedOption{} })
	add("uopt-explicit-zero", func() proto.Message {
		return &descriptorpb.UninterpretedOption{PositiveIntValue: proto.Uint64(0), StringValue: []byte{}, IdentifierValue: proto.String("")}
	})
	add("uopt-full", func() proto.Message { return uoptFull() })
	add("uopt-unknown", func() proto.Message { return withUnknown(uoptFull(), 5) })
	add("uopt-filler", func() proto.Message {
		return withUnknown(&descriptorpb.UninterpretedOption{
			Name:            []*descriptorpb.UninterpretedOption_NamePart{{NamePart: proto.String("FILLER"), IsExtension: proto.Bool(true)}},
			IdentifierValue: proto.String("FILLER"), StringValue: []byte("FILLER"), DoubleValue: proto.Float64(99)}, 54)
	})

	// --- only unknown fields
	add("empty", func() proto.Message { return &emptypb.Empty{} })
	add("empty-unknown", func() proto.Message { return withUnknown(&emptypb.Empty{}, 6) })

	// --- descriptorpb.MethodOptions: an extendable type, with extension fields set (cfg.go)
	addExtSpecs()
}

// filler returns the specs used to pre-populate a destination of type typ when
// copying src: quick = the dedicated filler of the type (or, when src is that
// filler or the type has none, the last other spec); thorough = every other spec.
func fillers(typ string, src *spec, thorough bool) []*spec {
	var others []*spec
	var dedicated *spec
	for _, s := range specsOfType[typ] {
		if s == src {
			continue
		}
		others = append(others, s)
		if len(s.Name) > 7 && s.Name[len(s.Name)-7:] == "-filler" {
			dedicated = s
		}
	}
	if thorough || len(others) == 0 {
		return others
	}
	if dedicated != nil {
		return []*spec{dedicated}
	}
	return others[len(others)-1:]
}

var mdCache = map[string]*desc.MessageDescriptor{}

func descFor(gen proto.Message) *desc.MessageDescriptor {
	name := string(gen.ProtoReflect().Descriptor().FullName())
	if md := mdCache[name]; md != nil {
		return md
	}
	md, err := desc.LoadMessageDescriptorForMessage(protov1.MessageV1(gen))
	if err != nil {
		panic(fmt.Sprintf("descriptor for %s: %v", name, err))
	}
	mdCache[name] = md
	return md
}

// asDyn builds an independent *dynamic.Message with the content of gen (through
// the wire form, so that nothing is shared with gen).
func asDyn(gen proto.Message) *dynamic.Message {
	b, err := proto.MarshalOptions{AllowPartial: true, Deterministic: true}.Marshal(gen)
	if err != nil {
		panic(err)
	}
	dm := dynamic.NewMessage(descFor(gen))
	if err := dm.Unmarshal(b); err != nil {
		panic(fmt.Sprintf("dynamic unmarshal of %T: %v", gen, err))
	}
	return dm
}

// instance builds the spec in the requested representation: "gen", or "dyn" /
// "dyn@<provenance of the descriptor>" (prov.go).
func (s *spec) instance(rep string) interface{} {
	g := s.build()
	if isDyn(rep) {
		return asDynPC(g, repProv(rep), repCfg(rep))
	}
	return g
}
