package main

// The name dimension (kind "names").
//
// In every other kind of case the identifiers of a descriptor come from a fixed
// vocabulary (services AlphaSvc / BetaSvc / GammaSvc, methods GetUnaryA /
// SrvStreamB / ..., packages p / a.b.c) in which no name is equal to, a prefix of,
// a suffix of or contained in another one. Here the proto package, the service
// names and the method names are drawn from one small alphabet of identifiers that
// are related to each other in every such way (equal, proper prefix, proper
// suffix, inside, the same up to case and underscores), so that a generator that
// derives one part of its output from a string holding several names (a
// fully-qualified name, a Go identifier, a map keyed by a short name) instead of
// from the descriptor of the thing itself is given inputs on which the two differ.
// The oracle is the one of every other case: path "/<full service name>/<method>"
// from the model, call shape, stream index, registration function, and the
// type-check against the protoc-gen-go/-go-grpc declarations.

import (
	"fmt"
	"regexp"
	"sort"
	"strings"
)

// namedSvc: one service of a "names" case.
type namedSvc struct {
	Name    string   `json:"name"`    // proto name
	Methods []string `json:"methods"` // "<kind>:<proto method name>", declaration order
}

const (
	namesFile      = "names/svc.proto"
	namesGoPackage = "example.com/gen/names;namespb"
)

// identAlphabet: the identifiers of the quick tier. Relative to "Echo" they are: the name itself,
// the name as a proper prefix, as a proper suffix, twice, a one-letter prefix of it, an unrelated
// name, the same letters in lower case, and a snake_case name that has the lower-case form as its
// first word (Go name EchoAll, as the second entry).
var identAlphabet = []string{"Echo", "EchoAll", "AllEcho", "EchoEcho", "E", "Get", "echo", "echo_all"}

// identAlphabetThorough adds: a digit suffix, all capitals, lowerCamel, a snake_case name with the
// word last.
var identAlphabetThorough = append(append([]string{}, identAlphabet...), "Echo2", "ECHO", "echoAll", "all_echo")

// pkgAlphabet: proto packages: none; unrelated; the lower-case and the capitalised name as the
// whole package, as the last component (i.e. following a dot), as the first of two, as a proper
// prefix of a middle component, and twice.
var pkgAlphabet = []string{"", "p", "echo", "Echo", "a.Echo", "Echo.b", "a.EchoAll.b", "Echo.Echo"}

var pkgAlphabetThorough = append(append([]string{}, pkgAlphabet...), "E", "a.E", "echo.Echo.b", "a.b.Echo", "get", "Get.Echo")

// the smaller sets the sibling grids of the quick tier are swept around
var (
	pkgCore   = []string{"p", "Echo", "a.Echo"}
	identCore = []string{"Echo", "EchoAll", "Get"}
)

// an identifier of this dimension is CamelCase (letters and digits) or lower snake_case (letters
// only): the two styles for which protoc-gen-go's GoCamelCase is goCamel
var identStyle = regexp.MustCompile(`^(?:[A-Za-z][A-Za-z0-9]*|[a-z]+(?:_[a-z]+)*)$`)

func namedMethod(kind, name string) string { return kind + ":" + name }

func parseNamedMethod(s string) (kind, name string, err error) {
	k, n, ok := strings.Cut(s, ":")
	if !ok || kindWord[k][0] == "" || !identStyle.MatchString(n) {
		return "", "", fmt.Errorf("bad method %q (want <U|SS|CS|BD>:<identifier>)", s)
	}
	return k, n, nil
}

func buildNamesModel(c caseSpec) (*requestModel, error) {
	if len(c.Named) == 0 {
		return nil, fmt.Errorf("a names case needs at least one service")
	}
	if c.Pkg != "" {
		for _, comp := range strings.Split(c.Pkg, ".") {
			if !identStyle.MatchString(comp) {
				return nil, fmt.Errorf("bad package component %q", comp)
			}
		}
	}
	rm := &requestModel{Param: c.Param}
	main := &fileModel{Name: namesFile, ProtoPkg: c.Pkg, GoPackage: namesGoPackage, Generate: true}
	req := &msgModel{File: main, Proto: qual(c.Pkg, "Req"), GoName: "Req"}
	resp := &msgModel{File: main, Proto: qual(c.Pkg, "Resp"), GoName: "Resp"}
	main.Msgs = []*msgModel{req, resp}
	for _, ns := range c.Named {
		if !identStyle.MatchString(ns.Name) {
			return nil, fmt.Errorf("bad service name %q", ns.Name)
		}
		s := &svcModel{File: main, Name: ns.Name, FullName: qual(c.Pkg, ns.Name), GoName: goCamel(ns.Name)}
		for _, sp := range ns.Methods {
			k, n, err := parseNamedMethod(sp)
			if err != nil {
				return nil, err
			}
			s.Methods = append(s.Methods, &methodModel{Name: n, GoName: goCamel(n), Kind: k, Req: req, Resp: resp})
		}
		main.Svcs = append(main.Svcs, s)
	}
	rm.Files = []*fileModel{main}
	main.proto = fileProto(main, rm)
	return rm, nil
}

// goDeclsCollide: the Go code protoc-gen-go, protoc-gen-go-grpc (v1.1) and this plugin emit for the
// file would declare one identifier twice (two services or two methods with one Go name, the
// client struct of service EchoEcho and the stream struct of Echo.Echo, ...), or the descriptor
// declares one proto name twice. No generator produces compilable code for such a file; it is not
// a member of the grammar.
func goDeclsCollide(f *fileModel) bool {
	seen := map[string]bool{}
	dup := false
	decl := func(names ...string) {
		for _, n := range names {
			if seen[n] {
				dup = true
			}
			seen[n] = true
		}
	}
	for _, m := range f.Msgs {
		decl(m.GoName)
	}
	protoNames := map[string]bool{}
	for _, s := range f.Svcs {
		if protoNames[s.Name] {
			return true
		}
		protoNames[s.Name] = true
		g, lg := s.GoName, unexport(s.GoName)
		decl(g+"Client", lg+"Client", "New"+g+"Client", g+"Server", "Unimplemented"+g+"Server", "Unsafe"+g+"Server",
			"Register"+g+"Server", g+"_ServiceDesc", "_"+g+"_serviceDesc",
			"RegisterHandler"+g, lg+"ChannelClient", "New"+g+"ChannelClient")
		mn := map[string]bool{}
		for _, m := range s.Methods {
			if mn[m.Name] {
				return true
			}
			mn[m.Name] = true
			decl("_" + g + "_" + m.GoName + "_Handler")
			if m.Kind != kU {
				decl(g+"_"+m.GoName+"Client", lg+m.GoName+"Client", g+"_"+m.GoName+"Server", lg+m.GoName+"Server")
			}
		}
	}
	return dup
}

// ---- relations between names (fingerprints, coverage) ---------------------------

func foldName(s string) string { return strings.ToLower(strings.ReplaceAll(s, "_", "")) }

func exactRel(a, x string) string {
	switch {
	case a == x:
		return "="
	case strings.HasPrefix(x, a):
		return "prefix-of"
	case strings.HasSuffix(x, a):
		return "suffix-of"
	case strings.Contains(x, a):
		return "inside"
	case strings.HasPrefix(a, x):
		return "starts-with"
	case strings.HasSuffix(a, x):
		return "ends-with"
	case strings.Contains(a, x):
		return "contains"
	}
	return ""
}

// nameRel: how name a relates to name x: "=" (equal), prefix-of / suffix-of / inside (a occurs in
// x at the start / at the end / elsewhere), starts-with / ends-with / contains (x occurs in a), the
// same with "fold:" when it holds only up to case and underscores, "-" otherwise.
func nameRel(a, x string) string {
	if r := exactRel(a, x); r != "" {
		return r
	}
	if r := exactRel(foldName(a), foldName(x)); r != "" {
		return "fold:" + r
	}
	return "-"
}

var relRank = func() map[string]int {
	m := map[string]int{}
	i := 0
	for _, pre := range []string{"", "fold:"} {
		for _, r := range []string{"=", "prefix-of", "suffix-of", "inside", "starts-with", "ends-with", "contains"} {
			m[pre+r] = i
			i++
		}
	}
	m["-"] = i
	return m
}()

// strongestRel: the strongest relation of a to one of xs; among equally strong ones the last.
func strongestRel(a string, xs []string) (string, int) {
	best, bi := "-", -1
	for i, x := range xs {
		if r := nameRel(a, x); r != "-" && relRank[r] <= relRank[best] {
			best, bi = r, i
		}
	}
	return best, bi
}

// pkgRel: relation of a name to the components of the proto package; the component is located as
// the first or a later one (a later one follows a dot in every fully-qualified name).
func pkgRel(a, pkg string) string {
	if pkg == "" {
		return "no-package"
	}
	r, i := strongestRel(a, strings.Split(pkg, "."))
	switch {
	case i == 0:
		r += "@first"
	case i > 0:
		r += "@later"
	}
	return r
}

// allNameRelations: how the names around one method of a names case relate.
func allNameRelations(s *svcModel, m *methodModel) [][2]string {
	var sibM, sibS []string
	for _, x := range s.Methods {
		if x != m {
			sibM = append(sibM, x.Name)
		}
	}
	for _, x := range s.File.Svcs {
		if x != s {
			sibS = append(sibS, x.Name)
		}
	}
	mm, _ := strongestRel(m.Name, sibM)
	ss, _ := strongestRel(s.Name, sibS)
	return [][2]string{
		{"method~service", nameRel(m.Name, s.Name)},
		{"method~package", pkgRel(m.Name, s.File.ProtoPkg)},
		{"method~sibling-method", mm},
		{"service~package", pkgRel(s.Name, s.File.ProtoPkg)},
		{"service~sibling-service", ss},
	}
}

// nameRelations: the fingerprint component of a finding about one method of a names case: the
// strongest relation among the names around it (method and service, method and package, method
// and the other method, service and package, service and the other service; in that order among
// equally strong ones). A defect that depends on how two names relate then has one fingerprint per
// relation that shows it, whichever identifiers of the alphabet do.
func nameRelations(s *svcModel, m *methodModel) string {
	best, br := "", "-"
	for _, pr := range allNameRelations(s, m) {
		r, _, _ := strings.Cut(pr[1], "@")
		if rk, ok := relRank[r]; ok && rk < relRank[br] {
			best, br = pr[0]+":"+pr[1], r
		}
	}
	if best == "" {
		return "names-unrelated"
	}
	return best
}

// nameRelationsText: all of them (messages).
func nameRelationsText(s *svcModel, m *methodModel) string {
	var out []string
	for _, pr := range allNameRelations(s, m) {
		out = append(out, pr[0]+":"+pr[1])
	}
	return strings.Join(out, " ")
}

// namesRelationSet: the method~service and the method~package relations of a case (coverage).
func namesRelationSet(c caseSpec, into map[string]bool) {
	for _, ns := range c.Named {
		for _, sp := range ns.Methods {
			if _, n, err := parseNamedMethod(sp); err == nil {
				into["method~service:"+nameRel(n, ns.Name)] = true
				into["method~package:"+pkgRel(n, c.Pkg)] = true
			}
		}
	}
}

// sameButSeparators: two method paths made of the same names in the same order, the dots and
// slashes between them placed differently.
func sameButSeparators(got, want string) bool {
	return got != want && strings.HasPrefix(got, "/") && strings.ReplaceAll(got, "/", ".") == strings.ReplaceAll(want, "/", ".")
}

// ---- enumeration -----------------------------------------------------------------

// enumerateNames adds the name dimension. With identifier alphabet N, package alphabet P:
//
//	quick (|N| = 8, |P| = 8):
//	  A one service with one method: P x N (service) x N (method) x the 4 method kinds, legacy_stubs;
//	  B one service with two methods: {p, Echo, a.Echo} x {Echo, EchoAll, Get} (service) x every ordered
//	    pair of distinct identifiers of N (methods) x the kind pairs (U,U), (SS,BD), (BD,U), legacy_stubs;
//	  C two services with one method each: {p, Echo, a.Echo} x every ordered pair of distinct identifiers of
//	    N (services) x {Echo, EchoAll, Get} (the method of both) x {U, BD} x {legacy_stubs,
//	    legacy_stubs+legacy_desc_names}, and, without options, x {Echo} x {U}.
//	thorough (|N| = 12, |P| = 14): A, and A over the quick alphabets for kind U under
//	  legacy_stubs+legacy_desc_names and without options; B with every package of P and the kind pairs
//	  (U,U), (SS,BD); C with every package of P under legacy_stubs, and x {Echo} x {BD with
//	  legacy_stubs+legacy_desc_names, U without options}.
//
// Files for which the standard generators would declare one Go identifier twice are not members.
func enumerateNames(tier string, add func(caseSpec)) {
	thorough := tier == "thorough"
	N, P, pB := identAlphabet, pkgAlphabet, pkgCore
	kindPairs := [][2]string{{kU, kU}, {kSS, kBD}, {kBD, kU}}
	if thorough {
		N, P, pB = identAlphabetThorough, pkgAlphabetThorough, pkgAlphabetThorough
		kindPairs = kindPairs[:2]
	}
	legacy := optSet{"legacy", "legacy_stubs"}
	descnames := optSet{"legacy+descnames", "legacy_stubs,legacy_desc_names"}
	none := optSet{"none", ""}
	mk := func(pkg string, o optSet, svcs ...namedSvc) {
		c := caseSpec{Kind: "names", Named: svcs, Pkg: pkg, Req: "L", Resp: "L", OptKey: o.Key, Param: o.Param}
		rm, err := buildNamesModel(c)
		if err != nil || goDeclsCollide(rm.Files[0]) {
			return
		}
		add(c)
	}
	// A
	for _, pkg := range P {
		for _, s := range N {
			for _, m := range N {
				for _, k := range allKinds {
					mk(pkg, legacy, namedSvc{s, []string{namedMethod(k, m)}})
				}
			}
		}
	}
	if thorough {
		for _, pkg := range pkgAlphabet {
			for _, s := range identAlphabet {
				for _, m := range identAlphabet {
					mk(pkg, descnames, namedSvc{s, []string{namedMethod(kU, m)}})
					mk(pkg, none, namedSvc{s, []string{namedMethod(kU, m)}})
				}
			}
		}
	}
	// B
	for _, pkg := range pB {
		for _, s := range identCore {
			for _, m1 := range N {
				for _, m2 := range N {
					if m1 == m2 {
						continue
					}
					for _, kp := range kindPairs {
						mk(pkg, legacy, namedSvc{s, []string{namedMethod(kp[0], m1), namedMethod(kp[1], m2)}})
					}
				}
			}
		}
	}
	// C
	two := func(pkg string, o optSet, s1, s2, k, m string) {
		mk(pkg, o, namedSvc{s1, []string{namedMethod(k, m)}}, namedSvc{s2, []string{namedMethod(k, m)}})
	}
	for _, pkg := range pB {
		for _, s1 := range N {
			for _, s2 := range N {
				if s1 == s2 {
					continue
				}
				for _, m := range identCore {
					for _, k := range []string{kU, kBD} {
						two(pkg, legacy, s1, s2, k, m)
						if !thorough {
							two(pkg, descnames, s1, s2, k, m)
						}
					}
				}
				two(pkg, descnames, s1, s2, kBD, "Echo")
				two(pkg, none, s1, s2, kU, "Echo")
			}
		}
	}
}

func sortedKeys(m map[string]bool) []string {
	var out []string
	for k := range m {
		out = append(out, k)
	}
	sort.Strings(out)
	return out
}
