package main

// Synthesis of CodeGeneratorRequests from a caseSpec and execution of the
// real plugin binary built from the tree under check.

import (
	"bytes"
	"context"
	"fmt"
	"os"
	"os/exec"
	"path/filepath"
	"strings"
	"time"

	"google.golang.org/protobuf/proto"
	"google.golang.org/protobuf/reflect/protodesc"
	"google.golang.org/protobuf/types/descriptorpb"
	"google.golang.org/protobuf/types/known/emptypb"
	"google.golang.org/protobuf/types/pluginpb"

	"verif/seq/common"
)

// Method kinds.
const (
	kU  = "U"  // unary
	kSS = "SS" // server-streaming
	kCS = "CS" // client-streaming
	kBD = "BD" // bidi
)

var allKinds = []string{kU, kSS, kCS, kBD}

// caseSpec is one member of the grammar; it is also the replay object.
type caseSpec struct {
	Kind     string     `json:"kind"`                  // gen | files | mtypes | names | invalid-opt | regen
	Services [][]string `json:"services,omitempty"`    // per service of the main file: method kinds in declaration order
	Naming   string     `json:"naming,omitempty"`      // camel | snake
	Pkg      string     `json:"pkg"`                   // proto package: p | a.b.c | "" (none)
	Req      string     `json:"req,omitempty"`         // L local | N nested local | I imported | E google.protobuf.Empty
	Resp     string     `json:"resp,omitempty"`        //
	Dep      string     `json:"dep,omitempty"`         // where the imported file lives: other | same | grpcname | ctxname
	DepSvc   []string   `json:"dep_service,omitempty"` // when set the imported file declares a service too and is generated in the same request
	Order    string     `json:"order,omitempty"`       // order of file_to_generate: "" = dependency first (topological), "dependent-first" = the file using the other's types is listed first
	OptKey   string     `json:"opt_key"`               // name of the option set (fingerprints)
	Param    string     `json:"param"`                 // the plugin parameter string

	// the proto path dimension: path of the main file / of the imported file when it is not the
	// default one (<package dir>/svc.proto, <package dir>/dep/dep.proto or .../types.proto)
	MainPath string `json:"main_path,omitempty"`
	DepPath  string `json:"dep_path,omitempty"`

	// kind "files": one request over a sequence of files, in file_to_generate order. Each entry is
	// "S" (declares a service over its own messages), "M" (messages only) or "I<t>" (declares a
	// service whose request/response types are imported from file number t (1-based) of this
	// list, or from a file of the request that is not generated when t is "x")
	FileKinds []string `json:"file_kinds,omitempty"`
	Layout    string   `json:"layout,omitempty"` // one-pkg: every file has the same go_package | pkg-per-file

	// kind "mtypes": per service of the main file, per method "<kind>:<request>><response>", the two
	// messages being letters of msgAlphabet (mtypes.go): every method has its own pair of types
	Methods [][]string `json:"methods,omitempty"`

	// kind "names": the services of the main file with their own names and the names of their methods
	// (names.go); Pkg is then any dotted sequence of identifiers
	Named []namedSvc `json:"named,omitempty"`

	// set for members of a fully crossed option group (not part of the replay object): the case
	// without its options, and the option set as a mask over optAtoms
	xcross bool
	xbase  string
	xmask  int
}

func (c caseSpec) typesKey() string {
	if c.Kind == "mtypes" {
		return "per-method"
	}
	k := c.Req + c.Resp
	if c.Dep != "" {
		k += "/" + c.Dep
	}
	return k
}

func (c caseSpec) shapeKey() string {
	var s []string
	for _, svc := range c.Services {
		s = append(s, strings.Join(svc, "."))
	}
	k := strings.Join(s, "+")
	if c.DepSvc != nil {
		k += "&dep:" + strings.Join(c.DepSvc, ".")
	}
	if c.Order != "" {
		k += "&order:" + c.Order
	}
	if c.MainPath != "" {
		k += "&main:" + c.MainPath
	}
	if c.DepPath != "" {
		k += "&imported:" + c.DepPath
	}
	if c.Methods != nil {
		var ms []string
		for _, svc := range c.Methods {
			ms = append(ms, strings.Join(svc, ","))
		}
		k += "methods:" + strings.Join(ms, "+")
	}
	if c.Named != nil {
		var ss []string
		for _, ns := range c.Named {
			ss = append(ss, ns.Name+"{"+strings.Join(ns.Methods, ",")+"}")
		}
		k += "named:" + strings.Join(ss, "+")
	}
	if c.FileKinds != nil {
		k += "files:" + strings.Join(c.FileKinds, ",") + "&layout:" + c.Layout
	}
	return k
}

// mainPath / depPath: the proto paths of the two files of a "gen" case.
func (c caseSpec) mainPath() string {
	if c.MainPath != "" {
		return c.MainPath
	}
	return mainFileName(c.Pkg)
}

func (c caseSpec) depPath() string {
	if c.DepPath != "" {
		return c.DepPath
	}
	d := c.Dep
	if d == "" {
		d = "other"
	}
	return depFileName(c.Pkg, d)
}

func (c caseSpec) key() string {
	return fmt.Sprintf("%s|%s|%s|pkg=%s|types=%s|opt=%s", c.Kind, c.shapeKey(), c.Naming, c.Pkg, c.typesKey(), c.Param)
}

// ---- the model of the input: files, messages, services -------------------

type msgModel struct {
	File   *fileModel
	Proto  string // fully-qualified proto name without leading dot
	GoName string // Go identifier protoc-gen-go gives it
}

type methodModel struct {
	Name      string // proto name
	GoName    string
	Kind      string
	Req, Resp *msgModel
}

type svcModel struct {
	File     *fileModel
	Name     string // proto name
	FullName string
	GoName   string
	Methods  []*methodModel
}

type fileModel struct {
	Name      string // proto file name
	ProtoPkg  string
	GoPackage string // go_package option
	Generate  bool
	Msgs      []*msgModel
	Svcs      []*svcModel
	External  bool // real Go package (emptypb): resolved by the real importer
	proto     *descriptorpb.FileDescriptorProto
}

type requestModel struct {
	Files []*fileModel // dependency order
	Param string
	Order string
	Gen   []string // when set: file_to_generate, in this order
}

// genNames: file_to_generate of the request, in order.
func (rm *requestModel) genNames() []string {
	if rm.Gen != nil {
		return rm.Gen
	}
	var out []string
	for _, f := range rm.Files {
		if f.Generate {
			if rm.Order == "dependent-first" {
				out = append([]string{f.Name}, out...)
			} else {
				out = append(out, f.Name)
			}
		}
	}
	return out
}

func (rm *requestModel) file(name string) *fileModel {
	for _, f := range rm.Files {
		if f.Name == name {
			return f
		}
	}
	return nil
}

// kindOfFile: S = declares services over its own messages, I = declares services that use
// messages of another file, M = declares no service.
func kindOfFile(f *fileModel) string {
	if len(f.Svcs) == 0 {
		return "M"
	}
	for _, s := range f.Svcs {
		for _, m := range s.Methods {
			if (m.Req.File != f && !m.Req.File.External) || (m.Resp.File != f && !m.Resp.File.External) {
				return "I"
			}
		}
	}
	return "S"
}

func pkgDir(pkg string) string {
	if pkg == "" {
		return "nopkg"
	}
	return strings.ReplaceAll(pkg, ".", "/")
}

func qual(pkg, name string) string {
	if pkg == "" {
		return name
	}
	return pkg + "." + name
}

func mainFileName(pkg string) string { return pkgDir(pkg) + "/svc.proto" }

func depFileName(pkg, dep string) string {
	if dep == "same" {
		return pkgDir(pkg) + "/types.proto"
	}
	return pkgDir(pkg) + "/dep/dep.proto"
}

// goBase is the Go import path of the main file's package. Its last element is
// never an identifier the stub templates (or protoc-gen-go-grpc's) use for a
// receiver, parameter or local ("c", "in", "out", "x", ...): a package imported
// under such a name breaks the standard generators in the same way.
func goBase(pkg string) string {
	switch pkg {
	case "":
		return "example.com/gen/nopkg"
	case "a.b.c":
		return "example.com/gen/abc"
	}
	return "example.com/gen/" + pkgDir(pkg)
}

func mainGoPackage(pkg string) string {
	if pkg == "p" {
		return goBase(pkg) + ";ppb" // explicit package name
	}
	return goBase(pkg) // name = last path element ("abc", "nopkg")
}

var svcNames = map[string][]string{
	"camel": {"AlphaSvc", "BetaSvc", "GammaSvc"},
	"snake": {"alpha_svc", "beta_svc", "gamma_svc"},
}

var kindWord = map[string][2]string{
	kU:  {"GetUnary", "get_unary"},
	kSS: {"SrvStream", "srv_stream"},
	kCS: {"CliStream", "cli_stream"},
	kBD: {"BidiStream", "bidi_stream"},
}

func methodName(naming, kind string, idx int) (proto, goName string) {
	letter := string(rune('A' + idx))
	w := kindWord[kind]
	goName = w[0] + letter
	if naming == "snake" {
		return w[1] + "_" + strings.ToLower(letter), goName
	}
	return goName, goName
}

// goCamel: the service names used here are either already CamelCase or plain
// lower snake_case (letters only), for which protoc-gen-go's GoCamelCase is
// "capitalise each word, drop the underscores".
func goCamel(s string) string {
	parts := strings.Split(s, "_")
	for i, p := range parts {
		if p != "" {
			parts[i] = strings.ToUpper(p[:1]) + p[1:]
		}
	}
	return strings.Join(parts, "")
}

func buildModel(c caseSpec) (*requestModel, error) {
	if c.Kind == "files" {
		return buildFilesModel(c)
	}
	if c.Kind == "mtypes" {
		return buildMTypesModel(c)
	}
	if c.Kind == "names" {
		return buildNamesModel(c)
	}
	rm := &requestModel{Param: c.Param, Order: c.Order}
	if c.Order != "" && c.Order != "dependent-first" {
		return nil, fmt.Errorf("unknown file order %q", c.Order)
	}
	main := &fileModel{Name: c.mainPath(), ProtoPkg: c.Pkg, GoPackage: mainGoPackage(c.Pkg), Generate: true}
	local := map[string]*msgModel{}
	addMsg := func(f *fileModel, protoName, goName string) *msgModel {
		m := &msgModel{File: f, Proto: qual(f.ProtoPkg, protoName), GoName: goName}
		f.Msgs = append(f.Msgs, m)
		return m
	}
	local["LReq"] = addMsg(main, "Req", "Req")
	local["LResp"] = addMsg(main, "Resp", "Resp")
	local["NReq"] = addMsg(main, "Outer.InReq", "Outer_InReq")
	local["NResp"] = addMsg(main, "Outer.InResp", "Outer_InResp")

	needDep := c.Req == "I" || c.Resp == "I" || c.DepSvc != nil
	needEmpty := c.Req == "E" || c.Resp == "E"
	var dep, empty *fileModel
	if needDep {
		if c.Dep == "" {
			return nil, fmt.Errorf("case uses imported types but names no dep placement")
		}
		dep = &fileModel{Name: c.depPath()}
		if dep.Name == main.Name {
			return nil, fmt.Errorf("the main file and the imported file have the same path %q", dep.Name)
		}
		switch c.Dep {
		case "same":
			dep.ProtoPkg, dep.GoPackage = c.Pkg, mainGoPackage(c.Pkg)
		case "other":
			dep.ProtoPkg, dep.GoPackage = qual(c.Pkg, "dep"), goBase(c.Pkg)+"/dep;deppb"
		case "grpcname":
			dep.ProtoPkg, dep.GoPackage = qual(c.Pkg, "dep"), goBase(c.Pkg)+"/grpc"
		case "ctxname":
			dep.ProtoPkg, dep.GoPackage = qual(c.Pkg, "dep"), goBase(c.Pkg)+"/context"
		default:
			return nil, fmt.Errorf("unknown dep placement %q", c.Dep)
		}
		local["IReq"] = addMsg(dep, "DReq", "DReq")
		local["IResp"] = addMsg(dep, "DResp", "DResp")
		rm.Files = append(rm.Files, dep)
	}
	if needEmpty {
		empty = &fileModel{Name: "google/protobuf/empty.proto", ProtoPkg: "google.protobuf",
			GoPackage: "google.golang.org/protobuf/types/known/emptypb", External: true,
			proto: protodesc.ToFileDescriptorProto(emptypb.File_google_protobuf_empty_proto)}
		e := &msgModel{File: empty, Proto: "google.protobuf.Empty", GoName: "Empty"}
		empty.Msgs = append(empty.Msgs, e)
		local["EReq"], local["EResp"] = e, e
		rm.Files = append(rm.Files, empty)
	}
	rm.Files = append(rm.Files, main)

	req, resp := local[c.Req+"Req"], local[c.Resp+"Resp"]
	if req == nil || resp == nil {
		return nil, fmt.Errorf("unknown type source %q/%q", c.Req, c.Resp)
	}
	names := svcNames[c.Naming]
	if names == nil {
		return nil, fmt.Errorf("unknown naming %q", c.Naming)
	}
	if len(c.Services) > len(names) {
		return nil, fmt.Errorf("too many services")
	}
	mkSvc := func(f *fileModel, name string, kinds []string, rq, rs *msgModel) error {
		s := &svcModel{File: f, Name: name, FullName: qual(f.ProtoPkg, name), GoName: goCamel(name)}
		for i, k := range kinds {
			if _, ok := kindWord[k]; !ok {
				return fmt.Errorf("unknown method kind %q", k)
			}
			pn, gn := methodName(c.Naming, k, i)
			s.Methods = append(s.Methods, &methodModel{Name: pn, GoName: gn, Kind: k, Req: rq, Resp: rs})
		}
		f.Svcs = append(f.Svcs, s)
		return nil
	}
	for i, kinds := range c.Services {
		if err := mkSvc(main, names[i], kinds, req, resp); err != nil {
			return nil, err
		}
	}
	if c.DepSvc != nil {
		dep.Generate = true
		n := "DepSvc"
		if c.Naming == "snake" {
			n = "dep_svc"
		}
		if err := mkSvc(dep, n, c.DepSvc, local["IReq"], local["IResp"]); err != nil {
			return nil, err
		}
	}
	for _, f := range rm.Files {
		if f.proto == nil {
			f.proto = fileProto(f, rm)
		}
	}
	return rm, nil
}

func fileProto(f *fileModel, rm *requestModel) *descriptorpb.FileDescriptorProto {
	fd := &descriptorpb.FileDescriptorProto{
		Name:    proto.String(f.Name),
		Syntax:  proto.String("proto3"),
		Options: &descriptorpb.FileOptions{GoPackage: proto.String(f.GoPackage)},
	}
	if f.ProtoPkg != "" {
		fd.Package = proto.String(f.ProtoPkg)
	}
	// messages: top-level ones and the nested pair under Outer
	// (a name "<Parent>.<Child>" declares Child inside the field-less message Parent)
	parents := map[string]*descriptorpb.DescriptorProto{}
	for _, m := range f.Msgs {
		rel := strings.TrimPrefix(m.Proto, f.ProtoPkg+".")
		if f.ProtoPkg == "" {
			rel = m.Proto
		}
		if par, child, nested := strings.Cut(rel, "."); nested {
			outer := parents[par]
			if outer == nil {
				outer = &descriptorpb.DescriptorProto{Name: proto.String(par)}
				parents[par] = outer
				fd.MessageType = append(fd.MessageType, outer)
			}
			outer.NestedType = append(outer.NestedType, &descriptorpb.DescriptorProto{Name: proto.String(child)})
			continue
		}
		fd.MessageType = append(fd.MessageType, &descriptorpb.DescriptorProto{
			Name: proto.String(rel),
			Field: []*descriptorpb.FieldDescriptorProto{{
				Name: proto.String("id"), JsonName: proto.String("id"), Number: proto.Int32(1),
				Type:  descriptorpb.FieldDescriptorProto_TYPE_INT64.Enum(),
				Label: descriptorpb.FieldDescriptorProto_LABEL_OPTIONAL.Enum(),
			}},
		})
	}
	deps := map[string]bool{}
	for _, s := range f.Svcs {
		sd := &descriptorpb.ServiceDescriptorProto{Name: proto.String(s.Name)}
		for _, m := range s.Methods {
			md := &descriptorpb.MethodDescriptorProto{
				Name:       proto.String(m.Name),
				InputType:  proto.String("." + m.Req.Proto),
				OutputType: proto.String("." + m.Resp.Proto),
			}
			if m.Kind == kCS || m.Kind == kBD {
				md.ClientStreaming = proto.Bool(true)
			}
			if m.Kind == kSS || m.Kind == kBD {
				md.ServerStreaming = proto.Bool(true)
			}
			sd.Method = append(sd.Method, md)
			for _, t := range []*msgModel{m.Req, m.Resp} {
				if t.File != f {
					deps[t.File.Name] = true
				}
			}
		}
		fd.Service = append(fd.Service, sd)
	}
	for _, o := range rm.Files { // dependency order, deterministic
		if deps[o.Name] {
			fd.Dependency = append(fd.Dependency, o.Name)
		}
	}
	return fd
}

func (rm *requestModel) pb() *pluginpb.CodeGeneratorRequest {
	req := &pluginpb.CodeGeneratorRequest{
		CompilerVersion: &pluginpb.Version{Major: proto.Int32(3), Minor: proto.Int32(21), Patch: proto.Int32(12)},
	}
	if rm.Param != "" {
		req.Parameter = proto.String(rm.Param)
	}
	// proto_file is always topological (protoc guarantees it); file_to_generate
	// follows the command line, which need not be
	for _, f := range rm.Files {
		req.ProtoFile = append(req.ProtoFile, f.proto)
	}
	req.FileToGenerate = rm.genNames()
	return req
}

// ---- the plugin binary -----------------------------------------------------

type pluginResult struct {
	ExitErr  string // non-empty when the process did not exit 0
	Stderr   string
	Panicked bool
	TimedOut bool
	BadResp  string // response did not unmarshal
	Resp     *pluginpb.CodeGeneratorResponse
}

var pluginPath string

func goEnv() []string {
	env := os.Environ()
	env = append(env, "GOFLAGS=-mod=mod", "GOPROXY=off", "GOSUMDB=off", "GOTOOLCHAIN=local", "CGO_ENABLED=0")
	return env
}

// buildPlugin builds cmd/protoc-gen-grpchan of the tree under check into dir.
func buildPlugin(dir string) error {
	out := filepath.Join(dir, "protoc-gen-grpchan")
	cmd := exec.Command("go", "build", "-o", out, "./cmd/protoc-gen-grpchan")
	cmd.Dir = common.RepoDir()
	cmd.Env = goEnv()
	b, err := cmd.CombinedOutput()
	if err != nil {
		return fmt.Errorf("go build ./cmd/protoc-gen-grpchan in %s: %v\n%s", cmd.Dir, err, b)
	}
	pluginPath = out
	return nil
}

func runPlugin(req *pluginpb.CodeGeneratorRequest) *pluginResult {
	in, err := proto.Marshal(req)
	if err != nil {
		return &pluginResult{ExitErr: "marshal request: " + err.Error()}
	}
	// hang guard: the plugin answers in milliseconds; a minute means the checker cannot decide
	ctx, cancel := context.WithTimeout(context.Background(), 60*time.Second)
	defer cancel()
	cmd := exec.CommandContext(ctx, pluginPath)
	cmd.Dir = filepath.Dir(pluginPath)
	cmd.Stdin = bytes.NewReader(in)
	var stdout, stderr bytes.Buffer
	cmd.Stdout, cmd.Stderr = &stdout, &stderr
	res := &pluginResult{}
	if err := cmd.Run(); err != nil {
		res.ExitErr = err.Error()
		if ctx.Err() != nil {
			res.TimedOut = true
		}
	}
	res.Stderr = stderr.String()
	if strings.Contains(res.Stderr, "panic:") || strings.Contains(res.Stderr, "goroutine 1 [") {
		res.Panicked = true
	}
	if res.ExitErr == "" {
		var resp pluginpb.CodeGeneratorResponse
		if err := proto.Unmarshal(stdout.Bytes(), &resp); err != nil {
			res.BadResp = err.Error()
		} else {
			res.Resp = &resp
		}
	}
	return res
}
