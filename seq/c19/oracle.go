package main

// The reference model: what a correct emitted file must look like for a given
// request, decided by go/parser + go/types + AST inspection.

import (
	"fmt"
	"go/ast"
	"go/importer"
	"go/parser"
	"go/token"
	"go/types"
	"io"
	"os"
	"os/exec"
	"path"
	"regexp"
	"sort"
	"strconv"
	"strings"

	"verif/seq/common"
)

// ---- options as the oracle understands them (valid option strings only) ----

type optModel struct {
	Legacy, LegacyDesc bool
	ImportPath         string
	M                  map[string]string
	SourceRelative     bool
	Module             string
}

func parseParam(p string) optModel {
	o := optModel{M: map[string]string{}}
	if p == "" {
		return o
	}
	for _, a := range strings.Split(p, ",") {
		k, v, has := strings.Cut(a, "=")
		b := !has || v == "true"
		switch {
		case k == "legacy_stubs":
			o.Legacy = b
		case k == "legacy_desc_names":
			o.LegacyDesc = b
		case k == "import_path":
			o.ImportPath = v
		case k == "paths":
			o.SourceRelative = v == "source_relative"
		case k == "module":
			o.Module = v
		case len(k) > 1 && k[0] == 'M':
			o.M[k[1:]] = v
		}
	}
	return o
}

type goPkg struct{ Path, Name string }

func splitGoPackage(v string) goPkg {
	if i := strings.Index(v, ";"); i >= 0 {
		return goPkg{v[:i], v[i+1:]}
	}
	return goPkg{v, path.Base(v)}
}

func (o optModel) pkgOf(f *fileModel) goPkg {
	if f.External {
		return splitGoPackage(f.GoPackage)
	}
	if v, ok := o.M[f.Name]; ok {
		return splitGoPackage(v)
	}
	if f.Generate && o.ImportPath != "" {
		return splitGoPackage(o.ImportPath)
	}
	return splitGoPackage(f.GoPackage)
}

// outputName: where the stubs of a proto file go, by the rule protoc-gen-go and
// protoc-gen-go-grpc apply to the same options (the stubs are only usable next to their
// output): the directory of the proto file with paths=source_relative, otherwise the import
// path of the file's Go package, less the module prefix; the file name is that of the proto
// file with .proto replaced. No reference (false) when the Go package is outside the module
// given with module=: the standard generators reject that request.
func (o optModel) outputName(f *fileModel) (string, bool) {
	base := path.Base(f.Name)
	if ext := path.Ext(base); ext == ".proto" || ext == ".protodevel" {
		base = base[:len(base)-len(ext)]
	}
	base += ".pb.grpchan.go"
	if o.SourceRelative {
		return path.Join(path.Dir(f.Name), base), true
	}
	dir := o.pkgOf(f).Path
	if o.Module != "" {
		root := strings.TrimSuffix(o.Module, "/") + "/"
		if !strings.HasPrefix(dir, root) {
			return "", false
		}
		dir = strings.TrimPrefix(dir, root)
	}
	return path.Join(dir, base), true
}

// placedBy names the options that decide the output location of f (fingerprints).
func (o optModel) placedBy(f *fileModel) string {
	if o.SourceRelative {
		return "paths=source_relative"
	}
	by := "go_package"
	if _, ok := o.M[f.Name]; ok {
		by = "M"
	} else if f.Generate && o.ImportPath != "" {
		by = "import_path"
	}
	if o.Module != "" {
		by += "+module"
	}
	return by
}

func (o optModel) descVar(s *svcModel) string {
	if o.LegacyDesc {
		return "_" + s.GoName + "_serviceDesc"
	}
	return s.GoName + "_ServiceDesc"
}

func unexport(s string) string { return strings.ToLower(s[:1]) + s[1:] }

// ---- the real importer (export data of the tree's dependency versions) ----

var (
	fset      = token.NewFileSet()
	exportMap map[string]string
	realImp   types.Importer
	fakePkgs  = map[string]*types.Package{}
)

func initImporter() error {
	cmd := exec.Command("go", "list", "-export", "-deps", "-f", "{{if .Export}}{{.ImportPath}}\t{{.Export}}{{end}}",
		"context", "google.golang.org/grpc", "github.com/fullstorydev/grpchan", "google.golang.org/protobuf/types/known/emptypb")
	cmd.Dir = common.RepoDir()
	cmd.Env = goEnv()
	cmd.Stderr = os.Stderr
	out, err := cmd.Output()
	if err != nil {
		return fmt.Errorf("go list -export in %s: %v", cmd.Dir, err)
	}
	exportMap = map[string]string{}
	for _, l := range strings.Split(string(out), "\n") {
		if k, v, ok := strings.Cut(strings.TrimSpace(l), "\t"); ok {
			exportMap[k] = v
		}
	}
	realImp = importer.ForCompiler(fset, "gc", func(p string) (io.ReadCloser, error) {
		f, ok := exportMap[p]
		if !ok {
			return nil, fmt.Errorf("no export data for %q", p)
		}
		return os.Open(f)
	})
	return nil
}

type caseImporter struct{ fake map[string]*types.Package }

func (ci caseImporter) Import(p string) (*types.Package, error) {
	if pk, ok := ci.fake[p]; ok {
		return pk, nil
	}
	if _, ok := exportMap[p]; !ok {
		return nil, fmt.Errorf("package %q is neither a package of this request nor a dependency of the repository", p)
	}
	return realImp.Import(p)
}

// fakePackage type-checks a package that only declares the given message types.
func fakePackage(pk goPkg, msgs []string) (*types.Package, error) {
	sort.Strings(msgs)
	key := pk.Path + ";" + pk.Name + ";" + strings.Join(msgs, ",")
	if p, ok := fakePkgs[key]; ok {
		return p, nil
	}
	var b strings.Builder
	fmt.Fprintf(&b, "package %s\n", pk.Name)
	for _, m := range msgs {
		fmt.Fprintf(&b, "type %s struct{ Id int64 }\n", m)
	}
	f, err := parser.ParseFile(fset, pk.Path+"/fake.go", b.String(), 0)
	if err != nil {
		return nil, err
	}
	p, err := (&types.Config{}).Check(pk.Path, fset, []*ast.File{f}, nil)
	if err != nil {
		return nil, err
	}
	fakePkgs[key] = p
	return p, nil
}

// ---- companion: what protoc-gen-go + protoc-gen-go-grpc (v1.1) declare ------

type companionWriter struct {
	o       optModel
	self    goPkg
	imports map[string]string // path -> alias
	order   []string
	body    strings.Builder
}

func (w *companionWriter) ref(m *msgModel) string {
	pk := w.o.pkgOf(m.File)
	if pk.Path == w.self.Path {
		return "*" + m.GoName
	}
	a, ok := w.imports[pk.Path]
	if !ok {
		a = fmt.Sprintf("cimp%d", len(w.imports))
		w.imports[pk.Path] = a
		w.order = append(w.order, pk.Path)
	}
	return "*" + a + "." + m.GoName
}

func (w *companionWriter) p(format string, a ...interface{}) {
	fmt.Fprintf(&w.body, format+"\n", a...)
}

func (w *companionWriter) service(s *svcModel) {
	g, lg := s.GoName, unexport(s.GoName)
	w.p("type %sClient interface {", g)
	for _, m := range s.Methods {
		switch m.Kind {
		case kU:
			w.p("\t%s(ctx cctx.Context, in %s, opts ...cgrpc.CallOption) (%s, error)", m.GoName, w.ref(m.Req), w.ref(m.Resp))
		case kSS:
			w.p("\t%s(ctx cctx.Context, in %s, opts ...cgrpc.CallOption) (%s_%sClient, error)", m.GoName, w.ref(m.Req), g, m.GoName)
		default:
			w.p("\t%s(ctx cctx.Context, opts ...cgrpc.CallOption) (%s_%sClient, error)", m.GoName, g, m.GoName)
		}
	}
	w.p("}")
	w.p("type %sServer interface {", g)
	for _, m := range s.Methods {
		switch m.Kind {
		case kU:
			w.p("\t%s(cctx.Context, %s) (%s, error)", m.GoName, w.ref(m.Req), w.ref(m.Resp))
		case kSS:
			w.p("\t%s(%s, cgrpc.ServerStream) error", m.GoName, w.ref(m.Req))
		default:
			w.p("\t%s(cgrpc.ServerStream) error", m.GoName)
		}
	}
	w.p("}")
	w.p("var %s = cgrpc.ServiceDesc{", w.o.descVar(s))
	w.p("\tServiceName: %q,", s.FullName)
	w.p("\tHandlerType: (*%sServer)(nil),", g)
	w.p("\tStreams: []cgrpc.StreamDesc{")
	for _, m := range s.Methods {
		if m.Kind != kU {
			w.p("\t\t{StreamName: %q, ServerStreams: %v, ClientStreams: %v},", m.Name, m.Kind == kSS || m.Kind == kBD, m.Kind == kCS || m.Kind == kBD)
		}
	}
	w.p("\t},")
	w.p("\tMetadata: %q,", s.File.Name)
	w.p("}")
	for _, m := range s.Methods {
		if m.Kind == kU {
			continue
		}
		iface, impl := g+"_"+m.GoName+"Client", lg+m.GoName+"Client"
		w.p("type %s interface {", iface)
		if m.Kind != kSS {
			w.p("\tSend(%s) error", w.ref(m.Req))
		}
		if m.Kind == kCS {
			w.p("\tCloseAndRecv() (%s, error)", w.ref(m.Resp))
		} else {
			w.p("\tRecv() (%s, error)", w.ref(m.Resp))
		}
		w.p("\tcgrpc.ClientStream")
		w.p("}")
		w.p("type %s struct{ cgrpc.ClientStream }", impl)
		if m.Kind != kSS {
			w.p("func (x *%s) Send(m %s) error { return x.ClientStream.SendMsg(m) }", impl, w.ref(m.Req))
		}
		recv := "Recv"
		if m.Kind == kCS {
			recv = "CloseAndRecv"
		}
		w.p("func (x *%s) %s() (%s, error) { return nil, nil }", impl, recv, w.ref(m.Resp))
	}
}

// companionFor renders the companion file of one Go package of the request.
func companionFor(o optModel, self goPkg, group []*fileModel) string {
	w := &companionWriter{o: o, self: self, imports: map[string]string{}}
	for _, f := range group {
		for _, m := range f.Msgs {
			w.p("type %s struct{ Id int64 }", m.GoName)
		}
	}
	for _, f := range group {
		for _, s := range f.Svcs {
			w.service(s)
		}
	}
	var h strings.Builder
	fmt.Fprintf(&h, "package %s\n\nimport (\n\tcctx \"context\"\n\tcgrpc \"google.golang.org/grpc\"\n", self.Name)
	for _, p := range w.order {
		fmt.Fprintf(&h, "\t%s %q\n", w.imports[p], p)
	}
	h.WriteString(")\n\nvar _ cctx.Context\nvar _ cgrpc.CallOption\n\n")
	return h.String() + w.body.String()
}

// ---- findings ---------------------------------------------------------------

type finding struct {
	Clause string // first fingerprint component after the property id
	Detail string // rest of the fingerprint
	What   string
}

type caseStats struct {
	Registrations int // RegisterHandler functions compared
	Methods       int // legacy client methods whose call was located and compared
	StreamIndexes int // Streams[i] comparisons
	TypeChecked   int // emitted files type-checked
	DescRefs      int // references to a service descriptor variable compared with the option-selected name
	OutputNames   int // emitted files whose name was compared with the location the options select
	FileSets      int // requests whose set of emitted files was compared with the set of files that declare services
	Observed      string
}

var digits = regexp.MustCompile(`[0-9]+`)
var methodLetter = regexp.MustCompile(`(GetUnary|SrvStream|CliStream|BidiStream)[A-Z]\b`)

func normMsg(s string) string {
	s = methodLetter.ReplaceAllString(s, "$1?")
	s = digits.ReplaceAllString(s, "#")
	if len(s) > 160 {
		s = s[:160]
	}
	return s
}

type emittedFile struct {
	Name string
	Src  string
	AST  *ast.File
	For  *fileModel
}

func funcDecls(f *ast.File) []*ast.FuncDecl {
	var out []*ast.FuncDecl
	for _, d := range f.Decls {
		if fd, ok := d.(*ast.FuncDecl); ok {
			out = append(out, fd)
		}
	}
	return out
}

func recvTypeName(fd *ast.FuncDecl) string {
	if fd.Recv == nil || len(fd.Recv.List) != 1 {
		return ""
	}
	t := fd.Recv.List[0].Type
	if s, ok := t.(*ast.StarExpr); ok {
		t = s.X
	}
	if id, ok := t.(*ast.Ident); ok {
		return id.Name
	}
	return ""
}

func paramNames(fd *ast.FuncDecl) []string {
	var out []string
	if fd.Type.Params == nil {
		return out
	}
	for _, fl := range fd.Type.Params.List {
		if len(fl.Names) == 0 {
			out = append(out, "_")
		}
		for _, n := range fl.Names {
			out = append(out, n.Name)
		}
	}
	return out
}

func selectorCalls(body *ast.BlockStmt) map[string][]*ast.CallExpr {
	out := map[string][]*ast.CallExpr{}
	if body == nil {
		return out
	}
	ast.Inspect(body, func(n ast.Node) bool {
		if c, ok := n.(*ast.CallExpr); ok {
			if s, ok := c.Fun.(*ast.SelectorExpr); ok {
				out[s.Sel.Name] = append(out[s.Sel.Name], c)
			}
		}
		return true
	})
	return out
}

func isIdent(e ast.Expr, name string) bool {
	id, ok := e.(*ast.Ident)
	return ok && id.Name == name
}

func exprString(e ast.Expr) string {
	if e == nil {
		return "<nil>"
	}
	return types.ExprString(e)
}

// checkResponse applies the oracle to what the plugin returned for a valid request.
func checkResponse(c caseSpec, rm *requestModel, res *pluginResult) ([]finding, caseStats) {
	var fs []finding
	var st caseStats
	o := parseParam(c.Param)
	dims := fmt.Sprintf("opt=%s|types=%s|pkg=%s|naming=%s", c.OptKey, c.typesKey(), c.Pkg, c.Naming)
	add := func(clause, detail, what string) {
		fs = append(fs, finding{clause, detail, what})
	}
	if res.Panicked {
		add("panic", dims, "plugin panicked: "+firstLines(res.Stderr, 6))
		return fs, st
	}
	if res.ExitErr != "" || res.BadResp != "" {
		add("crash", dims, fmt.Sprintf("plugin did not produce a CodeGeneratorResponse: exit=%q resp=%q stderr=%s", res.ExitErr, res.BadResp, firstLines(res.Stderr, 4)))
		return fs, st
	}
	if res.Resp.Error != nil {
		msg := res.Resp.GetError()
		if pluginPath != "" {
			msg = strings.ReplaceAll(msg, pluginPath, "protoc-gen-grpchan")
		}
		add("plugin-error", "opt="+c.OptKey+"|types="+c.typesKey()+"|"+normMsg(strings.ReplaceAll(msg, pkgDir(c.Pkg)+"/", "<pkg>/")), "plugin rejected a valid request: "+res.Resp.GetError())
		return fs, st
	}

	// parse
	var files []*emittedFile
	for _, rf := range res.Resp.File {
		ef := &emittedFile{Name: rf.GetName(), Src: rf.GetContent()}
		if rf.GetInsertionPoint() != "" {
			continue
		}
		a, err := parser.ParseFile(fset, "emitted/"+ef.Name, ef.Src, parser.ParseComments)
		if err != nil {
			add("parse", "opt="+c.OptKey+"|"+normMsg(stripPos(err.Error())), fmt.Sprintf("emitted file %s does not parse: %v", ef.Name, err))
			continue
		}
		ef.AST = a
		files = append(files, ef)
	}
	sort.Slice(files, func(i, j int) bool { return files[i].Name < files[j].Name })

	// registration functions: exactly one per service, calling RegisterService with the service's own descriptor
	svcByGo := map[string]*svcModel{}
	var svcs []*svcModel
	for _, f := range rm.Files {
		if !f.Generate {
			continue
		}
		for _, s := range f.Svcs {
			svcByGo[s.GoName] = s
			svcs = append(svcs, s)
		}
	}
	regs := map[string][]*ast.FuncDecl{}
	regFile := map[string]*emittedFile{}
	for _, ef := range files {
		for _, fd := range funcDecls(ef.AST) {
			if fd.Recv == nil && strings.HasPrefix(fd.Name.Name, "RegisterHandler") {
				g := strings.TrimPrefix(fd.Name.Name, "RegisterHandler")
				regs[g] = append(regs[g], fd)
				regFile[g] = ef
				if s, ok := svcByGo[g]; ok {
					if ef.For != nil && ef.For != s.File {
						add("register", "mixed-file|"+dims, fmt.Sprintf("emitted file %s holds registration functions of services of two proto files", ef.Name))
					}
					ef.For = s.File
				} else {
					add("register", "unknown-service|"+dims, fmt.Sprintf("%s is emitted but the request has no service with Go name %s", fd.Name.Name, g))
				}
			}
		}
	}
	for si, s := range svcs {
		pos := fmt.Sprintf("svc#%d", svcIndex(s)+1)
		_ = si
		fds := regs[s.GoName]
		if len(fds) == 0 && noOutputFor(o, s.File, res, regs) {
			continue // the whole file is absent: reported once, under output-files
		}
		if len(fds) != 1 {
			add("register", fmt.Sprintf("count=%d|%s|opt=%s", len(fds), pos, c.OptKey), fmt.Sprintf("service %s has %d RegisterHandler%s functions, want exactly 1", s.FullName, len(fds), s.GoName))
			continue
		}
		fd := fds[0]
		st.Registrations++
		pn := paramNames(fd)
		calls := selectorCalls(fd.Body)["RegisterService"]
		want := o.descVar(s)
		if len(pn) != 2 || len(calls) != 1 || len(calls[0].Args) != 2 {
			add("register", fmt.Sprintf("shape|%s|opt=%s", pos, c.OptKey), fmt.Sprintf("RegisterHandler%s: want 2 parameters and exactly one RegisterService(desc, srv) call; got %d params, %d calls", s.GoName, len(pn), len(calls)))
			continue
		}
		call := calls[0]
		got := ""
		if u, ok := call.Args[0].(*ast.UnaryExpr); ok && u.Op == token.AND {
			got = exprString(u.X)
		} else {
			got = exprString(call.Args[0])
		}
		if got != want {
			add("register", fmt.Sprintf("desc-var|%s|opt=%s|got=%s", pos, c.OptKey, relDesc(got, s, svcs, o)), fmt.Sprintf("RegisterHandler%s registers %s, want &%s", s.GoName, exprString(call.Args[0]), want))
		}
		if !isIdent(call.Fun.(*ast.SelectorExpr).X, pn[0]) || !isIdent(call.Args[1], pn[1]) {
			add("register", fmt.Sprintf("args|%s|opt=%s", pos, c.OptKey), fmt.Sprintf("RegisterHandler%s does not call <registry param>.RegisterService(.., <server param>): %s", s.GoName, exprString(call)))
		}
	}

	// the set of emitted files: exactly one per file to generate that declares a service, at the
	// location the options select; none for a file without services
	ffs, named := checkFileSet(c, o, rm, res, files)
	fs = append(fs, ffs...)
	st.FileSets++
	st.OutputNames += named

	// type-check every Go package that received an emitted file, together with its companion
	groups := map[string][]*fileModel{}
	pkgs := map[string]goPkg{}
	for _, f := range rm.Files {
		if f.External {
			continue
		}
		pk := o.pkgOf(f)
		groups[pk.Path] = append(groups[pk.Path], f)
		if _, ok := pkgs[pk.Path]; !ok || f.Generate {
			pkgs[pk.Path] = pk
		}
	}
	var paths []string
	for p := range groups {
		paths = append(paths, p)
	}
	sort.Strings(paths)
	for _, p := range paths {
		var emitted []*emittedFile
		for _, ef := range files {
			if ef.For != nil && o.pkgOf(ef.For).Path == p {
				emitted = append(emitted, ef)
			}
		}
		if len(emitted) == 0 {
			continue
		}
		self := pkgs[p]
		ci := caseImporter{fake: map[string]*types.Package{}}
		bad := false
		for _, q := range paths {
			if q == p {
				continue
			}
			var names []string
			for _, f := range groups[q] {
				for _, m := range f.Msgs {
					names = append(names, m.GoName)
				}
			}
			fp, err := fakePackage(pkgs[q], names)
			if err != nil {
				add("internal", "fake-package", err.Error())
				bad = true
				break
			}
			ci.fake[q] = fp
		}
		if bad {
			continue
		}
		comp := companionFor(o, self, groups[p])
		cf, err := parser.ParseFile(fset, "companion/"+p+"/companion.go", comp, 0)
		if err != nil {
			add("internal", "companion-parse", err.Error()+"\n"+comp)
			continue
		}
		asts := []*ast.File{cf}
		declared := topLevelVars(cf)
		for _, ef := range emitted {
			asts = append(asts, ef.AST)
			n, dfs := checkDescRefs(c, o, rm, ef, declared)
			st.DescRefs += n
			fs = append(fs, dfs...)
		}
		var terrs []string
		conf := types.Config{Importer: ci, Error: func(err error) {
			if te, ok := err.(types.Error); ok {
				where := "emitted"
				if strings.HasPrefix(fset.Position(te.Pos).Filename, "companion/") {
					where = "companion"
				}
				terrs = append(terrs, where+": "+te.Msg)
			} else {
				terrs = append(terrs, err.Error())
			}
		}}
		conf.Check(p, fset, asts, nil)
		st.TypeChecked += len(emitted)
		seenMsg := map[string]bool{}
		for _, te := range terrs {
			m := te
			if sm := unusedImport.FindStringSubmatch(te); sm != nil {
				for _, f := range rm.Files {
					if o.pkgOf(f).Path == sm[1] {
						// one cause whatever the package: collapse
						m = unusedImport.ReplaceAllString(te, "<package of a request/response message type> imported and not used")
					}
				}
			}
			if c.Kind == "mtypes" {
				m = normTypeNames(m)
			}
			m = normMsg(strings.ReplaceAll(m, goBase(c.Pkg), "example.com/gen/<pkg>"))
			if seenMsg[m] || len(seenMsg) >= 5 {
				continue
			}
			seenMsg[m] = true
			add("typecheck", m, fmt.Sprintf("emitted code for Go package %s (name %s) does not type-check against the protoc-gen-go/-go-grpc declarations: %s", p, self.Name, strings.Join(firstN(terrs, 4), "; ")))
		}
	}

	if !o.Legacy {
		st.Observed = fmt.Sprintf("files=%d registrations=%d", len(files), st.Registrations)
		return fs, st
	}

	// legacy client stubs
	for _, s := range svcs {
		ef := regFile[s.GoName]
		if ef == nil {
			continue // already reported under "register"
		}
		pos := fmt.Sprintf("svc#%d", svcIndex(s)+1)
		ctor := "New" + s.GoName + "ChannelClient"
		clientType := ""
		for _, fd := range funcDecls(ef.AST) {
			if fd.Recv == nil && fd.Name.Name == ctor && fd.Body != nil {
				ast.Inspect(fd.Body, func(n ast.Node) bool {
					if r, ok := n.(*ast.ReturnStmt); ok && len(r.Results) == 1 {
						e := r.Results[0]
						if u, ok := e.(*ast.UnaryExpr); ok {
							e = u.X
						}
						if cl, ok := e.(*ast.CompositeLit); ok {
							if id, ok := cl.Type.(*ast.Ident); ok {
								clientType = id.Name
							}
						}
					}
					return true
				})
			}
		}
		if clientType == "" {
			add("legacy-client", fmt.Sprintf("no-constructor|%s|opt=%s", pos, c.OptKey), fmt.Sprintf("legacy stubs requested but %s (returning the channel client) was not found in %s", ctor, ef.Name))
			continue
		}
		rank := 0
		for mi, m := range s.Methods {
			myRank := rank
			if m.Kind != kU {
				rank++
			}
			var decl *ast.FuncDecl
			n := 0
			for _, fd := range funcDecls(ef.AST) {
				if recvTypeName(fd) == clientType && fd.Name.Name == m.GoName {
					decl = fd
					n++
				}
			}
			if n != 1 {
				add("legacy-client", fmt.Sprintf("method-count=%d|kind=%s|%s|naming=%s", n, m.Kind, pos, c.Naming), fmt.Sprintf("client type %s has %d methods named %s for %s/%s, want 1", clientType, n, m.GoName, s.FullName, m.Name))
				continue
			}
			st.Methods++
			calls := selectorCalls(decl.Body)
			pn := paramNames(decl)
			inv, ns, sm, cs := calls["Invoke"], calls["NewStream"], calls["SendMsg"], calls["CloseSend"]
			shape := fmt.Sprintf("Invoke=%d NewStream=%d SendMsg=%d CloseSend=%d", len(inv), len(ns), len(sm), len(cs))
			var pathArg, descArg ast.Expr
			okShape := false
			switch m.Kind {
			case kU:
				okShape = len(inv) == 1 && len(ns) == 0 && len(sm) == 0 && len(cs) == 0 && len(inv[0].Args) >= 4 && len(pn) >= 2 && isIdent(inv[0].Args[2], pn[1])
				if len(inv) == 1 && len(inv[0].Args) >= 2 {
					pathArg = inv[0].Args[1]
				}
			case kSS:
				okShape = len(inv) == 0 && len(ns) == 1 && len(sm) == 1 && len(cs) == 1 && len(ns[0].Args) >= 3 && len(pn) >= 2 && len(sm[0].Args) == 1 && isIdent(sm[0].Args[0], pn[1])
			default:
				okShape = len(inv) == 0 && len(ns) == 1 && len(sm) == 0 && len(cs) == 0 && len(ns[0].Args) >= 3
			}
			if m.Kind != kU && len(ns) == 1 && len(ns[0].Args) >= 3 {
				descArg, pathArg = ns[0].Args[1], ns[0].Args[2]
			}
			if !okShape {
				add("shape", fmt.Sprintf("kind=%s|%s", m.Kind, strings.ReplaceAll(shape, " ", ",")), fmt.Sprintf("%s/%s is %s but the stub's calls are: %s (params %v)", s.FullName, m.Name, m.Kind, shape, pn))
			}
			// path
			wantPath := "/" + s.FullName + "/" + m.Name
			if pathArg != nil {
				lit, ok := pathArg.(*ast.BasicLit)
				got := ""
				if ok && lit.Kind == token.STRING {
					got, _ = strconv.Unquote(lit.Value)
				}
				if !ok || got != wantPath {
					form := "other"
					switch got {
					case "":
						form = "not-a-literal"
					case "/." + s.Name + "/" + m.Name:
						form = "dot-prefixed-service-name"
					case "/" + s.Name + "/" + m.Name:
						form = "short-service-name"
					case "/" + s.FullName + "/" + m.GoName:
						form = "go-method-name"
					case "/" + qual(s.File.ProtoPkg, s.GoName) + "/" + m.Name:
						form = "go-service-name"
					case "/" + qual(s.File.ProtoPkg, s.GoName) + "/" + m.GoName:
						form = "go-names"
					default:
						if strings.HasSuffix(got, "/"+m.Name) {
							form = "other-service"
						} else if strings.HasPrefix(got, "/"+s.FullName+"/") {
							form = "other-method"
						} else if sameButSeparators(got, wantPath) {
							form = "separator-misplaced"
						}
					}
					detail := fmt.Sprintf("kind=%s|form=%s", m.Kind, form)
					if strings.HasPrefix(form, "other") || form == "not-a-literal" || form == "separator-misplaced" {
						if c.Kind == "names" {
							// what matters is how the names of the method, its service, its package and their siblings relate
							detail += "|" + nameRelations(s, m)
						} else {
							detail += fmt.Sprintf("|pkg=%s|naming=%s", c.Pkg, c.Naming)
						}
					}
					what := fmt.Sprintf("stub of %s/%s calls the channel with %s, want %q", s.FullName, m.Name, exprString(pathArg), wantPath)
					if c.Kind == "names" {
						what += " (" + nameRelationsText(s, m) + ")"
					}
					add("path", detail, what)
				}
			}
			// stream descriptor
			if descArg != nil {
				st.StreamIndexes++
				gotVar, gotIdx := "", -1
				if u, ok := descArg.(*ast.UnaryExpr); ok && u.Op == token.AND {
					if ix, ok := u.X.(*ast.IndexExpr); ok {
						if sel, ok := ix.X.(*ast.SelectorExpr); ok && sel.Sel.Name == "Streams" {
							gotVar = exprString(sel.X)
						}
						if lit, ok := ix.Index.(*ast.BasicLit); ok && lit.Kind == token.INT {
							if v, err := strconv.Atoi(lit.Value); err == nil {
								gotIdx = v
							}
						}
					}
				}
				switch {
				case gotVar == "" || gotIdx < 0:
					add("stream-desc", fmt.Sprintf("form|kind=%s", m.Kind), fmt.Sprintf("stub of %s/%s passes %s, want &%s.Streams[%d]", s.FullName, m.Name, exprString(descArg), o.descVar(s), myRank))
				case gotVar != o.descVar(s):
					add("stream-desc", fmt.Sprintf("desc-var|%s|opt=%s|got=%s", pos, c.OptKey, relDesc(gotVar, s, svcs, o)), fmt.Sprintf("stub of %s/%s uses %s.Streams, want %s.Streams", s.FullName, m.Name, gotVar, o.descVar(s)))
				case gotIdx != myRank:
					unaryBefore, earlier, delta := mi-myRank, streamsBefore(s), gotIdx-myRank
					offBy := fmt.Sprintf("%+d|kind=%s", delta, m.Kind)
					switch {
					case delta == unaryBefore && delta == earlier:
						offBy = "unary-before-or-streams-in-earlier-services"
					case delta == unaryBefore:
						offBy = "unary-before"
					case delta == earlier:
						offBy = "streams-in-earlier-services"
					case delta == unaryBefore+earlier:
						offBy = "unary-before+streams-in-earlier-services"
					}
					which := "first-service"
					if svcIndex(s) > 0 {
						which = "later-service"
					}
					add("stream-index", fmt.Sprintf("%s|off-by=%s", which, offBy),
						fmt.Sprintf("stub of %s/%s (method #%d, kinds %v) uses Streams[%d], want Streams[%d] (its rank among the service's streaming methods)", s.FullName, m.Name, mi, kindsOf(s), gotIdx, myRank))
				}
			}
		}
	}
	st.Observed = fmt.Sprintf("files=%d registrations=%d methods=%d stream-indexes=%d typechecked=%d", len(files), st.Registrations, st.Methods, st.StreamIndexes, st.TypeChecked)
	return fs, st
}

// ---- file-wide clause on service-descriptor references ---------------------------
//
// Whatever the place (registration function, stream stub, anything else), every
// identifier in an emitted file that names a service descriptor variable must be
// the variable the legacy_desc_names option selects for a service of the request,
// all such identifiers in one file must follow the same naming scheme, and each
// must be a variable the companion (= what protoc-gen-go-grpc of the targeted
// generation declares) has.

var descIdentRE = regexp.MustCompile(`^_?[A-Za-z0-9]+_[sS]erviceDesc$`)

type descRef struct {
	Name      string
	Site      string // selector name of the innermost enclosing call (RegisterService, NewStream, ...) or "other"
	Func      string // enclosing function
	Qualified bool   // written as pkg.Name
}

func topLevelVars(f *ast.File) map[string]bool {
	out := map[string]bool{}
	for _, d := range f.Decls {
		gd, ok := d.(*ast.GenDecl)
		if !ok || gd.Tok != token.VAR {
			continue
		}
		for _, sp := range gd.Specs {
			for _, n := range sp.(*ast.ValueSpec).Names {
				out[n.Name] = true
			}
		}
	}
	return out
}

func descRefs(f *ast.File, candidate func(string) bool) []descRef {
	var out []descRef
	var stack []ast.Node
	ast.Inspect(f, func(n ast.Node) bool {
		if n == nil {
			stack = stack[:len(stack)-1]
			return true
		}
		stack = append(stack, n)
		id, ok := n.(*ast.Ident)
		if !ok || !candidate(id.Name) {
			return true
		}
		r := descRef{Name: id.Name, Site: "other"}
		if len(stack) >= 2 {
			if sel, ok := stack[len(stack)-2].(*ast.SelectorExpr); ok && sel.Sel == id {
				r.Qualified = true
			}
		}
		for i := len(stack) - 2; i >= 0; i-- {
			if call, ok := stack[i].(*ast.CallExpr); ok && r.Site == "other" {
				if sel, ok := call.Fun.(*ast.SelectorExpr); ok {
					r.Site = sel.Sel.Name
				}
			}
			if fd, ok := stack[i].(*ast.FuncDecl); ok {
				r.Func = fd.Name.Name
			}
		}
		out = append(out, r)
		return true
	})
	return out
}

func schemeName(legacy bool) string {
	if legacy {
		return "_<Svc>_serviceDesc"
	}
	return "<Svc>_ServiceDesc"
}

func checkDescRefs(c caseSpec, o optModel, rm *requestModel, ef *emittedFile, declared map[string]bool) (int, []finding) {
	// both spellings of the descriptor of every service of the request
	type cand struct {
		svc    *svcModel
		legacy bool
	}
	cands := map[string]cand{}
	for _, f := range rm.Files {
		for _, s := range f.Svcs {
			cands[optModel{LegacyDesc: true}.descVar(s)] = cand{s, true}
			cands[optModel{LegacyDesc: false}.descVar(s)] = cand{s, false}
		}
	}
	refs := descRefs(ef.AST, func(n string) bool {
		_, ok := cands[n]
		return ok || descIdentRE.MatchString(n)
	})
	var fs []finding
	seen := map[string]bool{}
	add := func(detail, what string) {
		if !seen[detail] {
			seen[detail] = true
			fs = append(fs, finding{"desc-ref", detail, what})
		}
	}
	schemes := map[string]bool{}
	for _, r := range refs {
		cd, known := cands[r.Name]
		legacy := strings.HasPrefix(r.Name, "_")
		if known {
			legacy = cd.legacy
		}
		schemes[r.Site+":"+schemeName(legacy)] = true
		switch {
		case r.Qualified:
			add(fmt.Sprintf("qualified|site=%s|opt=%s", r.Site, c.OptKey), fmt.Sprintf("%s (in %s) refers to the service descriptor as a qualified name ..%s; the descriptor of a file's own service is a variable of the file's own package", ef.Name, r.Func, r.Name))
		case legacy != o.LegacyDesc:
			add(fmt.Sprintf("not-option-selected|site=%s|scheme=%s|opt=%s", r.Site, schemeName(legacy), c.OptKey), fmt.Sprintf("%s (in %s, argument of %s) refers to %s, but legacy_desc_names=%v selects %s (declared by the protoc-gen-go-grpc code of that generation: %v)", ef.Name, r.Func, r.Site, r.Name, o.LegacyDesc, schemeName(o.LegacyDesc), declared[r.Name]))
		case !declared[r.Name]:
			add(fmt.Sprintf("undeclared|site=%s|scheme=%s|opt=%s", r.Site, schemeName(legacy), c.OptKey), fmt.Sprintf("%s (in %s, argument of %s) refers to %s, which the code generated by protoc-gen-go-grpc for legacy_desc_names=%v does not declare (it declares %s)", ef.Name, r.Func, r.Site, r.Name, o.LegacyDesc, schemeName(o.LegacyDesc)))
		}
	}
	both := map[bool]bool{}
	var used []string
	for k := range schemes {
		used = append(used, k)
		both[strings.HasSuffix(k, ":"+schemeName(true))] = true
	}
	if len(both) > 1 {
		sort.Strings(used)
		add(fmt.Sprintf("mixed|%s|opt=%s", strings.Join(used, ","), c.OptKey), fmt.Sprintf("%s refers to service descriptors under both naming schemes: %s; one generated file must use the one scheme legacy_desc_names=%v selects (%s)", ef.Name, strings.Join(used, ", "), o.LegacyDesc, schemeName(o.LegacyDesc)))
	}
	return len(refs), fs
}

// noOutputFor: the response holds no file at the location the options select for f, and no
// emitted file holds a registration function of one of its services.
func noOutputFor(o optModel, f *fileModel, res *pluginResult, regs map[string][]*ast.FuncDecl) bool {
	for _, s := range f.Svcs {
		if len(regs[s.GoName]) > 0 {
			return false
		}
	}
	if want, ok := o.outputName(f); ok {
		for _, rf := range res.Resp.File {
			if rf.GetName() == want {
				return false
			}
		}
	}
	return true
}

// checkFileSet compares the names of the emitted files with the request: every file to
// generate that declares a service has exactly one output file, named and placed as the
// options say; a file that declares no service has none.
func checkFileSet(c caseSpec, o optModel, rm *requestModel, res *pluginResult, files []*emittedFile) ([]finding, int) {
	var fs []finding
	named := 0
	gen := rm.genNames()
	regs := map[string][]*ast.FuncDecl{}
	byFile := map[*fileModel][]*emittedFile{}
	for _, ef := range files {
		if ef.For != nil {
			byFile[ef.For] = append(byFile[ef.For], ef)
			for _, s := range ef.For.Svcs {
				regs[s.GoName] = []*ast.FuncDecl{nil}
			}
		}
	}
	wanted := map[string]*fileModel{}
	var before []string
	for _, name := range gen {
		f := rm.file(name)
		kind := kindOfFile(f)
		after := "-"
		if len(before) > 0 {
			set := map[string]bool{}
			for _, k := range before {
				set[k] = true
			}
			var ks []string
			for k := range set {
				ks = append(ks, k)
			}
			sort.Strings(ks)
			after = strings.Join(ks, "+")
		}
		before = append(before, kind)
		if len(f.Svcs) == 0 {
			continue
		}
		want, hasRef := o.outputName(f)
		if hasRef {
			wanted[want] = f
		}
		efs := byFile[f]
		if len(efs) == 1 && hasRef {
			named++
		}
		switch {
		case len(efs) == 0 && noOutputFor(o, f, res, regs):
			have := []string{}
			for _, rf := range res.Resp.File {
				have = append(have, rf.GetName())
			}
			fs = append(fs, finding{"output-files", fmt.Sprintf("missing|self=%s|after=%s", kind, after),
				fmt.Sprintf("%s declares %d service(s) and is listed in file_to_generate %v, but the response, which reports no error, holds no stub file for it (emitted: %v)", f.Name, len(f.Svcs), gen, have)})
		case len(efs) == 1 && hasRef && efs[0].Name != want:
			var got string
			unmapped := o
			unmapped.M = nil
			if alt, ok := unmapped.outputName(f); ok && alt == efs[0].Name {
				got = "location-without-the-M-option"
			} else if path.Base(efs[0].Name) != path.Base(want) {
				got = "other-file-name"
			} else {
				got = "other-directory"
			}
			fs = append(fs, finding{"output-name", fmt.Sprintf("placed-by=%s|got=%s|path-starts=%s", o.placedBy(f), got, leadM(f.Name)),
				fmt.Sprintf("the stubs of %s are emitted as %s; options %q place the generated code of that file (package %s) at %s", f.Name, efs[0].Name, c.Param, o.pkgOf(f).Path, want)})
		}
	}
	for _, ef := range files {
		if ef.For != nil {
			continue
		}
		if _, ok := wanted[ef.Name]; ok {
			continue // the file of a service-declaring proto file, lacking its registrations: reported under register
		}
		what := "other"
		for _, name := range gen {
			f := rm.file(name)
			if n, ok := o.outputName(f); ok && n == ef.Name && len(f.Svcs) == 0 {
				what = "for-file-without-services"
			}
		}
		fs = append(fs, finding{"output-files", fmt.Sprintf("unexpected|%s|opt=%s", what, c.OptKey),
			fmt.Sprintf("the response holds %s, which is not the stub file of any file to generate that declares a service (file_to_generate %v)", ef.Name, gen)})
	}
	return fs, named
}

func svcIndex(s *svcModel) int {
	for i, x := range s.File.Svcs {
		if x == s {
			return i
		}
	}
	return -1
}

func streamsBefore(s *svcModel) int {
	n := 0
	for _, x := range s.File.Svcs {
		if x == s {
			break
		}
		for _, m := range x.Methods {
			if m.Kind != kU {
				n++
			}
		}
	}
	return n
}

func kindsOf(s *svcModel) []string {
	var k []string
	for _, m := range s.Methods {
		k = append(k, m.Kind)
	}
	return k
}

// relDesc classifies a descriptor variable name relative to the expected one.
func relDesc(got string, s *svcModel, all []*svcModel, o optModel) string {
	for _, x := range all {
		if x != s && got == o.descVar(x) {
			return "other-service"
		}
	}
	alt := optModel{LegacyDesc: !o.LegacyDesc}
	if got == alt.descVar(s) {
		return "other-naming-scheme"
	}
	return "other"
}

var unusedImport = regexp.MustCompile(`"([^"]+)" imported(?: as \w+)? and not used`)

var posPrefix = regexp.MustCompile(`^[^ ]*:\d+:\d+: `)

func stripPos(s string) string { return posPrefix.ReplaceAllString(s, "") }

func firstLines(s string, n int) string {
	l := strings.Split(strings.TrimSpace(s), "\n")
	if len(l) > n {
		l = l[:n]
	}
	return strings.Join(l, " | ")
}

func firstN(s []string, n int) []string {
	if len(s) > n {
		return s[:n]
	}
	return s
}

func parseOnly(name, src string) (*ast.File, error) {
	return parser.ParseFile(fset, "emitted/"+name, src, 0)
}

// fileFacts: what must not depend on the order in which the files to generate are listed.
func fileFacts(res *pluginResult) (map[string]string, bool) {
	if res.Resp == nil || res.Resp.Error != nil {
		return nil, false
	}
	out := map[string]string{}
	for _, rf := range res.Resp.File {
		a, err := parser.ParseFile(fset, "emitted/"+rf.GetName(), rf.GetContent(), parser.ImportsOnly)
		if err != nil {
			return nil, false
		}
		var imps []string
		for _, im := range a.Imports {
			n := ""
			if im.Name != nil {
				n = im.Name.Name + " "
			}
			imps = append(imps, n+im.Path.Value)
		}
		sort.Strings(imps)
		out[rf.GetName()] = "package " + a.Name.Name + "; imports " + strings.Join(imps, ", ")
	}
	return out, true
}

// checkOrder: output names, package clauses and import sets are a function of
// the descriptors and options, not of the order of file_to_generate.
func checkOrder(c caseSpec, res, twin *pluginResult) []finding {
	a, okA := fileFacts(res)
	b, okB := fileFacts(twin)
	if !okA || !okB {
		if okA != okB {
			return []finding{{"file-order", "opt=" + c.OptKey + "|one-order-fails", fmt.Sprintf("the request succeeds with one order of file_to_generate only (%s: ok=%v, dependency-first: ok=%v)", c.Order, okA, okB)}}
		}
		return nil // reported by the other clauses
	}
	var names []string
	for n := range a {
		names = append(names, n)
	}
	for n := range b {
		if _, ok := a[n]; !ok {
			names = append(names, n)
		}
	}
	sort.Strings(names)
	for _, n := range names {
		fa, inA := a[n]
		fb, inB := b[n]
		switch {
		case !inA || !inB:
			return []finding{{"file-order", "opt=" + c.OptKey + "|output-names", fmt.Sprintf("output file %s is emitted with only one order of file_to_generate (%s: %v, dependency-first: %v)", n, c.Order, inA, inB)}}
		case fa != fb:
			what := "imports"
			if strings.SplitN(fa, ";", 2)[0] != strings.SplitN(fb, ";", 2)[0] {
				what = "package-clause"
			}
			return []finding{{"file-order", "opt=" + c.OptKey + "|" + what, fmt.Sprintf("%s differs with the order of file_to_generate: %s gives {%s}, dependency-first gives {%s}", n, c.Order, fa, fb)}}
		}
	}
	return nil
}
