package main

// The plugin-option dimension: every subset of the options the plugin parses,
// crossed with the descriptor shapes (see enumerate).
//
// An option set is a 7-bit mask over optAtoms. Each option that takes a value is
// given one representative value; `paths` is source_relative unless `module` is
// in the set too (the plugin rejects that pair by design), in which case the set
// is kept valid with paths=import and the rejected string is enumerated as an
// invalid-option case of its own.

import (
	"fmt"
	"go/ast"
	"go/parser"
	"go/token"
	"math/bits"
	"path/filepath"
	"sort"
	"strconv"
	"strings"

	"verif/seq/common"
)

const (
	oLegacy = 1 << iota
	oDescNames
	oPaths
	oModule
	oImportPath
	oM
	oDebug
	nOptAtoms = iota
)

// optAtoms: the options parseArgs of the plugin understands, in the canonical
// order used for option-set names and parameter strings.
var optAtoms = []string{"legacy_stubs", "legacy_desc_names", "paths", "module", "import_path", "M", "debug"}

type crossOpt struct {
	optSet
	Mask    int
	Invalid bool // a string the plugin must reject (paths=source_relative with module)
}

// masksBySize: all masks, smallest option set first (so that every proper subset
// of a set is enumerated before the set itself).
func masksBySize() []int {
	var ms []int
	for m := 0; m < 1<<nOptAtoms; m++ {
		ms = append(ms, m)
	}
	sort.SliceStable(ms, func(i, j int) bool {
		if a, b := bits.OnesCount(uint(ms[i])), bits.OnesCount(uint(ms[j])); a != b {
			return a < b
		}
		return ms[i] < ms[j]
	})
	return ms
}

// renderOptSet gives the name and parameter string of one option set. mWhich
// says which files the M option maps: "main" or "both" (main file and imported file).
func renderOptSet(mask int, pkg, dep, mWhich string, pathsValue string) optSet {
	mainF := mainFileName(pkg)
	d := dep
	if d == "" {
		d = "other"
	}
	depF := depFileName(pkg, d)
	var key, par []string
	if mask&oLegacy != 0 {
		key, par = append(key, "legacy"), append(par, "legacy_stubs")
	}
	if mask&oDescNames != 0 {
		key, par = append(key, "descnames"), append(par, "legacy_desc_names")
	}
	if mask&oPaths != 0 {
		key, par = append(key, "paths="+pathsValue), append(par, "paths="+pathsValue)
	}
	if mask&oModule != 0 {
		key, par = append(key, "module"), append(par, "module=example.com/gen")
	}
	if mask&oImportPath != 0 {
		key, par = append(key, "import_path"), append(par, "import_path=example.com/ip/q")
	}
	if mask&oM != 0 {
		switch mWhich {
		case "both":
			key = append(key, "Mboth")
			par = append(par, "M"+mainF+"=example.com/mapped/mm;mmpkg", "M"+depF+"=example.com/mapped/dd;ddpkg")
		default:
			key = append(key, "Mmain")
			par = append(par, "M"+mainF+"=example.com/mapped/mm;mmpkg")
		}
	}
	if mask&oDebug != 0 {
		key, par = append(key, "debug"), append(par, "debug")
	}
	if mask == 0 {
		return optSet{"none", ""}
	}
	return optSet{strings.Join(key, "+"), strings.Join(par, ",")}
}

// crossedOptSets: all 2^7 option sets (valid strings), smallest first, followed
// for every set that holds both paths and module by the string the plugin rejects.
func crossedOptSets(pkg, dep, mWhich string) []crossOpt {
	var out []crossOpt
	for _, m := range masksBySize() {
		pv := "source_relative"
		if m&oModule != 0 {
			pv = "import"
		}
		out = append(out, crossOpt{optSet: renderOptSet(m, pkg, dep, mWhich, pv), Mask: m})
	}
	for _, m := range masksBySize() {
		if m&oPaths != 0 && m&oModule != 0 {
			o := renderOptSet(m, pkg, dep, mWhich, "source_relative")
			o.Key = "invalid:" + o.Key
			out = append(out, crossOpt{optSet: o, Mask: m, Invalid: true})
		}
	}
	return out
}

// pluginOptionNames reads the option names out of parseArgs of the tree under
// check (string literals of its case clauses, "M" for the 'M' prefix test), so
// that the check can say whether its option alphabet is the plugin's.
func pluginOptionNames() ([]string, error) {
	src := filepath.Join(common.RepoDir(), "cmd", "protoc-gen-grpchan", "protoc-gen-grpchan.go")
	f, err := parser.ParseFile(token.NewFileSet(), src, nil, 0)
	if err != nil {
		return nil, err
	}
	set := map[string]bool{}
	found := false
	for _, d := range f.Decls {
		fd, ok := d.(*ast.FuncDecl)
		if !ok || fd.Name.Name != "parseArgs" || fd.Body == nil {
			continue
		}
		found = true
		ast.Inspect(fd.Body, func(n ast.Node) bool {
			switch x := n.(type) {
			case *ast.SwitchStmt:
				// only the switch over the option name (vals[0]); not the one over the value of paths
				if x.Tag == nil || !strings.Contains(exprString(x.Tag), "[0]") {
					return true
				}
				for _, s := range x.Body.List {
					cc := s.(*ast.CaseClause)
					for _, e := range cc.List {
						if l, ok := e.(*ast.BasicLit); ok && l.Kind == token.STRING {
							if v, err := strconv.Unquote(l.Value); err == nil {
								set[v] = true
							}
						}
					}
				}
			case *ast.BasicLit:
				if x.Kind == token.CHAR && x.Value == "'M'" {
					set["M"] = true
				}
			}
			return true
		})
	}
	if !found {
		return nil, fmt.Errorf("no func parseArgs in %s", src)
	}
	var out []string
	for k := range set {
		out = append(out, k)
	}
	sort.Strings(out)
	return out, nil
}

// optionAlphabetDiff compares the plugin's option names with optAtoms.
func optionAlphabetDiff(plugin []string) (missing, extra []string) {
	mine := map[string]bool{}
	for _, a := range optAtoms {
		mine[a] = true
	}
	theirs := map[string]bool{}
	for _, p := range plugin {
		theirs[p] = true
		if !mine[p] {
			missing = append(missing, p) // the plugin knows it, the grammar does not
		}
	}
	for _, a := range optAtoms {
		if !theirs[a] {
			extra = append(extra, a)
		}
	}
	return
}
