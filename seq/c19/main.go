// C19: generated stubs bind each method to its own path and stream descriptor.
//
// The plugin binary is built from the tree under check and fed synthetic
// CodeGeneratorRequests (descriptorpb); every emitted file is parsed,
// type-checked against a companion that declares what protoc-gen-go and
// protoc-gen-go-grpc would have produced for the same descriptor, and inspected
// by AST. The repository's own checked-in stubs are regenerated from the
// compiled-in descriptor and compared byte for byte.
package main

import (
	"fmt"
	"os"
	"path/filepath"
	"regexp"
	"runtime"
	"runtime/debug"
	"strings"
	"sync"

	"github.com/fullstorydev/grpchan/grpchantesting"
	"google.golang.org/protobuf/proto"
	"google.golang.org/protobuf/reflect/protodesc"
	"google.golang.org/protobuf/reflect/protoreflect"
	"google.golang.org/protobuf/types/descriptorpb"
	"google.golang.org/protobuf/types/pluginpb"

	"verif/seq/common"
	"verif/vlib"
)

// ---- grammar ---------------------------------------------------------------

// seqsUpTo returns every sequence of method kinds of length 0..n, shortest first.
func seqsUpTo(n int) [][]string {
	out := [][]string{{}}
	prev := [][]string{{}}
	for l := 1; l <= n; l++ {
		var cur [][]string
		for _, p := range prev {
			for _, k := range allKinds {
				s := append(append([]string{}, p...), k)
				cur = append(cur, s)
			}
		}
		out = append(out, cur...)
		prev = cur
	}
	return out
}

// maskSeqs returns, for every unary/streaming mask of the given length, the
// sequence whose streaming positions cycle through SS, CS, BD.
func maskSeqs(n int) [][]string {
	var out [][]string
	cyc := []string{kSS, kCS, kBD}
	for mask := 0; mask < 1<<n; mask++ {
		var s []string
		j := mask % 3 // vary which streaming kind comes first
		for i := 0; i < n; i++ {
			if mask&(1<<i) != 0 {
				s = append(s, cyc[j%3])
				j++
			} else {
				s = append(s, kU)
			}
		}
		out = append(out, s)
	}
	return out
}

type optSet struct{ Key, Param string }

func validOptSets(pkg, dep string) []optSet {
	mainF := mainFileName(pkg)
	d := dep
	if d == "" {
		d = "other"
	}
	depF := depFileName(pkg, d)
	return []optSet{
		{"legacy", "legacy_stubs"},
		{"none", ""},
		{"legacy=true", "legacy_stubs=true"},
		{"legacy=false", "legacy_stubs=false"},
		{"legacy+descnames", "legacy_stubs,legacy_desc_names"},
		{"descnames", "legacy_desc_names"},
		{"legacy+descnames=false", "legacy_stubs,legacy_desc_names=false"},
		{"legacy+paths=import", "legacy_stubs,paths=import"},
		{"legacy+paths=source_relative", "paths=source_relative,legacy_stubs"},
		{"legacy+module", "legacy_stubs,module=example.com/gen"},
		{"legacy+import_path", "legacy_stubs,import_path=example.com/ip/q"},
		{"legacy+Mmain", "legacy_stubs,M" + mainF + "=example.com/mapped/mm;mmpkg"},
		{"legacy+Mmain-noname", "legacy_stubs,M" + mainF + "=example.com/mapped/mm"},
		{"legacy+Mdep", "legacy_stubs,M" + depF + "=example.com/mapped/dd;ddpkg"},
		{"legacy+Mboth", "legacy_stubs,M" + mainF + "=example.com/mapped/mm;mmpkg,M" + depF + "=example.com/mapped/dd;ddpkg"},
		{"legacy+Mboth-same", "M" + mainF + "=example.com/mapped/one;onepkg,M" + depF + "=example.com/mapped/one;onepkg,legacy_stubs"},
		{"legacy+import_path+Mmain", "legacy_stubs,import_path=example.com/ip/q,M" + mainF + "=example.com/mapped/mm;mmpkg"},
		{"legacy+debug", "debug,legacy_stubs"},
	}
}

var invalidParams = []string{
	"legacy_stubs=maybe", "legacy_desc_names=2", "debug=x", "paths", "paths=", "paths=bogus", "module", "import_path",
	"Mfoo.proto", "M", "M=x", "bogus", "bogus=1", "legacy_stubs,unknown_opt", "=", "legacy_stubs=",
	"paths=source_relative,module=example.com/gen", "module=example.com/gen,legacy_stubs,paths=source_relative",
}

type typeVariant struct{ Req, Resp, Dep string }

var mainTypes = []typeVariant{{"L", "L", ""}, {"I", "I", "other"}, {"E", "E", ""}}

func allTypeVariants() []typeVariant {
	var out []typeVariant
	src := []string{"L", "N", "I", "E"}
	for _, a := range src {
		for _, b := range src {
			if a == "I" || b == "I" {
				for _, d := range []string{"other", "same", "grpcname", "ctxname"} {
					out = append(out, typeVariant{a, b, d})
				}
			} else {
				out = append(out, typeVariant{a, b, ""})
			}
		}
	}
	return out
}

func enumerate(tier string) []caseSpec {
	var cases []caseSpec
	seen := map[string]int{}
	add := func(c caseSpec) {
		k := c.key()
		if i, dup := seen[k]; dup {
			if c.xcross && !cases[i].xcross {
				// the same request was enumerated earlier outside a crossed group: it is
				// the member of this group for that option set
				cases[i].xcross, cases[i].xbase, cases[i].xmask = true, c.xbase, c.xmask
			}
			return
		}
		seen[k] = len(cases)
		cases = append(cases, c)
	}
	gen := func(svcs [][]string, naming, pkg string, tv typeVariant, o optSet) caseSpec {
		return caseSpec{Kind: "gen", Services: svcs, Naming: naming, Pkg: pkg, Req: tv.Req, Resp: tv.Resp, Dep: tv.Dep, OptKey: o.Key, Param: o.Param}
	}
	// cross: one descriptor shape under every subset of the plugin's options (2^7 valid option
	// sets, smallest first, + the 32 strings with paths=source_relative and module, which the
	// plugin must answer without crashing)
	cross := func(svcs [][]string, naming, pkg string, tv typeVariant, mWhich string, depSvc []string, order string) {
		for _, co := range crossedOptSets(pkg, tv.Dep, mWhich) {
			c := gen(svcs, naming, pkg, tv, co.optSet)
			c.DepSvc, c.Order = depSvc, order
			if co.Invalid {
				c.Kind = "invalid-opt"
			} else {
				base := c
				base.OptKey, base.Param = "", ""
				c.xcross, c.xbase, c.xmask = true, base.key()+"|M="+mWhich, co.Mask
			}
			add(c)
		}
	}
	s3, s2, s1 := seqsUpTo(3), seqsUpTo(2), seqsUpTo(1)
	namings := []string{"camel", "snake"}
	legacy, none := optSet{"legacy", "legacy_stubs"}, optSet{"none", ""}

	// --- quick: length <= 3 x default options ---
	// one service per file
	for _, tv := range mainTypes {
		for _, pkg := range []string{"p", "a.b.c", ""} {
			for _, nm := range namings {
				for _, s := range s3 {
					add(gen([][]string{s}, nm, pkg, tv, legacy))
					if tv.Req == "L" {
						add(gen([][]string{s}, nm, pkg, tv, none))
					}
				}
			}
		}
	}
	// two services per file
	for _, a := range s2 {
		for _, b := range s2 {
			add(gen([][]string{a, b}, "camel", "p", mainTypes[0], legacy))
		}
	}
	for _, a := range s3 {
		for _, b := range s1 {
			add(gen([][]string{a, b}, "camel", "p", mainTypes[0], legacy))
			add(gen([][]string{b, a}, "camel", "p", mainTypes[0], legacy))
		}
	}
	for _, a := range s1 {
		for _, b := range s1 {
			add(gen([][]string{a, b}, "snake", "a.b.c", mainTypes[1], legacy))
			add(gen([][]string{a, b}, "snake", "a.b.c", mainTypes[0], none))
		}
	}
	for _, a := range s1 {
		for _, b := range s1 {
			add(gen([][]string{a, b}, "camel", "", mainTypes[1], legacy))
		}
	}
	// two files generated by one request (the imported file declares a service too), both
	// orders of file_to_generate, under the options that decide Go packages and output names
	multiOpts := map[string]bool{"legacy": true, "legacy+import_path": true, "legacy+module": true, "legacy+paths=source_relative": true,
		"legacy+Mmain": true, "legacy+Mdep": true, "legacy+Mboth": true, "legacy+Mboth-same": true, "legacy+import_path+Mmain": true}
	for _, dep := range []string{"other", "same"} {
		for _, tv := range []typeVariant{{"I", "I", dep}, {"L", "I", dep}, {"L", "L", dep}} {
			for _, o := range validOptSets("p", dep) {
				if !multiOpts[o.Key] {
					continue
				}
				for _, order := range []string{"", "dependent-first"} {
					for _, a := range s1 {
						for _, b := range [][]string{{}, {kU}, {kBD}} {
							c := gen([][]string{a}, "camel", "p", tv, o)
							c.DepSvc, c.Order = b, order
							add(c)
						}
					}
				}
			}
		}
	}
	// the option set as a fully crossed dimension: every kind sequence <= 2 as a single service,
	// and every ordered pair of sequences <= 1 as a two-service file with imported types
	for _, s := range s2 {
		cross([][]string{s}, "camel", "p", mainTypes[0], "main", nil, "")
	}
	for _, a := range s1 {
		for _, b := range s1 {
			cross([][]string{a, b}, "snake", "a.b.c", mainTypes[1], "both", nil, "")
		}
	}
	// the sequence of file kinds in file_to_generate, and the proto paths M options refer to
	enumerateFiles(tier, add)
	enumeratePaths(tier, add)
	// every method with its own request/response pair, over messages that share names
	enumerateMTypes(tier, add)
	// the names of package, services and methods drawn from one alphabet of related identifiers
	enumerateNames(tier, add)
	if tier != "thorough" {
		return cases
	}

	// --- thorough ---
	pkgs := []string{"p", "a.b.c", ""}
	// A: one service, all sequences <= 3, all valid option sets
	for _, tv := range mainTypes {
		for _, pkg := range pkgs {
			for _, o := range validOptSets(pkg, tv.Dep) {
				for _, nm := range namings {
					for _, s := range s3 {
						add(gen([][]string{s}, nm, pkg, tv, o))
					}
				}
			}
		}
	}
	// B: every request/response type combination and dep placement, all option sets
	for _, tv := range allTypeVariants() {
		for _, pkg := range pkgs {
			for _, o := range validOptSets(pkg, tv.Dep) {
				for _, nm := range namings {
					for _, s := range s1 {
						add(gen([][]string{s}, nm, pkg, tv, o))
					}
					add(gen([][]string{{kU, kSS, kCS, kBD}}, nm, pkg, tv, o))
					add(gen([][]string{{kBD, kU}, {kCS, kSS, kU}}, nm, pkg, tv, o))
				}
			}
		}
	}
	// C: two services: every ordered pair of sequences <= 3; pairs <= 2 under all option sets
	for _, a := range s3 {
		for _, b := range s3 {
			add(gen([][]string{a, b}, "camel", "p", mainTypes[0], legacy))
		}
	}
	for _, o := range validOptSets("a.b.c", "other") {
		for _, a := range s2 {
			for _, b := range s2 {
				add(gen([][]string{a, b}, "snake", "a.b.c", mainTypes[1], o))
			}
		}
	}
	// D: three services
	for _, a := range s1 {
		for _, b := range s1 {
			for _, c := range s1 {
				add(gen([][]string{a, b, c}, "camel", "p", mainTypes[0], legacy))
				add(gen([][]string{a, b, c}, "snake", "a.b.c", mainTypes[2], optSet{"legacy+descnames", "legacy_stubs,legacy_desc_names"}))
			}
		}
	}
	// E: length 5 and 6 interleavings: every unary/streaming mask
	for _, n := range []int{5, 6} {
		for _, s := range maskSeqs(n) {
			for _, pkg := range pkgs {
				for _, nm := range namings {
					add(gen([][]string{s}, nm, pkg, mainTypes[0], legacy))
					add(gen([][]string{s}, nm, pkg, mainTypes[1], optSet{"legacy+descnames", "legacy_stubs,legacy_desc_names"}))
					add(gen([][]string{s[:n/2], s[n/2:]}, nm, pkg, mainTypes[2], legacy))
				}
			}
		}
	}
	// F: two generated files in one request (the imported file declares a service too)
	for _, dep := range []string{"other", "same"} {
		for _, tv := range []typeVariant{{"I", "I", dep}, {"L", "I", dep}, {"L", "L", dep}} {
			for _, o := range validOptSets("p", dep) {
				for _, nm := range namings {
					for _, order := range []string{"", "dependent-first"} {
						for _, a := range s1 {
							for _, b := range s1 {
								c := gen([][]string{a}, nm, "p", tv, o)
								c.DepSvc, c.Order = b, order
								add(c)
							}
						}
					}
				}
			}
		}
	}
	// X: the option set fully crossed with longer sequences, the other namings/packages/type
	// sources, two-service files and two-file requests
	xcfg := []struct{ nm, pkg string }{{"camel", "p"}, {"snake", "a.b.c"}, {"camel", ""}}
	for _, cf := range xcfg {
		for _, s := range s3 {
			cross([][]string{s}, cf.nm, cf.pkg, mainTypes[0], "main", nil, "")
		}
		for _, s := range s2 {
			cross([][]string{s}, cf.nm, cf.pkg, mainTypes[1], "both", nil, "")
			cross([][]string{s}, cf.nm, cf.pkg, mainTypes[2], "main", nil, "")
		}
	}
	for _, a := range s2 {
		for _, b := range s1 {
			cross([][]string{a, b}, "camel", "p", mainTypes[0], "main", nil, "")
			cross([][]string{b, a}, "camel", "p", mainTypes[0], "main", nil, "")
		}
	}
	for _, tv := range []typeVariant{{"I", "I", "other"}, {"L", "L", "same"}} {
		for _, order := range []string{"", "dependent-first"} {
			for _, a := range s1 {
				for _, b := range [][]string{{kU}, {kBD}} {
					cross([][]string{a}, "camel", "p", tv, "both", b, order)
				}
			}
		}
	}
	// G: invalid option strings
	for _, p := range invalidParams {
		for _, svcs := range [][][]string{{{}}, {{kU, kSS, kCS, kBD}}, {{kBD}, {kU, kSS}}} {
			c := gen(svcs, "camel", "p", mainTypes[0], optSet{"invalid:" + p, p})
			c.Kind = "invalid-opt"
			add(c)
		}
	}
	return cases
}

// ---- running one case --------------------------------------------------------

type outcome struct {
	c        caseSpec
	rm       *requestModel
	res      *pluginResult
	twin     *pluginResult // same request with file_to_generate in dependency order (only for Order != "")
	buildErr error
}

func execCase(c caseSpec) outcome {
	rm, err := buildModel(c)
	if err != nil {
		return outcome{c: c, buildErr: err}
	}
	o := outcome{c: c, rm: rm, res: runPlugin(rm.pb())}
	if c.Order != "" {
		t := *rm
		t.Order = ""
		o.twin = runPlugin(t.pb())
	}
	return o
}

func judge(o outcome) ([]finding, caseStats) {
	if o.buildErr != nil {
		return []finding{{"internal", "model", o.buildErr.Error()}}, caseStats{}
	}
	if o.res.TimedOut || (o.twin != nil && o.twin.TimedOut) {
		return []finding{{"internal", "hang-guard", "the plugin did not answer within 60 s"}}, caseStats{}
	}
	if o.c.Kind == "invalid-opt" {
		return checkInvalid(o.c, o.res)
	}
	fs, st := checkResponse(o.c, o.rm, o.res)
	if o.twin != nil {
		fs = append(fs, checkOrder(o.c, o.res, o.twin)...)
	}
	return fs, st
}

// checkInvalid: an option string the plugin cannot accept must be answered with
// a well-formed response (normally carrying an error), never with a crash; and
// whatever is emitted must still parse.
func checkInvalid(c caseSpec, res *pluginResult) ([]finding, caseStats) {
	var fs []finding
	st := caseStats{}
	switch {
	case res.Panicked:
		fs = append(fs, finding{"panic", "opt=" + c.OptKey, "plugin panicked on option string " + c.Param + ": " + firstLines(res.Stderr, 6)})
	case res.ExitErr != "" || res.BadResp != "":
		fs = append(fs, finding{"crash", "opt=" + c.OptKey, fmt.Sprintf("plugin produced no CodeGeneratorResponse for option string %q: exit=%q resp=%q stderr=%s", c.Param, res.ExitErr, res.BadResp, firstLines(res.Stderr, 4))})
	case res.Resp.Error != nil:
		st.Observed = "error: " + res.Resp.GetError()
	default:
		st.Observed = fmt.Sprintf("accepted, %d files", len(res.Resp.File))
		for _, rf := range res.Resp.File {
			if _, err := parseOnly(rf.GetName(), rf.GetContent()); err != nil {
				fs = append(fs, finding{"parse", "opt=" + c.OptKey, fmt.Sprintf("emitted file %s does not parse: %v", rf.GetName(), err)})
			}
		}
	}
	return fs, st
}

// ---- regeneration ------------------------------------------------------------

func regenParam() string {
	b, err := os.ReadFile(filepath.Join(common.RepoDir(), "grpchantesting", "test_service.go"))
	if err == nil {
		if m := regexp.MustCompile(`(?m)^//go:generate .*--grpchan_out=([^: ]*):`).FindSubmatch(b); m != nil {
			return string(m[1])
		}
	}
	return "legacy_stubs"
}

func collectFiles(fd protoreflect.FileDescriptor, seen map[string]bool, out *[]*descriptorpb.FileDescriptorProto) {
	if seen[fd.Path()] {
		return
	}
	seen[fd.Path()] = true
	imps := fd.Imports()
	for i := 0; i < imps.Len(); i++ {
		collectFiles(imps.Get(i).FileDescriptor, seen, out)
	}
	*out = append(*out, protodesc.ToFileDescriptorProto(fd))
}

func runRegen() ([]finding, string, error) {
	var files []*descriptorpb.FileDescriptorProto
	collectFiles(grpchantesting.File_test_proto, map[string]bool{}, &files)
	param := regenParam()
	req := &pluginpb.CodeGeneratorRequest{
		FileToGenerate:  []string{grpchantesting.File_test_proto.Path()},
		ProtoFile:       files,
		CompilerVersion: &pluginpb.Version{Major: proto.Int32(3), Minor: proto.Int32(21), Patch: proto.Int32(12)},
	}
	if param != "" {
		req.Parameter = proto.String(param)
	}
	want, err := os.ReadFile(filepath.Join(common.RepoDir(), "grpchantesting", "test.pb.grpchan.go"))
	if err != nil {
		return nil, "", err
	}
	res := runPlugin(req)
	var fs []finding
	switch {
	case res.Panicked:
		return []finding{{"regen", "panic", "plugin panicked on test.proto: " + firstLines(res.Stderr, 6)}}, "", nil
	case res.ExitErr != "" || res.BadResp != "":
		return []finding{{"regen", "crash", fmt.Sprintf("no response for test.proto: %s %s %s", res.ExitErr, res.BadResp, firstLines(res.Stderr, 4))}}, "", nil
	case res.Resp.Error != nil:
		return []finding{{"regen", "plugin-error", "plugin rejected test.proto: " + res.Resp.GetError()}}, "", nil
	}
	if len(res.Resp.File) != 1 {
		return []finding{{"regen", fmt.Sprintf("files=%d", len(res.Resp.File)), fmt.Sprintf("regenerating test.proto produced %d files, want 1", len(res.Resp.File))}}, "", nil
	}
	got := res.Resp.File[0].GetContent()
	obs := fmt.Sprintf("param=%q emitted %s, %d bytes; checked-in %d bytes", param, res.Resp.File[0].GetName(), len(got), len(want))
	if got != string(want) {
		gl, wl := strings.Split(got, "\n"), strings.Split(string(want), "\n")
		i := 0
		for i < len(gl) && i < len(wl) && gl[i] == wl[i] {
			i++
		}
		g, w := "<eof>", "<eof>"
		if i < len(gl) {
			g = strings.TrimSpace(gl[i])
		}
		if i < len(wl) {
			w = strings.TrimSpace(wl[i])
		}
		fs = append(fs, finding{"regen", fmt.Sprintf("test.pb.grpchan.go|first-diff-line=%d", i+1),
			fmt.Sprintf("regenerated test.pb.grpchan.go (options %q) differs from the checked-in file at line %d: generated %q, checked-in %q", param, i+1, g, w)})
	}
	return fs, obs, nil
}

// ---- main ----------------------------------------------------------------------

func inconclusive(format string, a ...interface{}) {
	fmt.Fprintf(os.Stderr, "INCONCLUSIVE: "+format+"\n", a...)
	os.Exit(2)
}

func main() {
	debug.SetMemoryLimit(6 << 30)
	rep := vlib.NewReporter("C19")

	tmp, err := os.MkdirTemp("", "verif-c19-")
	if err != nil {
		inconclusive("%v", err)
	}
	code := 2
	defer func() {
		os.RemoveAll(tmp)
		os.Exit(code)
	}()
	fail := func(format string, a ...interface{}) {
		fmt.Fprintf(os.Stderr, "INCONCLUSIVE: "+format+"\n", a...)
		code = 2
	}
	if err := buildPlugin(tmp); err != nil {
		fail("%v", err)
		return
	}
	if err := initImporter(); err != nil {
		fail("%v", err)
		return
	}

	if err := selfTest(); err != nil {
		fail("%v", err)
		return
	}
	pluginOpts, err := pluginOptionNames()
	if err != nil {
		fail("%v", err)
		return
	}
	optMissing, optExtra := optionAlphabetDiff(pluginOpts)
	if len(optMissing) > 0 {
		fmt.Fprintf(os.Stderr, "note: parseArgs of the plugin understands options the grammar does not enumerate: %v\n", optMissing)
	}

	if p := common.Arg("replay"); p != "" {
		var c caseSpec
		if err := common.LoadReplay(p, &c); err != nil {
			fail("%v", err)
			return
		}
		var fs []finding
		if c.Kind == "regen" {
			var obs string
			fs, obs, err = runRegen()
			if err != nil {
				fail("%v", err)
				return
			}
			fmt.Println("replay: regen:", obs)
		} else {
			o := execCase(c)
			var st caseStats
			fs, st = judge(o)
			fmt.Printf("replay: %s\n  observed: %s\n", c.key(), st.Observed)
			if o.res != nil && o.res.Resp != nil {
				for _, f := range o.res.Resp.File {
					fmt.Printf("--- emitted %s ---\n%s\n", f.GetName(), f.GetContent())
				}
				if o.res.Resp.Error != nil {
					fmt.Println("  plugin error:", o.res.Resp.GetError())
				}
			}
		}
		for _, f := range fs {
			fmt.Printf("  C19|%s|%s: %s\n", f.Clause, f.Detail, f.What)
		}
		if len(fs) > 0 {
			fmt.Printf("VIOLATION property=C19 replay=%s\n", p)
			code = 1
			return
		}
		code = 0
		return
	}

	cases := enumerate(rep.Tier)
	evals := 0
	distinct := map[string]bool{}
	var samples []interface{}
	totals := caseStats{}
	internal := 0
	crossSeen := map[string][]int{}
	crossBases := map[string]bool{}
	crossCases, subsumed := 0, 0
	fileSeqs, pathPairs := map[string]bool{}, map[string]bool{}
	mtypesCases, mtypesAssignments := 0, map[string]bool{}
	namesCases, namesRelations := 0, map[string]bool{}

	// the plugin runs in parallel; the oracle consumes the outcomes in enumeration order
	const chunk = 1024
	workers := runtime.NumCPU()
	if workers > 16 {
		workers = 16
	}
	for lo := 0; lo < len(cases); lo += chunk {
		hi := lo + chunk
		if hi > len(cases) {
			hi = len(cases)
		}
		outs := make([]outcome, hi-lo)
		var wg sync.WaitGroup
		next := make(chan int)
		for w := 0; w < workers; w++ {
			wg.Add(1)
			go func() {
				defer wg.Done()
				for i := range next {
					outs[i-lo] = execCase(cases[i])
				}
			}()
		}
		for i := lo; i < hi; i++ {
			next <- i
		}
		close(next)
		wg.Wait()
		for i, o := range outs {
			evals++
			fs, st := judge(o)
			totals.Registrations += st.Registrations
			totals.Methods += st.Methods
			totals.StreamIndexes += st.StreamIndexes
			totals.TypeChecked += st.TypeChecked
			totals.DescRefs += st.DescRefs
			totals.OutputNames += st.OutputNames
			totals.FileSets += st.FileSets
			if st.Registrations > 0 || st.Methods > 0 || (o.c.Kind == "invalid-opt" && st.Observed != "") || (o.c.Kind == "files" && st.FileSets > 0) {
				distinct[o.c.key()] = true
			}
			if o.c.Kind == "files" {
				fileSeqs[strings.Join(o.c.FileKinds, ",")] = true
			}
			if o.c.Kind == "mtypes" && st.Methods > 0 {
				mtypesCases++
				mtypesAssignments[o.c.shapeKey()] = true
			}
			if o.c.Kind == "names" && (st.Methods > 0 || st.Registrations > 0) {
				namesCases++
				namesRelationSet(o.c, namesRelations)
			}
			if o.c.MainPath != "" || o.c.DepPath != "" {
				pathPairs[o.c.mainPath()+" <- "+o.c.depPath()] = true
			}
			if n := lo + i; n%(len(cases)/6+1) == 7 && len(samples) < 8 {
				samples = append(samples, map[string]interface{}{"case": o.c, "observed": st.Observed})
			}
			if o.c.xcross {
				crossCases++
				crossBases[o.c.xbase] = true
			}
			for _, f := range fs {
				if f.Clause == "internal" {
					internal++
					fmt.Fprintf(os.Stderr, "internal error on %s: %s: %s\n", o.c.key(), f.Detail, f.What)
					continue
				}
				if o.c.xcross {
					// within a fully crossed option group a finding is reported under the minimal
					// option sets that show it: it is dropped when the same clause and detail (option
					// set aside) was already observed for the same request under a proper subset
					core := o.c.xbase + "||" + f.Clause + "|" + strings.ReplaceAll(f.Detail, "opt="+o.c.OptKey, "opt=*")
					sub := false
					for _, m := range crossSeen[core] {
						if m != o.c.xmask && m&o.c.xmask == m {
							sub = true
						}
					}
					crossSeen[core] = append(crossSeen[core], o.c.xmask)
					if sub {
						subsumed++
						continue
					}
				}
				rep.Violation("C19|"+f.Clause+"|"+f.Detail, f.What+"  [case "+o.c.key()+"]", o.c)
			}
		}
	}

	// regeneration of the checked-in stubs
	evals++
	fs, obs, err := runRegen()
	if err != nil {
		fail("regeneration: %v", err)
		return
	}
	distinct["regen"] = true
	samples = append(samples, map[string]interface{}{"case": "regen grpchantesting/test.pb.grpchan.go", "observed": obs})
	for _, f := range fs {
		rep.Violation("C19|"+f.Clause+"|"+f.Detail, f.What, caseSpec{Kind: "regen", OptKey: "repo", Param: regenParam()})
	}

	if internal > 0 {
		fail("%d internal errors of the checker", internal)
		return
	}
	// the grammar is the stated one only if its option alphabet is the plugin's
	exhaustive := len(optMissing) == 0
	code = rep.Finish("exploration", map[string]interface{}{
		"evaluations":         evals,
		"distinct_nontrivial": len(distinct),
		"rule": "a case (= one CodeGeneratorRequest: services x method-kind sequences x naming x proto package x request/response type source x dep placement x proto paths of the generated and the imported file x option string; or a sequence of file kinds x Go package layout x option string; or services x methods, each a (kind, request message, response message) triple, x proto package x option string; or proto package x services, each a name and a sequence of (kind, method name), x option string) is non-trivial when the plugin emitted a file in which at least one RegisterHandler function or legacy client method was located and compared with the model (or, for an invalid option string, when the plugin answered at all; or, for a file-kind sequence, when the set of emitted files was compared with the set of files that declare a service, which for a sequence of message-only files is the comparison with the empty set); distinct by the full case key. " +
			"Every valid request is also judged on the set and the location of its output: exactly one file per file_to_generate that declares a service, at the name protoc-gen-go/-go-grpc give the same file under the same options (paths, module, M, import_path, go_package), none for a file without services, no error. " +
			"File-kind dimension (both tiers): all 85 sequences of length 1..3 in file_to_generate over {S: service over own messages, M: messages only, I<t>: service over the messages of file t}, t ranging over every S or M file of the sequence and a file of the request that is not generated (39 kind orders x choices of t), x {one Go package for all files, one per file} x 8-9 option strings that decide packages and output names (none, legacy_stubs, import_path, module, paths=source_relative, M for the first / the last / all files to one package / all files to distinct packages); thorough x {camel, snake}. " +
			"Proto path dimension: a 15-path alphabet + the default path, for the generated file and for the file its types are imported from (no directory, lower-case m, capital M / MM as directory, as file name and as prefix of another path of the alphabet, nested directories, '-' '.' '_' and digits, .protodevel, option names as path elements); quick: every path for either file with the other at its default x 12 option strings (M for the generated file with and without package name, for the imported file, for both, both to one package, with import_path, with paths=source_relative, with module; legacy_stubs on and off) x 5 file relations (imported file not generated; generated too, both orders of file_to_generate; same Go package; part of the request but unused) x 3 service shapes ({U,SS}, {BD}, no methods), + every ordered pair of distinct paths x {M for the generated, the imported, both files}; thorough: every ordered pair x everything (requests in which two generated files would get one output name are not members). " +
			"Per-method type dimension (kind mtypes): every method has its own (request, response) pair over an 8-message alphabet in which different messages share their simple name and some their Go name (Msg: top-level, nested in Get, nested in List, imported from another proto/Go package; Empty: google.protobuf.Empty and a local message; Other: local and imported); oracle as everywhere: the emitted file type-checks against the protoc-gen-go/-go-grpc declarations, whose method signatures name each method's own types, + path, call shape, stream index. quick (6 letters: Msg x4, Empty x2), package p, legacy_stubs: every ordered pair of unary methods x all 6^4 assignments x {one service, two services}; all 16 ordered kind pairs x {both echo, same request T and responses 6^2, same response T and requests 6^2} x {one, two services}; every triple of echo unary methods as one and as three services; echo unary pairs x {none, descnames, import_path, M main, M dep, M both}. thorough: the same with all 8 letters, the triples with every split into services and a streaming method in the middle, + over the 6 letters: all 16 kind pairs x all 6^4 assignments as one service; unary pairs x all 6^4 assignments for the packages a.b.c and none; {p, a.b.c, no package} x 7 option strings x the echo / same-request / same-response unary pairs. " +
			"Name dimension (kind names): the proto package, the service names and the method names are drawn from one alphabet of identifiers related to each other in every way two names can be (identifier_alphabet: equal, proper prefix, proper suffix, repeated, one-letter prefix, unrelated, equal up to case, snake_case with a shared word; package_alphabet: none, unrelated, the name in lower case and capitalised as the whole package, as last component, as first of two, as proper prefix of a middle component, twice); oracle as everywhere (path \"/<full service name>/<method>\" computed from the model, call shape, stream index, registration function, type-check against the protoc-gen-go/-go-grpc declarations). quick (8 identifiers, 8 packages), legacy_stubs: every package x every service name x every method name x the 4 kinds as a one-method service; {p, Echo, a.Echo} x service {Echo, EchoAll, Get} x every ordered pair of distinct method names x kind pairs {(U,U), (SS,BD), (BD,U)}; {p, Echo, a.Echo} x every ordered pair of distinct service names, each with one method {Echo, EchoAll, Get} x {U, BD} x {legacy_stubs, +legacy_desc_names} and without options x {Echo} x {U}. thorough: 12 identifiers (+ digit suffix, all capitals, lowerCamel, snake_case with the word last) and 14 packages: the one-method grid, and over the quick alphabets for kind U also under legacy_desc_names and without options; the two-method grid over every package x kind pairs {(U,U), (SS,BD)}; the two-service grid over every package under legacy_stubs, and x {Echo} x {BD with legacy_desc_names, U without options}. Files for which protoc-gen-go/-go-grpc themselves would declare one Go identifier twice are not members. name_relations_covered lists the relations of a method name to its service name and to a component of its package that were compared. " +
			"The option set is a fully crossed dimension: all 2^7 = 128 subsets of the options parseArgs understands {legacy_stubs, legacy_desc_names, paths, module, import_path, M..., debug} (one representative value per valued option; paths=source_relative, or paths=import when module is in the set, the rejected pair paths=source_relative+module being enumerated as 32 invalid strings), each with a companion (the protoc-gen-go/-go-grpc declarations the output is type-checked against) synthesised for that option set, i.e. declaring _<Svc>_serviceDesc exactly when legacy_desc_names is on. In a crossed group a finding is reported under the minimal option sets that show it (dropped when the same clause/detail was observed for the same descriptor under a proper subset; count in subsumed_findings). " +
			"quick: the 128+32 option strings x (every kind sequence of length 0..2 as a single service, camel, package p, local types, M mapping the file) and x (every ordered pair of sequences <= 1 as a two-service file, snake, package a.b.c, imported types, M mapping both files); " +
			"every kind sequence of length 0..3 as a single service x {camel,snake} x {p,a.b.c,no package} x {local, imported, Empty} with legacy_stubs (+ no options for local), two-service files for every ordered pair of sequences <= 2 and every (<=3, <=1)/(<=1, <=3) pair, requests generating two files (dependency in another/the same Go package) x both orders of file_to_generate x 9 package/output-name options (import_path, module, paths, M...) with an order-invariance comparison of output names, package clauses and import sets, + regeneration. " +
			"thorough adds: 18 valid option strings x all <=3 sequences x 3 packages; all 37 request/response type-source/dep-placement variants x all option strings; every ordered pair of <=3 sequences in a two-service file; three-service files; every unary/streaming mask of length 5 and 6; requests generating two files; 18 invalid option strings; " +
			"the 128+32 crossed option strings x (every sequence <= 3 x {camel/p, snake/a.b.c, camel/no package} with local types; every sequence <= 2 x the same three x {imported, Empty} types; two-service files for every (<=2, <=1)/(<=1, <=2) pair; two-file requests x both orders of file_to_generate x {dependency in another, the same Go package} x sequences <= 1 x dependency service {U, BD}).",
		"option_alphabet":                   optAtoms,
		"plugin_options_found_in_source":    pluginOpts,
		"plugin_options_not_enumerated":     optMissing,
		"grammar_options_unknown_to_plugin": optExtra,
		"option_subsets":                    1 << nOptAtoms,
		"crossed_descriptor_shapes":         len(crossBases),
		"crossed_cases":                     crossCases,
		"subsumed_findings":                 subsumed,
		"descriptor_references_compared":    totals.DescRefs,
		"registrations_compared":            totals.Registrations,
		"client_methods_compared":           totals.Methods,
		"stream_indexes_compared":           totals.StreamIndexes,
		"emitted_files_typechecked":         totals.TypeChecked,
		"output_names_compared":             totals.OutputNames,
		"file_sets_compared":                totals.FileSets,
		"file_kind_sequences":               len(fileSeqs),
		"proto_path_alphabet":               protoPaths,
		"proto_path_pairs":                  len(pathPairs),
		"per_method_type_cases":             mtypesCases,
		"per_method_type_assignments":       len(mtypesAssignments),
		"message_alphabet":                  msgAlphabet,
		"name_cases":                        namesCases,
		"name_relations_covered":            sortedKeys(namesRelations),
		"identifier_alphabet":               map[string][]string{"quick": identAlphabet, "thorough": identAlphabetThorough},
		"package_alphabet":                  map[string][]string{"quick": pkgAlphabet, "thorough": pkgAlphabetThorough},
		"samples":                           samples,
		"exhaustive":                        exhaustive,
	}, []string{
		"the per-method type dimension is bounded at two methods per file (three for echo unary methods), camel names and the option strings that decide how a message type is qualified; it is not crossed with the proto path, file-kind and 128-option-subset dimensions",
		"the name dimension is bounded at two methods or two services per file, one file per request, identifiers in CamelCase or lower snake_case (the styles for which the Go name is unambiguous), request/response messages with names unrelated to the alphabet (Req, Resp); it is crossed with the options that decide what the stubs contain (legacy_stubs, legacy_desc_names), not with the 128 option subsets, proto paths, file kinds or per-method types",
		"the proto path and file-kind dimensions are swept around one base descriptor each (package p, camel names, service shapes named in the rule) and the option strings that decide Go packages and output names, not crossed with the 128 option subsets or with the method-kind sequences",
		"a path named by an M option cannot contain ',' or '=' (protoc splits the parameter at ',', the option syntax at the first '='); such paths are outside the alphabet",
		"output location: no reference exists, and none is demanded, when module= is given and the Go package of a file lies outside that module (protoc-gen-go rejects the request)",
		"valued options are enumerated with one representative value each inside the crossed dimension (other values and M placements: the 18 named option strings); the textual order of the options in the parameter string is the canonical one",
		"protoc itself is not run: requests are built with descriptorpb and validated by the plugin's own descriptor loader",
		"the companion file models protoc-gen-go-grpc v1.1 (non-generic stream wrappers), the version the repository's Makefile pins",
		"type-checking uses go/types with export data of the dependency versions in the repository's go.mod",
	})
}
