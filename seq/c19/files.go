package main

// Two dimensions of the request that are about *files* rather than about the
// services inside one file:
//
//   - the sequence of file kinds in file_to_generate (kind "files"): every
//     sequence of length 1..3 over {S: service over own messages, M: messages
//     only, I: service over the messages of another file of the request}, with
//     every choice of the file an I file imports from, in every order;
//   - the proto path alphabet: the paths of the generated file and of the file
//     its request/response types are imported from, which is what the
//     M<path>=<go package> options refer to.

import (
	"fmt"
	"strconv"
	"strings"
)

// ---- proto path alphabet -----------------------------------------------------

// protoPaths: the paths a file of the request is given. The first one in each of
// mainPaths/depPaths is the path the grammar used before this dimension existed.
// '=' and ',' cannot occur in a path an M option refers to (protoc splits the
// parameter at ',', the plugin splits an option at its first '=').
var protoPaths = []string{
	"svc.proto",                // no directory
	"m/svc.proto",              // lower-case m directory
	"main.proto",               // lower-case m file, no directory
	"M/svc.proto",              // directory "M"
	"M.proto",                  // file "M"
	"Main.proto",               // capital M file, no directory
	"Msvc.proto",               // "M" + another path of the alphabet
	"MMain.proto",              // two capital Ms
	"MM/MM.proto",              // ... in directory and file
	"Models/M/types.proto",     // nested directories
	"a/b/c/Deep.proto",         // nested, lower-case
	"mM/Mm.proto",              // mixed
	"x-y.z/my_svc-v1.2.proto",  // '-', '.', '_' and digits
	"N/Other.protodevel",       // the other extension protoc-gen-go strips
	"legacy_stubs/paths.proto", // option names as path elements
}

func mainPaths() []string { return append([]string{"p/svc.proto"}, protoPaths...) }
func depPaths() []string  { return append([]string{"p/dep/dep.proto"}, protoPaths...) }

// leadM: the run of 'M' a path starts with ("-" when it starts with something else): the part
// of a path that is adjacent to the option letter in an M<path>=... option.
func leadM(p string) string {
	n := 0
	for n < len(p) && p[n] == 'M' {
		n++
	}
	if n == 0 {
		return "-"
	}
	return p[:n]
}

// mOptSets: the option strings that map Go packages of the two files of a "gen" case.
func mOptSets(mainF, depF string) []optSet {
	mm, dd := "M"+mainF+"=example.com/mapped/mm;mmpkg", "M"+depF+"=example.com/mapped/dd;ddpkg"
	return []optSet{
		{"legacy", "legacy_stubs"},
		{"legacy+Mmain", "legacy_stubs," + mm},
		{"legacy+Mmain-noname", "legacy_stubs,M" + mainF + "=example.com/mapped/mm"},
		{"legacy+Mdep", "legacy_stubs," + dd},
		{"legacy+Mboth", "legacy_stubs," + mm + "," + dd},
		{"Mboth", dd + "," + mm},
		{"legacy+Mboth-same", "M" + mainF + "=example.com/mapped/one;onepkg,M" + depF + "=example.com/mapped/one;onepkg,legacy_stubs"},
		{"legacy+import_path+Mmain", "legacy_stubs,import_path=example.com/ip/q," + mm},
		{"legacy+import_path+Mdep", "legacy_stubs,import_path=example.com/ip/q," + dd},
		{"legacy+paths=source_relative+Mboth", "legacy_stubs,paths=source_relative," + mm + "," + dd},
		{"legacy+paths=source_relative", "legacy_stubs,paths=source_relative"},
		{"legacy+module+Mboth", "legacy_stubs,module=example.com/mapped," + mm + "," + dd},
	}
}

// outputsCollide: the options give two service-declaring files of the request the same output
// name (same Go package or directory, same base name). protoc rejects such a run whatever the
// plugin; it is not a member of the grammar.
func outputsCollide(c caseSpec) bool {
	rm, err := buildModel(c)
	if err != nil {
		return false
	}
	o := parseParam(c.Param)
	o.Module = ""
	seen := map[string]bool{}
	for _, f := range rm.Files {
		if f.Generate && len(f.Svcs) > 0 {
			n, _ := o.outputName(f)
			if seen[n] {
				return true
			}
			seen[n] = true
		}
	}
	return false
}

type pathVariant struct {
	tv     typeVariant
	depSvc []string
	order  string
}

// pathVariants: how the two files are related: the imported file supplies the types and is not
// generated; it is generated too (both orders of file_to_generate); it lives in the Go package
// of the main file; the main file uses its own types only (the M option for the imported file
// then refers to a file that is just part of the request).
var pathVariants = []pathVariant{
	{typeVariant{"I", "I", "other"}, nil, ""},
	{typeVariant{"I", "I", "other"}, []string{kBD}, ""},
	{typeVariant{"I", "I", "other"}, []string{kU}, "dependent-first"},
	{typeVariant{"L", "I", "same"}, nil, ""},
	{typeVariant{"L", "L", "other"}, []string{kSS}, ""},
}

var pathShapes = [][]string{{kU, kSS}, {kBD}, {}}

// enumeratePaths adds the proto path dimension.
//
// quick: every path of the alphabet for the generated file (imported file at its default
// path) and for the imported file (generated file at its default path) x the 12 M option
// strings x 5 file relations x 3 service shapes; every ordered pair of distinct paths x the
// first relation x {U,SS} x the option strings that map the imported / the generated / both.
// thorough: every ordered pair x everything.
func enumeratePaths(tier string, add func(caseSpec)) {
	mk := func(mp, dp string, v pathVariant, shape []string, o optSet) {
		c := caseSpec{Kind: "gen", Services: [][]string{shape}, Naming: "camel", Pkg: "p", Req: v.tv.Req, Resp: v.tv.Resp, Dep: v.tv.Dep,
			DepSvc: v.depSvc, Order: v.order, OptKey: o.Key, Param: o.Param}
		if mp != mainFileName("p") {
			c.MainPath = mp
		}
		if dp != depFileName("p", v.tv.Dep) {
			c.DepPath = dp
		}
		if outputsCollide(c) {
			return // two files to generate with one output name: no generator accepts that request
		}
		add(c)
	}
	all := func(mp, dp string) {
		if mp == dp {
			return
		}
		for _, o := range mOptSets(mp, dp) {
			for _, v := range pathVariants {
				for _, sh := range pathShapes {
					mk(mp, dp, v, sh, o)
				}
			}
		}
	}
	mps, dps := mainPaths(), depPaths()
	for _, mp := range mps {
		all(mp, dps[0])
	}
	for _, dp := range dps {
		all(mps[0], dp)
	}
	pairOpts := map[string]bool{"legacy+Mmain": true, "legacy+Mdep": true, "legacy+Mboth": true}
	for _, mp := range mps {
		for _, dp := range dps {
			if mp == dp {
				continue
			}
			if tier == "thorough" {
				all(mp, dp)
				continue
			}
			for _, o := range mOptSets(mp, dp) {
				if pairOpts[o.Key] {
					mk(mp, dp, pathVariants[0], pathShapes[0], o)
				}
			}
		}
	}
}

// ---- sequences of file kinds ----------------------------------------------------

// fileKindSeqs: every sequence of length 1..n over {S, M, I}, an I entry being expanded into one
// entry per file it can take its types from: every S or M file of the sequence, and "x", a file
// that is part of the request but not generated.
func fileKindSeqs(n int) [][]string {
	var out [][]string
	var rec func(prefix []string, l int)
	expand := func(base []string) {
		// base holds S, M, I; expand the I entries
		var exp func(i int, cur []string)
		exp = func(i int, cur []string) {
			if i == len(base) {
				out = append(out, append([]string{}, cur...))
				return
			}
			if base[i] != "I" {
				exp(i+1, append(cur, base[i]))
				return
			}
			for j, k := range base {
				if j != i && k != "I" {
					exp(i+1, append(cur, "I"+strconv.Itoa(j+1)))
				}
			}
			exp(i+1, append(cur, "Ix"))
		}
		exp(0, nil)
	}
	rec = func(prefix []string, l int) {
		if len(prefix) == l {
			expand(prefix)
			return
		}
		for _, k := range []string{"S", "M", "I"} {
			rec(append(append([]string{}, prefix...), k), l)
		}
	}
	for l := 1; l <= n; l++ {
		rec(nil, l)
	}
	return out
}

func seqFileName(i int, kind string) string {
	switch kind[0] {
	case 'S':
		return fmt.Sprintf("p/svc%d.proto", i+1)
	case 'M':
		return fmt.Sprintf("p/msgs%d.proto", i+1)
	}
	return fmt.Sprintf("p/api%d.proto", i+1)
}

const seqSharedFile = "p/shared.proto"

// the method kinds of the service of the i-th file: a unary and a streaming method, a streaming
// method before a unary one, a single bidi method (whose stub names no message type at all)
var seqSvcKinds = [][]string{{kU, kSS}, {kCS, kU}, {kBD}}

func buildFilesModel(c caseSpec) (*requestModel, error) {
	n := len(c.FileKinds)
	if n == 0 || n > len(seqSvcKinds) {
		return nil, fmt.Errorf("a files case needs 1..%d files", len(seqSvcKinds))
	}
	if c.Naming != "camel" && c.Naming != "snake" {
		return nil, fmt.Errorf("unknown naming %q", c.Naming)
	}
	goPkg := func(tag string) string {
		if c.Layout == "pkg-per-file" {
			return "example.com/gen/p/" + tag + ";" + tag + "pb"
		}
		return "example.com/gen/p;ppb"
	}
	if c.Layout != "pkg-per-file" && c.Layout != "one-pkg" {
		return nil, fmt.Errorf("unknown layout %q", c.Layout)
	}
	rm := &requestModel{Param: c.Param}
	files := make([]*fileModel, n)
	for i, k := range c.FileKinds {
		if k != "S" && k != "M" && !(strings.HasPrefix(k, "I") && len(k) == 2) {
			return nil, fmt.Errorf("unknown file kind %q", k)
		}
		f := &fileModel{Name: seqFileName(i, k), ProtoPkg: "p", GoPackage: goPkg(fmt.Sprintf("f%d", i+1)), Generate: true}
		if k == "S" || k == "M" {
			for _, w := range []string{"Req", "Resp"} {
				nm := fmt.Sprintf("%s%d", w, i+1)
				f.Msgs = append(f.Msgs, &msgModel{File: f, Proto: "p." + nm, GoName: nm})
			}
		}
		files[i] = f
		rm.Gen = append(rm.Gen, f.Name)
	}
	var shared *fileModel
	for i, k := range c.FileKinds {
		if k == "M" {
			continue
		}
		f := files[i]
		src := f
		if k[0] == 'I' {
			if k[1] == 'x' {
				if shared == nil {
					shared = &fileModel{Name: seqSharedFile, ProtoPkg: "p", GoPackage: goPkg("shared")}
					for _, nm := range []string{"ReqX", "RespX"} {
						shared.Msgs = append(shared.Msgs, &msgModel{File: shared, Proto: "p." + nm, GoName: nm})
					}
				}
				src = shared
			} else {
				j := int(k[1] - '1')
				if j < 0 || j >= n || j == i || len(files[j].Msgs) == 0 {
					return nil, fmt.Errorf("file %d cannot import its types from file %q", i+1, k[1:])
				}
				src = files[j]
			}
		}
		name := svcNames[c.Naming][i]
		s := &svcModel{File: f, Name: name, FullName: "p." + name, GoName: goCamel(name)}
		for mi, mk := range seqSvcKinds[i] {
			pn, gn := methodName(c.Naming, mk, mi)
			s.Methods = append(s.Methods, &methodModel{Name: pn, GoName: gn, Kind: mk, Req: src.Msgs[0], Resp: src.Msgs[1]})
		}
		f.Svcs = append(f.Svcs, s)
	}
	// proto_file: topological
	if shared != nil {
		rm.Files = append(rm.Files, shared)
	}
	for i, k := range c.FileKinds {
		if k[0] != 'I' {
			rm.Files = append(rm.Files, files[i])
		}
	}
	for i, k := range c.FileKinds {
		if k[0] == 'I' {
			rm.Files = append(rm.Files, files[i])
		}
	}
	for _, f := range rm.Files {
		f.proto = fileProto(f, rm)
	}
	return rm, nil
}

// fileSeqOptSets: the options that decide Go packages and output names, for one sequence.
func fileSeqOptSets(kinds []string) []optSet {
	var names []string
	usesShared := false
	for i, k := range kinds {
		names = append(names, seqFileName(i, k))
		if k == "Ix" {
			usesShared = true
		}
	}
	out := []optSet{
		{"legacy", "legacy_stubs"},
		{"none", ""},
		{"legacy+import_path", "legacy_stubs,import_path=example.com/ip/q"},
		{"legacy+module", "legacy_stubs,module=example.com/gen"},
		{"legacy+paths=source_relative", "paths=source_relative,legacy_stubs"},
		{"legacy+Mfirst", "legacy_stubs,M" + names[0] + "=example.com/mapped/mm;mmpkg"},
	}
	if len(names) > 1 {
		out = append(out, optSet{"legacy+Mlast", "legacy_stubs,M" + names[len(names)-1] + "=example.com/mapped/mm;mmpkg"})
	}
	same, distinct := []string{"legacy_stubs"}, []string{"legacy_stubs"}
	for i, nm := range names {
		same = append(same, "M"+nm+"=example.com/mapped/one;onepkg")
		distinct = append(distinct, fmt.Sprintf("M%s=example.com/mapped/g%d;g%dpkg", nm, i+1, i+1))
	}
	if usesShared {
		same = append(same, "M"+seqSharedFile+"=example.com/mapped/one;onepkg")
		distinct = append(distinct, "M"+seqSharedFile+"=example.com/mapped/gx;gxpkg")
	}
	out = append(out, optSet{"legacy+Mall-same", strings.Join(same, ",")}, optSet{"legacy+Mall-distinct", strings.Join(distinct, ",")})
	return out
}

// enumerateFiles adds the file-kind-sequence dimension: every sequence x both layouts of Go
// packages x the options that decide packages and output names (thorough: x both namings).
func enumerateFiles(tier string, add func(caseSpec)) {
	namings := []string{"camel"}
	if tier == "thorough" {
		namings = append(namings, "snake")
	}
	for _, seq := range fileKindSeqs(3) {
		for _, layout := range []string{"one-pkg", "pkg-per-file"} {
			for _, o := range fileSeqOptSets(seq) {
				for _, nm := range namings {
					add(caseSpec{Kind: "files", FileKinds: seq, Layout: layout, Naming: nm, Pkg: "p", OptKey: o.Key, Param: o.Param})
				}
			}
		}
	}
}
