package main

// The per-method type dimension (kind "mtypes").
//
// In a "gen" or "files" case every method of a file has the same request and the
// same response message, and no two messages of a request share a name. Here every
// method has its own (request, response) pair, drawn from an alphabet in which
// several messages share their simple name (and some their Go name) while being
// different messages: a top-level message, two messages nested in different
// parents, a message of an imported file in another Go package, a well-known type
// and a local message called like it. The oracle is the one of every other case:
// the emitted file must type-check against what protoc-gen-go and
// protoc-gen-go-grpc declare for the same descriptor, in which each method's
// signature names that method's own two types; paths, call shapes and stream
// indexes are compared as always.

import (
	"fmt"
	"regexp"
	"sort"
	"strings"

	"google.golang.org/protobuf/reflect/protodesc"
	"google.golang.org/protobuf/types/known/emptypb"
)

type msgLetter struct {
	Letter string
	Where  string // main | dep | wkt
	Proto  string // name relative to the proto package of its file
	GoName string
}

// msgAlphabet: simple names Msg (T, G, L, D), Other (O, P), Empty (E, Y); Go names Msg (T, D),
// Other (O, P), Empty (E, Y), Get_Msg, List_Msg.
var msgAlphabet = []msgLetter{
	{"T", "main", "Msg", "Msg"},           // top-level message of the file itself
	{"G", "main", "Get.Msg", "Get_Msg"},   // nested in Get
	{"L", "main", "List.Msg", "List_Msg"}, // nested in List
	{"D", "dep", "Msg", "Msg"},            // message of the same name in an imported file (other proto and Go package)
	{"E", "wkt", "Empty", "Empty"},        // google.protobuf.Empty
	{"Y", "main", "Empty", "Empty"},       // local message called like the well-known one
	{"O", "main", "Other", "Other"},       // a second simple name, local
	{"P", "dep", "Other", "Other"},        // ... and imported
}

// the letters of the quick tier (every relation between two messages occurs among them: identical,
// local/nested, nested/nested, local/imported, nested/imported, well-known/local, different names in
// one package, different names in different packages) and of the thorough tier
var quickLetters = []string{"T", "G", "L", "D", "E", "Y"}
var allLetters = []string{"T", "G", "L", "D", "E", "Y", "O", "P"}

func letterOf(l string) *msgLetter {
	for i := range msgAlphabet {
		if msgAlphabet[i].Letter == l {
			return &msgAlphabet[i]
		}
	}
	return nil
}

// parseMethodSpec reads "<kind>:<request>><response>".
func parseMethodSpec(s string) (kind, req, resp string, err error) {
	k, t, ok := strings.Cut(s, ":")
	q, r, ok2 := strings.Cut(t, ">")
	if !ok || !ok2 || kindWord[k][0] == "" || letterOf(q) == nil || letterOf(r) == nil {
		return "", "", "", fmt.Errorf("bad method spec %q (want <U|SS|CS|BD>:<letter>><letter>)", s)
	}
	return k, q, r, nil
}

func methodSpec(kind, req, resp string) string { return kind + ":" + req + ">" + resp }

func buildMTypesModel(c caseSpec) (*requestModel, error) {
	names := svcNames[c.Naming]
	if names == nil {
		return nil, fmt.Errorf("unknown naming %q", c.Naming)
	}
	if len(c.Methods) == 0 || len(c.Methods) > len(names) {
		return nil, fmt.Errorf("an mtypes case needs 1..%d services", len(names))
	}
	rm := &requestModel{Param: c.Param}
	main := &fileModel{Name: mainFileName(c.Pkg), ProtoPkg: c.Pkg, GoPackage: mainGoPackage(c.Pkg), Generate: true}
	dep := &fileModel{Name: depFileName(c.Pkg, "other"), ProtoPkg: qual(c.Pkg, "dep"), GoPackage: goBase(c.Pkg) + "/dep;deppb"}
	wkt := &fileModel{Name: "google/protobuf/empty.proto", ProtoPkg: "google.protobuf",
		GoPackage: "google.golang.org/protobuf/types/known/emptypb", External: true,
		proto: protodesc.ToFileDescriptorProto(emptypb.File_google_protobuf_empty_proto)}
	byLetter := map[string]*msgModel{}
	for _, ml := range msgAlphabet {
		f := map[string]*fileModel{"main": main, "dep": dep, "wkt": wkt}[ml.Where]
		m := &msgModel{File: f, Proto: qual(f.ProtoPkg, ml.Proto), GoName: ml.GoName}
		f.Msgs = append(f.Msgs, m)
		byLetter[ml.Letter] = m
	}
	used := map[*fileModel]bool{}
	for si, specs := range c.Methods {
		s := &svcModel{File: main, Name: names[si], FullName: qual(c.Pkg, names[si]), GoName: goCamel(names[si])}
		for mi, sp := range specs {
			k, q, r, err := parseMethodSpec(sp)
			if err != nil {
				return nil, err
			}
			pn, gn := methodName(c.Naming, k, mi)
			s.Methods = append(s.Methods, &methodModel{Name: pn, GoName: gn, Kind: k, Req: byLetter[q], Resp: byLetter[r]})
			used[byLetter[q].File], used[byLetter[r].File] = true, true
		}
		main.Svcs = append(main.Svcs, s)
	}
	// a file is part of the request only when a method uses one of its messages
	if used[dep] {
		rm.Files = append(rm.Files, dep)
	}
	if used[wkt] {
		rm.Files = append(rm.Files, wkt)
	}
	rm.Files = append(rm.Files, main)
	for _, f := range rm.Files {
		if f.proto == nil {
			f.proto = fileProto(f, rm)
		}
	}
	return rm, nil
}

// mtypesLetters: the sorted set of letters a case uses (fingerprints, coverage).
func mtypesLetters(c caseSpec) string {
	set := map[string]bool{}
	for _, svc := range c.Methods {
		for _, sp := range svc {
			if _, q, r, err := parseMethodSpec(sp); err == nil {
				set[q], set[r] = true, true
			}
		}
	}
	var ls []string
	for l := range set {
		ls = append(ls, l)
	}
	sort.Strings(ls)
	return strings.Join(ls, "")
}

// msgTypeRef matches a reference to a message of the alphabet in a go/types message; it is
// replaced by the message's simple name, so that one confusion (say, between two messages that
// share their simple name) has one fingerprint whichever members of the alphabet show it.
var msgTypeRef = regexp.MustCompile(`(?:\b[A-Za-z_][A-Za-z0-9_]*\.|"[^"]+"\.)?\b(?:Get_|List_)?(Msg|Other|Empty)\b`)

// (and the position of the service in the file does not distinguish causes either)
var svcNameRef = regexp.MustCompile(`(?i:alpha|beta|gamma)Svc`)

func normTypeNames(s string) string {
	return svcNameRef.ReplaceAllString(msgTypeRef.ReplaceAllString(s, "<$1>"), "<Svc>")
}

// mtypesOptKeys: the option strings of this dimension: legacy stubs off (no stub names a message)
// and on, and on with each option that decides how a message type is qualified.
var mtypesOptKeys = map[string]bool{"none": true, "legacy+Mmain": true, "legacy+Mdep": true, "legacy+Mboth": true,
	"legacy+import_path": true, "legacy+descnames": true}

// enumerateMTypes adds the per-method type dimension.
//
// A method is (kind, request, response). With n letters:
//
//	quick (n = 6), package p, camel, legacy_stubs:
//	  A every ordered pair of kinds (16) x both methods echo (request = response), n^2, as one service
//	    and as two services of one method each;
//	  B the echo pairs of two unary methods x 6 further option strings;
//	  C every ordered pair of kinds x {both take T, responses n^2; both return T, requests n^2} x {one
//	    service, two services};
//	  D every triple of echo unary methods (n^3) as one service and as three services;
//	  E every ordered pair of unary methods, all n^4 assignments of the four types, one and two services.
//	thorough: A, C, D, E with n = 8, D with every split into services and with a streaming method in the
//	  middle, and over the 6 quick letters:
//	  F every ordered pair of kinds x all 6^4 assignments, one service;
//	  G E for the packages a.b.c and none;
//	  H {p, a.b.c, none} x 7 option strings x the pairs of unary methods of A and C.
func enumerateMTypes(tier string, add func(caseSpec)) {
	legacy := optSet{"legacy", "legacy_stubs"}
	thorough := tier == "thorough"
	mk := func(pkg string, o optSet, svcs ...[]string) {
		add(caseSpec{Kind: "mtypes", Methods: svcs, Naming: "camel", Pkg: pkg, OptKey: o.Key, Param: o.Param})
	}
	pair := func(pkg string, o optSet, m1, m2 string) {
		mk(pkg, o, []string{m1, m2})
		mk(pkg, o, []string{m1}, []string{m2})
	}
	ls := quickLetters
	if thorough {
		ls = allLetters
	}
	// restricted: the assignments of A and C for one pair of kinds
	restricted := func(pkg string, o optSet, k1, k2 string, letters []string, which string) {
		for _, a := range letters {
			for _, b := range letters {
				if strings.Contains(which, "A") {
					pair(pkg, o, methodSpec(k1, a, a), methodSpec(k2, b, b))
				}
				if strings.Contains(which, "C") {
					pair(pkg, o, methodSpec(k1, "T", a), methodSpec(k2, "T", b))
					pair(pkg, o, methodSpec(k1, a, "T"), methodSpec(k2, b, "T"))
				}
			}
		}
	}
	full := func(pkg string, o optSet, k1, k2 string, letters []string, oneServiceOnly bool) {
		for _, q1 := range letters {
			for _, r1 := range letters {
				for _, q2 := range letters {
					for _, r2 := range letters {
						if oneServiceOnly {
							mk(pkg, o, []string{methodSpec(k1, q1, r1), methodSpec(k2, q2, r2)})
						} else {
							pair(pkg, o, methodSpec(k1, q1, r1), methodSpec(k2, q2, r2))
						}
					}
				}
			}
		}
	}
	// A
	for _, k1 := range allKinds {
		for _, k2 := range allKinds {
			restricted("p", legacy, k1, k2, ls, "A")
		}
	}
	// B
	for _, o := range validOptSetsByKey("p", mtypesOptKeys) {
		restricted("p", o, kU, kU, quickLetters, "A")
	}
	// C
	for _, k1 := range allKinds {
		for _, k2 := range allKinds {
			restricted("p", legacy, k1, k2, ls, "C")
		}
	}
	// D
	for _, a := range ls {
		for _, b := range ls {
			for _, c := range ls {
				m := []string{methodSpec(kU, a, a), methodSpec(kU, b, b), methodSpec(kU, c, c)}
				mk("p", legacy, m)
				mk("p", legacy, m[:1], m[1:2], m[2:])
				if thorough {
					mk("p", legacy, m[:1], m[1:])
					mk("p", legacy, m[:2], m[2:])
					for _, k := range []string{kSS, kBD} {
						mid := []string{m[0], methodSpec(k, b, b), m[2]}
						mk("p", legacy, mid)
						mk("p", legacy, mid[:1], mid[1:2], mid[2:])
					}
				}
			}
		}
	}
	// E
	full("p", legacy, kU, kU, ls, false)
	if !thorough {
		return
	}
	// F
	for _, k1 := range allKinds {
		for _, k2 := range allKinds {
			full("p", legacy, k1, k2, quickLetters, true)
		}
	}
	// G
	for _, pkg := range []string{"a.b.c", ""} {
		full(pkg, legacy, kU, kU, quickLetters, false)
	}
	// H
	for _, pkg := range []string{"p", "a.b.c", ""} {
		for _, o := range append([]optSet{legacy}, validOptSetsByKey(pkg, mtypesOptKeys)...) {
			restricted(pkg, o, kU, kU, quickLetters, "AC")
		}
	}
}

func validOptSetsByKey(pkg string, keys map[string]bool) []optSet {
	var out []optSet
	for _, o := range validOptSets(pkg, "other") {
		if keys[o.Key] {
			out = append(out, o)
		}
	}
	return out
}
