package main

// One case = one RPC on a real inprocgrpc.Channel with the configured cloner.
// The messages of the direction under test have the shape of the case; the
// other direction carries a plain StringValue.
//
//	sender                                   receiver
//	------                                   --------
//	S := fresh message, snapshot taken
//	hand S to the library (Invoke / SendMsg / return from the unary handler)
//	[streams] SendMsg returned: mutate S     (waits for the sender's token)
//	in place, all passes; pass the token
//	                                         R := destination pre-filled with other content
//	                                         receive into R: R must equal the snapshot
//	                                         [handler] mutate R in place pass by pass, S must not change
//	... the call completes on both sides; both keep their objects ...
//	pass by pass: mutate S, R must not change; mutate R, S must not change
//	generated messages: the two object graphs hold no common address
//
// Kind "unary-cancelled" (request direction only) is the one way a unary caller
// gets control back while its request is still in flight: the handler cancels
// the call's context before it decodes and waits for the sender's token; Invoke
// returns Canceled, the caller mutates S and passes the token; the handler then
// decodes (the second line of the protocol above, for Invoke). No schedule is
// explored (that is the E1 part); this only puts the place where Invoke takes
// its private copy of the request next to the two SendMsg of the streams, for
// every shape and cloner configuration.

import (
	"bytes"
	"context"
	"fmt"
	"io"
	"strings"
	"sync"

	"google.golang.org/grpc"
	"google.golang.org/grpc/codes"
	"google.golang.org/grpc/status"
	"google.golang.org/protobuf/proto"
	"google.golang.org/protobuf/types/known/wrapperspb"

	"github.com/fullstorydev/grpchan/inprocgrpc"

	"verif/seq/common"
)

type kase struct {
	Engine  string `json:"engine"` // always "E2"
	Cloner  string `json:"cloner"` // default | CodecCloner | CloneFunc | CopyFunc | CopyFunc/reuse | CodecCloner/reuse (userfn.go)
	Kind    string `json:"kind"`   // unary | client-stream | server-stream | bidi | unary-cancelled
	Dir     string `json:"dir"`    // req | resp: the direction that carries the shape
	Shape   string `json:"shape"`
	SendRep string `json:"send_rep"` // gen | dyn
	RecvRep string `json:"recv_rep"`
	Fill    string `json:"fill"` // spec whose content pre-populates every receive destination ("" = empty destination)
	// what the handler does with the objects it is given and the objects it returns (handlers.go):
	// "" builds a new response for every call | echo | kept; the last two with Dir "resp" only
	Handler string `json:"handler,omitempty"`
}

func (k kase) key() string {
	parts := []string{k.Cloner, k.Kind, k.Dir, k.Shape, k.SendRep + ">" + k.RecvRep, "fill=" + k.Fill}
	if k.Handler != "" {
		parts = append(parts, "handler="+k.Handler)
	}
	return strings.Join(parts, "|")
}

func clientStreams(kind string) bool { return kind == "client-stream" || kind == "bidi" }
func serverStreams(kind string) bool { return kind == "server-stream" || kind == "bidi" }

// count of messages in the direction under test
func (k kase) count() int {
	if k.Handler == "echo" {
		return 1 // one request, answered with the object it was received into
	}
	if k.Handler == "kept" {
		return 2 // two calls answered with one and the same object
	}
	if (k.Dir == "req" && clientStreams(k.Kind)) || (k.Dir == "resp" && serverStreams(k.Kind)) {
		return 2
	}
	return 1
}

// streamed: the sender gets control back before the receiver receives (the message under test goes through a
// stream's SendMsg, or through an Invoke that returns early)
func (k kase) streamed() bool { return k.Kind != "unary" }

type finding struct {
	Clause string
	What   string
}

type run struct {
	k    kase
	spec *spec

	mu        sync.Mutex
	findings  []finding
	mutations int
	internal  string

	S         []interface{}   // the sender's objects
	snap      []proto.Message // their content when handed to the library
	snapCanon [][]byte
	R         []interface{} // the receiver's objects
	Q         []interface{} // handler=echo: the caller's request objects (handlers.go)
	qCanon    [][]byte
	kept      interface{}  // handler=kept: the object the handler answers every call with
	eqAtRecv  map[int]bool // messages that equalled their snapshot when the receiver obtained them

	tok    chan int
	abort  chan struct{}
	cancel context.CancelFunc // of the client's call
	once   sync.Once
}

func (r *run) add(clause, what string) {
	r.mu.Lock()
	r.findings = append(r.findings, finding{clause, what})
	r.mu.Unlock()
}

func (r *run) fail(msg string) {
	r.mu.Lock()
	if r.internal == "" {
		r.internal = msg
	}
	r.mu.Unlock()
	r.once.Do(func() { close(r.abort) })
}

func (r *run) countMut(n int) {
	r.mu.Lock()
	r.mutations += n
	r.mu.Unlock()
}

// newS: the sender's next object, with its snapshot.
func (r *run) newS() interface{} {
	s := r.spec.instance(r.k.SendRep)
	g, err := normalize(s)
	if err != nil {
		panic(err)
	}
	r.mu.Lock()
	r.S = append(r.S, s)
	r.snap = append(r.snap, proto.Clone(g))
	r.snapCanon = append(r.snapCanon, mustCanon(s))
	r.mu.Unlock()
	return s
}

func (r *run) newDest() interface{} { return r.newDestRep(r.k.RecvRep) }

func (r *run) newDestRep(rep string) interface{} {
	if r.k.Fill != "" {
		return specByName[r.k.Fill].instance(rep)
	}
	g := r.spec.build()
	proto.Reset(g)
	if rep == "dyn" {
		return asDyn(g)
	}
	return g
}

// afterSend: the sender has control back while the message is still in flight.
func (r *run) afterSend(i int) {
	n := 0
	for _, pass := range passes {
		n += mutate(r.S[i], pass)
	}
	r.countMut(n)
	select {
	case r.tok <- i:
	case <-r.abort:
	}
}

func (r *run) awaitToken() bool {
	select {
	case <-r.tok:
		return true
	case <-r.abort:
		return false
	}
}

// received: the receiver obtained message i in dest.
func (r *run) received(dest interface{}, inHandler bool) {
	r.mu.Lock()
	i := len(r.R)
	r.R = append(r.R, dest)
	if i >= len(r.S) {
		r.mu.Unlock()
		r.fail(fmt.Sprintf("receiver obtained message #%d but only %d were sent", i, i))
		return
	}
	sent, snap, snapCanon := r.S[i], r.snap[i], r.snapCanon[i]
	r.mu.Unlock()
	g, err := normalize(dest)
	if err != nil {
		r.add("received-unreadable", fmt.Sprintf("the receiver's message #%d cannot be read back: %v", i, err))
		return
	}
	if proto.Equal(g, snap) {
		r.mu.Lock()
		if r.eqAtRecv == nil {
			r.eqAtRecv = map[int]bool{}
		}
		r.eqAtRecv[i] = true
		r.mu.Unlock()
	} else {
		gb, _ := detMarshal.Marshal(g)
		clause, detail := "received-not-equal", ""
		if cur, err := normalize(sent); err == nil && r.k.streamed() && proto.Equal(g, cur) {
			clause, detail = "sender-mutation-after-send-visible", "it equals the sender's object as mutated AFTER the send (SendMsg, or Invoke for a cancelled unary call) had returned: the library did not take a private copy, or its copy shares memory with the sender's object"
		} else if via := mutatedLike(g, snap); r.k.streamed() && via != nil {
			clause, detail = "sender-mutation-after-send-visible", fmt.Sprintf("it equals the message handed over with the in-place mutations %v applied, which the sender made to its own object AFTER the send (SendMsg, or Invoke for a cancelled unary call) had returned: the library's private copy shares that memory with the sender's object", via)
		} else if r.k.Fill != "" {
			merged := proto.Clone(specByName[r.k.Fill].build())
			proto.Merge(merged, snap)
			if proto.Equal(g, merged) {
				clause, detail = "destination-merged", "it is the sent message merged into the previous content of the destination: the destination was not overwritten"
			}
		}
		r.add(clause, fmt.Sprintf("message #%d obtained by the receiver (%s) is not equal to the message handed to the library (%s); %s", i, short(gb), short(snapCanon), detail))
	}
	if inHandler {
		// the handler mutates what it received before it returns; the caller's object must not change
		var shared []string
		n := 0
		for _, pass := range passes {
			before := mustCanon(sent)
			n += mutate(dest, pass)
			if !bytes.Equal(before, mustCanon(sent)) {
				shared = append(shared, pass)
			}
		}
		r.countMut(n)
		if len(shared) > 0 {
			r.add("aliased:via="+viaOf(shared), fmt.Sprintf("the handler mutated the request it received (message #%d) in place before returning and the caller's request object changed (passes %v)", i, shared))
		}
	}
}

// mutatedLike: diagnosis of a received message that differs from what was handed
// over. The sender applied every pass of the in-place mutator to its object after
// the send had returned; if the received message is the snapshot with some of
// those passes applied, part of the sender's later writes reached the receiver.
// Returns those passes, nil if no subset explains the difference.
func mutatedLike(got, snap proto.Message) (via []string) {
	defer func() {
		if recover() != nil {
			via = nil
		}
	}()
	for set := 1; set < 1<<len(passes); set++ {
		c := proto.Clone(snap)
		var names []string
		for i, pass := range passes {
			if set&(1<<i) != 0 {
				if mutate(c, pass) == 0 {
					names = nil
					break
				}
				names = append(names, pass)
			}
		}
		if names != nil && proto.Equal(got, c) {
			return names
		}
	}
	return nil
}

// afterCall: both sides kept their objects; the call is over.
func (r *run) afterCall() {
	r.afterCallHandler()
	for i := range r.S {
		if i >= len(r.R) {
			break
		}
		if addr := sharedAddress(r.S[i], r.R[i]); addr != "" {
			kind := addr[strings.LastIndex(addr, "(")+1 : len(addr)-1]
			r.add("shared-address:"+kind, fmt.Sprintf("message #%d: the sender's and the receiver's object hold the same %s: %s", i, kind, addr))
		}
		shared, n := disjoint(r.S[i], r.R[i])
		r.countMut(n)
		if len(shared) > 0 {
			r.add("aliased:via="+viaOf(shared), fmt.Sprintf("after the call, message #%d: mutating one side's object in place changed the marshalled form of the other side's object (passes %v)", i, shared))
		}
	}
}

func other() proto.Message { return wrapperspb.String("other direction") }

func (r *run) guard(where string, perr *error) {
	if p := recover(); p != nil {
		r.add("panic", fmt.Sprintf("panic in %s: %v", where, p))
		if perr != nil {
			*perr = status.Errorf(codes.Internal, "panic: %v", p)
		}
		r.once.Do(func() { close(r.abort) })
	}
}

// ------------------------------------------------------------ handler

func (r *run) unaryHandler(ctx context.Context, dec func(interface{}) error) (resp interface{}, err error) {
	defer r.guard("the unary handler", &err)
	if r.k.Dir == "req" {
		if r.k.Kind == "unary-cancelled" {
			r.cancel() // Invoke returns; the caller has its request back
			if !r.awaitToken() {
				return nil, status.Error(codes.Aborted, "aborted")
			}
		}
		d := r.newDest()
		if err := dec(d); err != nil {
			r.fail("request decoding failed: " + err.Error())
			return nil, err
		}
		r.received(d, true)
		return other(), nil
	}
	if r.k.Handler == "echo" {
		h := r.newDestRep(r.k.SendRep)
		if err := dec(h); err != nil {
			r.fail("request decoding failed: " + err.Error())
			return nil, err
		}
		return r.keepS(h), nil // the very object the request was decoded into; the handler keeps it
	}
	var in wrapperspb.StringValue
	if err := dec(&in); err != nil {
		r.fail("request decoding failed: " + err.Error())
		return nil, err
	}
	if r.k.Handler == "kept" {
		return r.keepS(r.keptObject()), nil
	}
	return r.newS(), nil // the handler keeps the object it returns
}

func (r *run) streamHandler(ss grpc.ServerStream) (err error) {
	defer r.guard("the stream handler", &err)
	// requests
	var h interface{} // handler=echo: the object the last request was received into
	for i := 0; ; i++ {
		var d interface{} = &wrapperspb.StringValue{}
		if r.k.Handler == "echo" {
			d = r.newDestRep(r.k.SendRep)
		}
		if r.k.Dir == "req" {
			if i < r.k.count() && !r.awaitToken() {
				return status.Error(codes.Aborted, "aborted")
			}
			d = r.newDest()
		}
		err := ss.RecvMsg(d)
		if err == io.EOF && clientStreams(r.k.Kind) {
			break
		}
		if err != nil {
			r.fail("handler RecvMsg failed: " + err.Error())
			return err
		}
		if r.k.Dir == "req" {
			r.received(d, true)
		}
		h = d
		if !clientStreams(r.k.Kind) {
			break
		}
	}
	// responses
	n := 1
	if r.k.Dir == "resp" {
		n = r.k.count()
	}
	for j := 0; j < n; j++ {
		if r.k.Dir != "resp" {
			if err := ss.SendMsg(other()); err != nil {
				r.fail("handler SendMsg failed: " + err.Error())
				return err
			}
			continue
		}
		s := h
		if r.k.Handler == "echo" {
			r.keepS(h)
		} else {
			s = r.newS()
		}
		if err := ss.SendMsg(s); err != nil {
			r.fail("handler SendMsg failed: " + err.Error())
			return err
		}
		r.afterSend(j)
	}
	return nil
}

// ------------------------------------------------------------ client

func (r *run) client(cc grpc.ClientConnInterface) {
	defer r.guard("a client call", nil)
	ctx, cancel := context.WithCancel(context.Background())
	defer cancel()
	r.cancel = cancel
	if r.k.Kind == "unary-cancelled" {
		var out wrapperspb.StringValue
		err := cc.Invoke(ctx, "/verif.C06/Unary", r.newS(), &out)
		if status.Code(err) != codes.Canceled {
			r.fail(fmt.Sprintf("Invoke of a call cancelled before the handler decoded returned %v, expected Canceled", err))
			return
		}
		r.afterSend(0)
		return
	}
	if r.k.Kind == "unary" {
		if r.k.Dir == "req" {
			var out wrapperspb.StringValue
			if err := cc.Invoke(ctx, "/verif.C06/Unary", r.newS(), &out); err != nil {
				r.fail("Invoke failed: " + err.Error())
			}
			return
		}
		for i := 0; i < r.k.count(); i++ {
			d := r.newDest()
			if err := cc.Invoke(ctx, "/verif.C06/Unary", r.request(), d); err != nil {
				r.fail("Invoke failed: " + err.Error())
				return
			}
			r.received(d, false)
		}
		return
	}
	method := map[string]string{"client-stream": "ClientStream", "server-stream": "ServerStream", "bidi": "Bidi"}[r.k.Kind]
	cs, err := cc.NewStream(ctx, &grpc.StreamDesc{StreamName: method, ClientStreams: clientStreams(r.k.Kind), ServerStreams: serverStreams(r.k.Kind)}, "/verif.C06/"+method)
	if err != nil {
		r.fail("NewStream failed: " + err.Error())
		return
	}
	n := 1
	if r.k.Dir == "req" {
		n = r.k.count()
	}
	for i := 0; i < n; i++ {
		if r.k.Dir != "req" {
			if err := cs.SendMsg(r.request()); err != nil {
				r.fail("client SendMsg failed: " + err.Error())
				return
			}
			continue
		}
		s := r.newS()
		if err := cs.SendMsg(s); err != nil {
			r.fail("client SendMsg failed: " + err.Error())
			return
		}
		r.afterSend(i)
	}
	if err := cs.CloseSend(); err != nil {
		r.fail("CloseSend failed: " + err.Error())
		return
	}
	for j := 0; ; j++ {
		var d interface{} = &wrapperspb.StringValue{}
		if r.k.Dir == "resp" {
			if j < r.k.count() && !r.awaitToken() {
				return
			}
			d = r.newDest()
		}
		err := cs.RecvMsg(d)
		if err == io.EOF && serverStreams(r.k.Kind) {
			return
		}
		if err != nil {
			r.fail("client RecvMsg failed: " + err.Error())
			return
		}
		if r.k.Dir == "resp" {
			r.received(d, false)
		}
		if !serverStreams(r.k.Kind) {
			return
		}
	}
}

type outcome struct {
	Findings  []finding
	Mutations int
	Pairs     int // sender / receiver object pairs compared
	Observed  string
	Internal  string
}

func runCase(k kase) (o outcome) {
	defer func() {
		if p := recover(); p != nil {
			o.Internal = fmt.Sprintf("checker panic on %s: %v", k.key(), p)
		}
	}()
	sp := specByName[k.Shape]
	if sp == nil || (k.Fill != "" && specByName[k.Fill] == nil) {
		o.Internal = "unknown shape in " + k.key()
		return
	}
	r := &run{k: k, spec: sp, tok: make(chan int, 4), abort: make(chan struct{})}
	handlerDone := make(chan struct{})
	var hOnce sync.Once
	done := func() { hOnce.Do(func() { close(handlerDone) }) }
	svc := &common.Svc{Name: "verif.C06",
		Unary: map[string]common.UnaryFn{"Unary": func(ctx context.Context, dec func(interface{}) error) (interface{}, error) {
			defer done()
			return r.unaryHandler(ctx, dec)
		}},
		Streams: map[string]common.StreamDef{},
	}
	for name, sd := range map[string]common.StreamDef{"ClientStream": {ClientStreams: true}, "ServerStream": {ServerStreams: true}, "Bidi": {ClientStreams: true, ServerStreams: true}} {
		sd.Fn = func(ss grpc.ServerStream) error {
			defer done()
			return r.streamHandler(ss)
		}
		svc.Streams[name] = sd
	}
	ch := &inprocgrpc.Channel{}
	if c := mkCloner(k.Cloner); c != nil {
		ch.WithCloner(c)
	}
	ch.RegisterService(svc.Desc(), common.Impl{})

	r.client(ch)
	if r.internal == "" {
		<-handlerDone // the handler has returned: nobody is inside the library any more
	}
	if r.internal != "" {
		o.Internal = fmt.Sprintf("the RPC of case %s did not complete normally, nothing can be decided: %s", k.key(), r.internal)
		o.Findings = r.findings // a panic, if any, is still reported
		return
	}
	if len(r.R) != k.count() || len(r.S) != k.count() || (k.Handler == "echo" && len(r.Q) != k.count()) {
		o.Internal = fmt.Sprintf("case %s: %d messages sent, %d received, expected %d", k.key(), len(r.S), len(r.R), k.count())
		return
	}
	r.afterCall()
	o.Findings, o.Mutations, o.Pairs = r.findings, r.mutations, len(r.R)
	o.Observed = fmt.Sprintf("%d message(s) of shape %s handed over and obtained; %d in-place mutations applied; findings: %d", len(r.R), k.Shape, r.mutations, len(r.findings))
	return
}
