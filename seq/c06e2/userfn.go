package main

// The user's side of a cloner configuration is a dimension of its own: CopyFunc
// and CodecCloner run a function / codec that the user supplies, and a correct
// user function is free in everything the Cloner contract does not fix. The one
// freedom that matters for C06 is what the function does with the STORAGE of the
// destination it is handed:
//
//	fresh  (goodCopy, the "proto" codec)  Reset, then allocate everything anew
//	reuse  (reuseCopy, reuseCodec)        overwrite the destination completely but
//	       keep what it already owns: append(dst[:0], src...) for bytes and the
//	       unknown fields, clear-and-refill for maps, truncate-and-append for
//	       lists, copy into the nested message that is already there
//	       (the allocation-saving idiom; encoding/json's Unmarshal behaves so)
//
// Both are correct copies: whenever the destination is an object of its own
// (shares nothing with the source), the destination ends up equal to the source,
// nothing of its previous content survives and nothing is shared with the
// source (selfCheck proves this on the whole pool before anything runs). So with
// either of them the statement of C06 must hold; with the reuse functions it
// holds only if every destination the LIBRARY makes up for a private copy
// (Clone on SendMsg of either side, Invoke's eager request copy) really is an
// object of its own.
//
// Messages involving a *dynamic.Message have no storage to hand over through a
// public interface; for them the reuse functions copy through the wire form like
// the fresh ones.

import (
	"fmt"
	"reflect"
	"sync/atomic"

	"github.com/jhump/protoreflect/dynamic"
	"google.golang.org/grpc/encoding"
	"google.golang.org/protobuf/proto"
	"google.golang.org/protobuf/reflect/protoreflect"
)

// measured: how often the library called a reuse function, and how many pieces
// of storage of a destination were kept by those calls
var reuseCalls, reuseRetained int64

func reuseCopy(out, in interface{}) error {
	gi, inGen := in.(proto.Message)
	gout, outGen := out.(proto.Message)
	_, inDyn := in.(*dynamic.Message)
	_, outDyn := out.(*dynamic.Message)
	if !inGen || !outGen || inDyn || outDyn {
		return goodCopy(out, in)
	}
	if rv := reflect.ValueOf(in); rv.Kind() != reflect.Ptr || rv.IsNil() {
		return fmt.Errorf("value to copy is a nil %T", in)
	}
	if rv := reflect.ValueOf(out); rv.Kind() != reflect.Ptr || rv.IsNil() {
		return fmt.Errorf("destination is a nil %T", out)
	}
	if reflect.TypeOf(in) != reflect.TypeOf(out) {
		return fmt.Errorf("type mismatch: %T != %T", in, out)
	}
	atomic.AddInt64(&reuseCalls, 1)
	reuseCopyPR(gout.ProtoReflect(), gi.ProtoReflect())
	return nil
}

func keep(n int) {
	if n > 0 {
		atomic.AddInt64(&reuseRetained, 1)
	}
}

func freshBytes(b []byte) protoreflect.Value {
	return protoreflect.ValueOfBytes(append([]byte{}, b...))
}

// reuseCopyPR overwrites dst with the content of src, keeping dst's storage.
func reuseCopyPR(dst, src protoreflect.Message) {
	fds := dst.Descriptor().Fields()
	for i := 0; i < fds.Len(); i++ {
		fd := fds.Get(i)
		if !src.Has(fd) {
			dst.Clear(fd)
			continue
		}
		switch {
		case fd.IsMap():
			// same map object, emptied and filled again
			vfd := fd.MapValue()
			dm := dst.Mutable(fd).Map()
			var old []protoreflect.MapKey
			dm.Range(func(k protoreflect.MapKey, _ protoreflect.Value) bool { old = append(old, k); return true })
			keep(len(old))
			for _, k := range old {
				dm.Clear(k)
			}
			src.Get(fd).Map().Range(func(k protoreflect.MapKey, v protoreflect.Value) bool {
				switch {
				case isMsg(vfd):
					nv := dm.NewValue()
					reuseCopyPR(nv.Message(), v.Message())
					dm.Set(k, nv)
				case vfd.Kind() == protoreflect.BytesKind:
					dm.Set(k, freshBytes(v.Bytes()))
				default:
					dm.Set(k, v)
				}
				return true
			})
		case fd.IsList():
			// same backing array: truncate, then append
			dl := dst.Mutable(fd).List()
			keep(dl.Len())
			dl.Truncate(0)
			sl := src.Get(fd).List()
			for j := 0; j < sl.Len(); j++ {
				v := sl.Get(j)
				switch {
				case isMsg(fd):
					nv := dl.NewElement()
					reuseCopyPR(nv.Message(), v.Message())
					dl.Append(nv)
				case fd.Kind() == protoreflect.BytesKind:
					dl.Append(freshBytes(v.Bytes()))
				default:
					dl.Append(v)
				}
			}
		case isMsg(fd):
			// the nested message that is already there (a new one otherwise)
			if dst.Has(fd) {
				keep(1)
			}
			reuseCopyPR(dst.Mutable(fd).Message(), src.Get(fd).Message())
		case fd.Kind() == protoreflect.BytesKind:
			var buf []byte
			if dst.Has(fd) {
				buf = dst.Get(fd).Bytes()
				keep(cap(buf))
			}
			b := append(buf[:0], src.Get(fd).Bytes()...)
			if b == nil {
				b = []byte{} // populated, of length zero (proto2 optional bytes)
			}
			dst.Set(fd, protoreflect.ValueOfBytes(b))
		default:
			dst.Set(fd, src.Get(fd))
		}
	}
	old := dst.GetUnknown()
	keep(cap(old))
	if u := src.GetUnknown(); len(u) > 0 {
		dst.SetUnknown(append(old[:0], u...))
	} else {
		dst.SetUnknown(nil)
	}
}

// reuseCodec: the registered "proto" codec, except that Unmarshal into a
// generated message decodes into a scratch message first and then overwrites
// the destination with reuseCopy, i.e. it keeps the destination's storage.
type reuseCodec struct{ base encoding.Codec }

func (c reuseCodec) Name() string { return "proto" }

func (c reuseCodec) Marshal(v interface{}) ([]byte, error) { return c.base.Marshal(v) }

func (c reuseCodec) Unmarshal(b []byte, v interface{}) error {
	g, ok := v.(proto.Message)
	if _, dyn := v.(*dynamic.Message); !ok || dyn {
		return c.base.Unmarshal(b, v)
	}
	if rv := reflect.ValueOf(v); rv.Kind() != reflect.Ptr || rv.IsNil() {
		return c.base.Unmarshal(b, v)
	}
	tmp := g.ProtoReflect().New().Interface()
	if err := c.base.Unmarshal(b, tmp); err != nil {
		return err
	}
	return reuseCopy(v, tmp)
}

// userFnVariants: the copy functions a user may hand to the library, by the
// name of the cloner configuration that uses them; all go through the same
// self check.
type copyVariant struct {
	name string
	fn   func(out, in interface{}) error
}

func copyVariants() []copyVariant {
	rc := reuseCodec{encoding.GetCodec("proto")}
	return []copyVariant{
		{"fresh copy function", goodCopy},
		{"reuse copy function", reuseCopy},
		{"reuse codec", func(out, in interface{}) error {
			b, err := rc.Marshal(in)
			if err != nil {
				return err
			}
			return rc.Unmarshal(b, out)
		}},
	}
}
