package main

// What the HANDLER does with the objects it is given and the objects it returns
// is a dimension of its own. A handler owns the message it decoded its request
// into and the message it answers with, like the caller owns its request and its
// response, and nothing says that these are objects made for the occasion:
//
//	""    the handler answers every call with a message it has just built
//	echo  the handler answers with the very object it decoded the request into
//	      (unary: the object given to dec; streams: the object given to RecvMsg is
//	      given to SendMsg), and keeps it: a pass-through / echo handler. Both
//	      directions carry the shape; three objects are involved: the caller's
//	      request Q, the handler's object H, the caller's response P.
//	kept  the handler answers two successive unary calls with one and the same
//	      object, which it changes in place between the calls (a handler that
//	      keeps its answer in a field and updates it)
//
// Oracle, from the statement ("the request a handler receives and the response a
// caller receives share no mutable memory with the peer's objects"; "mutating or
// reusing a message on one side after handing it to the library is never visible
// on the other side"):
//
//	every response P obtained equals H as it was when the handler handed it over
//	(received, as for any response); it still does when the case is over, whatever
//	the handler did to H afterwards (response-changed-later);
//	H/P hold no common address and are behaviourally disjoint (afterCall, as for
//	any response);
//	echo: Q is unchanged when the call is over (caller-request-changed), Q/H and
//	Q/P hold no common address and are behaviourally disjoint.

import (
	"bytes"
	"fmt"
	"strings"

	"google.golang.org/protobuf/proto"
)

var handlerNames = []string{"echo", "kept"}

// handlerKinds: the RPC kinds a handler behaviour is crossed with
func handlerKinds(h string) []string {
	if h == "kept" {
		return []string{"unary"}
	}
	return []string{"unary", "client-stream", "server-stream", "bidi"}
}

func validHandler(k kase) bool {
	if k.Handler == "" {
		return true
	}
	if k.Dir != "resp" {
		return false
	}
	for _, x := range handlerKinds(k.Handler) {
		if x == k.Kind {
			for _, h := range handlerNames {
				if h == k.Handler {
					return true
				}
			}
		}
	}
	return false
}

// pathOf: the code path of a case as it appears in fingerprints
func pathOf(k kase) string {
	if k.Handler != "" {
		return path(k.Kind) + "/handler=" + k.Handler
	}
	return path(k.Kind)
}

// keepS: the handler hands over an object it already has; its content now is
// what the caller must obtain.
func (r *run) keepS(s interface{}) interface{} {
	g, err := normalize(s)
	if err != nil {
		panic(err)
	}
	r.mu.Lock()
	r.S = append(r.S, s)
	r.snap = append(r.snap, proto.Clone(g))
	r.snapCanon = append(r.snapCanon, mustCanon(s))
	r.mu.Unlock()
	return s
}

// keptObject: the one object a "kept" handler answers with; changed in place
// (all passes) between one call and the next.
func (r *run) keptObject() interface{} {
	if r.kept == nil {
		r.kept = r.spec.instance(r.k.SendRep)
		return r.kept
	}
	n := 0
	for _, pass := range passes {
		n += mutate(r.kept, pass)
	}
	r.countMut(n)
	return r.kept
}

// request: what the caller sends in a case whose direction under test is the response.
func (r *run) request() interface{} {
	if r.k.Handler != "echo" {
		return other()
	}
	q := r.spec.instance(r.k.RecvRep) // the caller's objects have the receiver's representation
	r.mu.Lock()
	r.Q = append(r.Q, q)
	r.qCanon = append(r.qCanon, mustCanon(q))
	r.mu.Unlock()
	return q
}

func (r *run) pair(i int, an, bn string, a, b interface{}) {
	if addr := sharedAddress(a, b); addr != "" {
		kind := addr[strings.LastIndex(addr, "(")+1 : len(addr)-1]
		r.add(an+"~"+bn+"-shared-address:"+kind, fmt.Sprintf("message #%d: %s and %s hold the same %s: %s", i, an, bn, kind, addr))
	}
	shared, n := disjoint(a, b)
	r.countMut(n)
	if len(shared) > 0 {
		r.add(an+"~"+bn+"-aliased:via="+viaOf(shared), fmt.Sprintf("after the call, message #%d: mutating %s or %s in place changed the marshalled form of the other (passes %v)", i, an, bn, shared))
	}
}

// afterCallHandler: the checks that come on top of afterCall's; runs first, while
// every object is still as the call left it.
func (r *run) afterCallHandler() {
	if r.k.Dir != "resp" {
		return
	}
	for i := range r.R {
		if i >= len(r.snap) {
			break
		}
		if !r.eqAtRecv[i] {
			continue // already reported when it was obtained
		}
		if g, err := normalize(r.R[i]); err != nil || !proto.Equal(g, r.snap[i]) {
			r.add("response-changed-later", fmt.Sprintf("response #%d equalled the message the handler handed over when the caller obtained it and no longer does at the end of the case, although the caller has not touched it: what the handler did to its own object afterwards shows in the caller's response (now %s, handed over %s)", i, short(mustCanon(r.R[i])), short(r.snapCanon[i])))
		}
	}
	if r.k.Handler != "echo" {
		return
	}
	for i := range r.Q {
		if i >= len(r.R) || i >= len(r.S) {
			break
		}
		if !bytes.Equal(mustCanon(r.Q[i]), r.qCanon[i]) {
			r.add("caller-request-changed", fmt.Sprintf("request #%d of the caller is not what it was when it was handed to the library (now %s, then %s)", i, short(mustCanon(r.Q[i])), short(r.qCanon[i])))
		}
		r.pair(i, "request", "handler", r.Q[i], r.S[i])
		r.pair(i, "request", "response", r.Q[i], r.R[i])
	}
}
