package main

// Canonical forms, the (correct) user functions handed to CloneFunc / CopyFunc
// (taken from /verif/seq/c18/oracle.go), the reflective address walk, and the
// self checks of the checker.

import (
	"bytes"
	"errors"
	"fmt"
	"reflect"
	"sync/atomic"

	"github.com/jhump/protoreflect/dynamic"
	"google.golang.org/grpc/encoding"
	_ "google.golang.org/grpc/encoding/proto" // registers the "proto" codec
	"google.golang.org/protobuf/proto"
	"google.golang.org/protobuf/reflect/protoreflect"
	"google.golang.org/protobuf/reflect/protoregistry"

	"github.com/fullstorydev/grpchan/inprocgrpc"
)

var detMarshal = proto.MarshalOptions{Deterministic: true, AllowPartial: true}

func normalize(m interface{}) (res proto.Message, err error) {
	defer func() {
		if r := recover(); r != nil {
			res, err = nil, fmt.Errorf("panic while reading the message: %v", r)
		}
	}()
	switch x := m.(type) {
	case nil:
		return nil, errors.New("nil")
	case *dynamic.Message:
		if x == nil {
			return nil, errors.New("nil *dynamic.Message")
		}
		md := x.GetMessageDescriptor()
		if md == nil {
			return nil, errors.New("*dynamic.Message without a descriptor")
		}
		b, err := x.MarshalDeterministic()
		if err != nil {
			return nil, err
		}
		mt, err := protoregistry.GlobalTypes.FindMessageByName(protoreflect.FullName(md.GetFullyQualifiedName()))
		if err != nil {
			return nil, err
		}
		g := mt.New().Interface()
		if err := (proto.UnmarshalOptions{AllowPartial: true}).Unmarshal(b, g); err != nil {
			return nil, err
		}
		return g, nil
	case proto.Message:
		if !x.ProtoReflect().IsValid() {
			return nil, fmt.Errorf("invalid (nil) %T", m)
		}
		return x, nil
	}
	return nil, fmt.Errorf("not a protobuf message: %T", m)
}

func canon(m interface{}) ([]byte, error) {
	g, err := normalize(m)
	if err != nil {
		return nil, err
	}
	return detMarshal.Marshal(g)
}

func mustCanon(m interface{}) []byte {
	b, err := canon(m)
	if err != nil {
		panic("checker: message unreadable: " + err.Error())
	}
	return b
}

func msgName(m interface{}) (name string, ok bool) {
	switch x := m.(type) {
	case *dynamic.Message:
		if x == nil || x.GetMessageDescriptor() == nil {
			return "", false
		}
		return x.GetMessageDescriptor().GetFullyQualifiedName(), true
	case proto.Message:
		if rv := reflect.ValueOf(m); rv.Kind() == reflect.Ptr && rv.IsNil() {
			return "", false
		}
		return string(x.ProtoReflect().Descriptor().FullName()), true
	}
	return "", false
}

func short(b []byte) string {
	if len(b) > 24 {
		return fmt.Sprintf("%x…(%d bytes)", b[:24], len(b))
	}
	return fmt.Sprintf("%x", b)
}

// ------------------------------------------------------------ reference clone / copy

func goodClone(in interface{}) (interface{}, error) {
	switch x := in.(type) {
	case *dynamic.Message:
		if x == nil || x.GetMessageDescriptor() == nil {
			return nil, fmt.Errorf("cannot clone %T without a descriptor", in)
		}
		b, err := x.Marshal()
		if err != nil {
			return nil, err
		}
		out := dynamic.NewMessage(x.GetMessageDescriptor())
		if err := out.Unmarshal(b); err != nil {
			return nil, err
		}
		return out, nil
	case proto.Message:
		if rv := reflect.ValueOf(in); rv.Kind() != reflect.Ptr || rv.IsNil() {
			return nil, fmt.Errorf("cannot clone nil %T", in)
		}
		return proto.Clone(x), nil
	}
	return nil, fmt.Errorf("value to clone is not a protobuf message: %T", in)
}

func goodCopy(out, in interface{}) error {
	if dm, ok := out.(*dynamic.Message); ok && dm != nil && dm.GetMessageDescriptor() == nil {
		return fmt.Errorf("destination *dynamic.Message has no message descriptor (it was not made by dynamic.NewMessage)")
	}
	inName, ok := msgName(in)
	if !ok {
		return fmt.Errorf("value to copy is not a protobuf message: %T", in)
	}
	outName, ok := msgName(out)
	if !ok {
		return fmt.Errorf("destination is not a protobuf message: %T", out)
	}
	if inName != outName {
		return fmt.Errorf("cannot copy a %s into a %s", inName, outName)
	}
	gi, inGen := in.(proto.Message)
	gout, outGen := out.(proto.Message)
	if inGen && outGen {
		if reflect.TypeOf(in) != reflect.TypeOf(out) {
			return fmt.Errorf("type mismatch: %T != %T", in, out)
		}
		proto.Reset(gout)
		proto.Merge(gout, gi)
		return nil
	}
	var b []byte
	var err error
	if inGen {
		b, err = proto.MarshalOptions{AllowPartial: true}.Marshal(gi)
	} else {
		b, err = in.(*dynamic.Message).Marshal()
	}
	if err != nil {
		return err
	}
	if outGen {
		return proto.UnmarshalOptions{AllowPartial: true}.Unmarshal(b, gout) // resets first
	}
	return out.(*dynamic.Message).Unmarshal(b) // resets first
}

// A configuration whose user-supplied part comes in variants (userfn.go) is
// listed once per variant: "X" uses the fresh-allocating function / codec, "X/reuse"
// the one that keeps the storage of the destination it is handed.
var clonerNames = []string{"default", "CodecCloner", "CloneFunc", "CopyFunc", "CopyFunc/reuse", "CodecCloner/reuse"}

// mkCloner: nil means "no cloner configured" (the channel's default).
func mkCloner(name string) inprocgrpc.Cloner {
	switch name {
	case "default":
		return nil
	case "CodecCloner":
		c := encoding.GetCodec("proto")
		if c == nil {
			panic("no proto codec registered")
		}
		return inprocgrpc.CodecCloner(c)
	case "CloneFunc":
		return inprocgrpc.CloneFunc(goodClone)
	case "CopyFunc":
		return inprocgrpc.CopyFunc(goodCopy)
	case "CopyFunc/reuse":
		return inprocgrpc.CopyFunc(reuseCopy)
	case "CodecCloner/reuse":
		c := encoding.GetCodec("proto")
		if c == nil {
			panic("no proto codec registered")
		}
		return inprocgrpc.CodecCloner(reuseCodec{c})
	}
	panic("unknown cloner " + name)
}

// ------------------------------------------------------------ address walk

// addresses collects what a generated message holds by reference: backing
// arrays of non-empty slices, maps, pointers (nested messages, oneof wrappers,
// proto2 optional scalars). Strings (immutable) and the message's internal
// state (type information shared by all messages of a type) are left out, as
// are zero-sized things (they may legitimately share one address).
func addresses(m interface{}) map[uintptr]string {
	out := map[uintptr]string{}
	if _, ok := m.(*dynamic.Message); ok {
		return out
	}
	walk(reflect.ValueOf(m), "", out, 0)
	return out
}

func walk(v reflect.Value, path string, out map[uintptr]string, depth int) {
	if depth > 40 {
		return
	}
	switch v.Kind() {
	case reflect.Ptr:
		if v.IsNil() || v.Type().Elem().Size() == 0 {
			return
		}
		if _, seen := out[v.Pointer()]; seen {
			return
		}
		out[v.Pointer()] = path + "(pointer)"
		walk(v.Elem(), path, out, depth+1)
	case reflect.Interface:
		if !v.IsNil() {
			walk(v.Elem(), path, out, depth+1)
		}
	case reflect.Struct:
		t := v.Type()
		for i := 0; i < t.NumField(); i++ {
			f := t.Field(i)
			if f.Name == "state" || f.Name == "sizeCache" || f.Name == "extensionFields" {
				continue
			}
			walk(v.Field(i), path+"."+f.Name, out, depth+1)
		}
	case reflect.Slice:
		if v.IsNil() || v.Cap() == 0 {
			return
		}
		out[v.Pointer()] = path + "(slice)"
		switch v.Type().Elem().Kind() {
		case reflect.Ptr, reflect.Slice, reflect.Interface, reflect.Struct, reflect.Map:
			for i := 0; i < v.Len(); i++ {
				walk(v.Index(i), fmt.Sprintf("%s[%d]", path, i), out, depth+1)
			}
		}
	case reflect.Map:
		if v.IsNil() {
			return
		}
		out[v.Pointer()] = path + "(map)"
		switch v.Type().Elem().Kind() {
		case reflect.Ptr, reflect.Slice, reflect.Interface, reflect.Struct, reflect.Map:
			it := v.MapRange()
			for it.Next() {
				walk(it.Value(), fmt.Sprintf("%s[%v]", path, it.Key()), out, depth+1)
			}
		}
	}
}

// sharedAddress returns a description of one address both object graphs hold, "" if none.
func sharedAddress(a, b interface{}) string {
	aa, bb := addresses(a), addresses(b)
	best := ""
	for p, where := range aa {
		if w2, ok := bb[p]; ok {
			d := where + " = " + w2
			if best == "" || d < best { // deterministic choice
				best = d
			}
		}
	}
	return best
}

// ------------------------------------------------------------ self checks of the checker

func hasRefContent(m proto.Message) bool {
	r := m.ProtoReflect()
	if len(r.GetUnknown()) > 0 {
		return true
	}
	found := false
	fds := r.Descriptor().Fields()
	for i := 0; i < fds.Len(); i++ {
		fd := fds.Get(i)
		if !r.Has(fd) {
			continue
		}
		if fd.IsList() || fd.IsMap() || isMsg(fd) || fd.HasPresence() {
			found = true
		}
		if fd.Kind() == protoreflect.BytesKind && len(r.Get(fd).Bytes()) > 0 {
			found = true
		}
	}
	return found
}

func shallow(m interface{}) interface{} {
	rv := reflect.ValueOf(m)
	cp := reflect.New(rv.Type().Elem())
	cp.Elem().Set(rv.Elem())
	return cp.Interface()
}

// disjoint runs the behavioural test on two objects; it returns the passes that showed sharing.
func disjoint(a, b interface{}) (shared []string, mutations int) {
	for _, pass := range passes {
		before := mustCanon(a)
		mutations += mutate(b, pass)
		hit := !bytes.Equal(before, mustCanon(a))
		bb := mustCanon(b)
		mutations += mutate(a, pass)
		if !bytes.Equal(bb, mustCanon(b)) {
			hit = true
		}
		if hit {
			shared = append(shared, pass)
		}
	}
	return
}

func viaOf(shared []string) string {
	for _, p := range viaPriority {
		for _, s := range shared {
			if s == p {
				return p
			}
		}
	}
	return ""
}

// selfCheck: the pool is well-formed; the disjointness test and the address
// walk flag a shallow copy of everything that has something to share and do not
// flag two independent builds; the reference clone / copy functions are equal,
// deep and overwrite their destination.
func selfCheck() []string {
	var problems []string
	for _, s := range pool {
		g1, g2 := s.build(), s.build()
		if !proto.Equal(g1, g2) {
			problems = append(problems, s.Name+": two builds differ")
		}
		for _, rep := range []string{"gen", "dyn"} {
			for _, mode := range []string{"shallow", "independent"} {
				a := s.instance(rep)
				var b interface{}
				if mode == "shallow" {
					b = shallow(a)
				} else {
					b = s.instance(rep)
				}
				addr := sharedAddress(a, b)
				shared, total := disjoint(a, b)
				want := mode == "shallow" && hasRefContent(s.build())
				if mode == "shallow" && rep == "dyn" {
					g := s.build()
					want = !proto.Equal(g, g.ProtoReflect().New().Interface()) || len(g.ProtoReflect().GetUnknown()) > 0
				}
				if (len(shared) > 0) != want {
					problems = append(problems, fmt.Sprintf("%s[%s] %s copy: disjointness test flagged=%v, expected %v (%d mutations)", s.Name, rep, mode, shared, want, total))
				}
				if rep == "gen" && (addr != "") != want {
					problems = append(problems, fmt.Sprintf("%s[gen] %s copy: address walk found %q, expected sharing=%v", s.Name, mode, addr, want))
				}
			}
			// the functions handed to CloneFunc / CopyFunc
			src := s.instance(rep)
			snap := mustCanon(src)
			c, err := goodClone(src)
			if err != nil || !bytes.Equal(mustCanon(c), snap) {
				problems = append(problems, fmt.Sprintf("%s[%s]: reference clone wrong (%v)", s.Name, rep, err))
				continue
			}
			if sh, _ := disjoint(src, c); len(sh) > 0 {
				problems = append(problems, fmt.Sprintf("%s[%s]: reference clone shares memory: %v", s.Name, rep, sh))
			}
			for _, cv := range copyVariants() {
				for _, drep := range []string{"gen", "dyn"} {
					for _, f := range fillers(s.Type, s, false) {
						src := s.instance(rep)
						dst := f.instance(drep)
						if err := cv.fn(dst, src); err != nil || !bytes.Equal(mustCanon(dst), snap) || !bytes.Equal(mustCanon(src), snap) {
							problems = append(problems, fmt.Sprintf("%s[%s] -> [%s] filled with %s: %s wrong (%v)", s.Name, rep, drep, f.Name, cv.name, err))
							continue
						}
						if addr := sharedAddress(src, dst); addr != "" {
							problems = append(problems, fmt.Sprintf("%s[%s] -> [%s]: %s shares memory: %s", s.Name, rep, drep, cv.name, addr))
						}
						if sh, _ := disjoint(src, dst); len(sh) > 0 {
							problems = append(problems, fmt.Sprintf("%s[%s] -> [%s]: %s shares memory: %v", s.Name, rep, drep, cv.name, sh))
						}
					}
				}
			}
		}
		// what makes the reuse variants a dimension of their own: handed a
		// destination that is NOT an object of its own (a shallow copy of the
		// source) they do not produce an independent copy, for every message
		// that has something to share, whereas the fresh ones do
		if hasRefContent(s.build()) {
			for _, cv := range copyVariants() {
				src := s.instance("gen")
				snap := mustCanon(src)
				dst := shallow(src)
				err := cv.fn(dst, src)
				independent := err == nil && bytes.Equal(mustCanon(dst), snap) && bytes.Equal(mustCanon(src), snap) && sharedAddress(src, dst) == ""
				if independent {
					sh, _ := disjoint(src, dst)
					independent = len(sh) == 0
				}
				if want := cv.name == "fresh copy function"; independent != want {
					problems = append(problems, fmt.Sprintf("%s: %s into a destination aliasing the source: independent copy=%v, expected %v", s.Name, cv.name, independent, want))
				}
			}
		}
	}
	before := atomic.LoadInt64(&reuseRetained)
	for _, cv := range copyVariants()[1:] {
		src, dst := specByName["msg-full"].instance("gen"), specByName["msg-filler"].instance("gen")
		had := addresses(dst)
		_ = cv.fn(dst, src)
		kept := 0
		for a := range addresses(dst) {
			if _, ok := had[a]; ok {
				kept++
			}
		}
		if kept == 0 {
			problems = append(problems, cv.name+": kept none of the destination's storage (msg-full into msg-filler)")
		}
	}
	if atomic.LoadInt64(&reuseRetained) == before {
		problems = append(problems, "the reuse functions do not count the storage they keep")
	}
	return problems
}
