// C06, content part (engine E2): in-process calls never share message memory
// between caller and handler — over message shapes and cloner configurations,
// under the ordinary schedule (use-after-return under all schedules and early
// cancellation are the E1 part).
//
// Bounded-exhaustive grammar: 4 RPC kinds x direction carrying the message
// (request / response), plus the unary call cancelled before the handler decodes
// (request only) x cloner configuration {none configured, CodecCloner of the
// registered proto codec, CloneFunc(correct fn), CopyFunc(correct fn)} x, for
// the two configurations that run a user-supplied copy (CopyFunc, CodecCloner),
// what that correct user function does with the storage of the destination it is
// handed {allocates afresh, keeps it: userfn.go} x what the handler does with
// its objects {answers with a new message, answers with the very object it
// received the request into, answers two calls with one object that it changes
// in between: handlers.go} x message pool (pool.go, the pool of the C18 check) x representation of the
// sender's object and of the receiver's destination {generated,
// *dynamic.Message}^2 x previous content of the receive destination.
// Every case is one RPC on a real inprocgrpc.Channel; see harness.go for the
// protocol and the oracle (behavioural disjointness by in-place mutation at
// three moments, address walk, destination overwritten).
package main

import (
	"fmt"
	"os"
	"runtime/debug"
	"sort"
	"strings"
	"sync/atomic"
	"time"

	"verif/seq/common"
	"verif/vlib"
)

const hangGuard = 60 * time.Second

func inconclusive(msg string) {
	fmt.Fprintln(os.Stderr, "INCONCLUSIVE:", msg)
	os.Exit(2)
}

func guarded(k kase) outcome {
	ch := make(chan outcome, 1)
	go func() { ch <- runCase(k) }()
	select {
	case o := <-ch:
		return o
	case <-time.After(hangGuard):
		inconclusive(fmt.Sprintf("case %s did not finish within %v (termination is property C05, not decided here)", k.key(), hangGuard))
	}
	panic("unreachable")
}

var kinds = []string{"unary", "client-stream", "server-stream", "bidi", "unary-cancelled"}

type repPair struct{ send, recv string }

var repPairs = []repPair{{"gen", "gen"}, {"dyn", "dyn"}, {"dyn", "gen"}, {"gen", "dyn"}}

// enumerate: simplest first (pool order is simplest-first within a type; plain
// representations, the default cloner and unary calls come first).
func enumerate(thorough bool) []kase {
	var out []kase
	for _, rp := range repPairs {
		for _, cl := range clonerNames {
			for _, kind := range kinds {
				for _, dir := range []string{"req", "resp"} {
					if kind == "unary-cancelled" && dir != "req" {
						continue // the response of a cancelled call is dropped
					}
					for _, s := range pool {
						fills := fillers(s.Type, s, thorough)
						names := []string{}
						if thorough || len(fills) == 0 {
							names = append(names, "") // empty destination
						}
						for _, f := range fills {
							names = append(names, f.Name)
						}
						for _, f := range names {
							out = append(out, kase{Engine: "E2", Cloner: cl, Kind: kind, Dir: dir, Shape: s.Name, SendRep: rp.send, RecvRep: rp.recv, Fill: f})
						}
					}
				}
			}
			// what the handler does with its objects (handlers.go); the response direction carries the shape
			for _, hn := range handlerNames {
				for _, kind := range handlerKinds(hn) {
					for _, s := range pool {
						fills := fillers(s.Type, s, thorough)
						names := []string{}
						if thorough || len(fills) == 0 {
							names = append(names, "")
						}
						for _, f := range fills {
							names = append(names, f.Name)
						}
						for _, f := range names {
							out = append(out, kase{Engine: "E2", Cloner: cl, Kind: kind, Dir: "resp", Shape: s.Name, SendRep: rp.send, RecvRep: rp.recv, Fill: f, Handler: hn})
						}
					}
				}
			}
		}
	}
	return out
}

// ------------------------------------------------------------ fingerprints
//
// A finding falls in a class (path, direction, clause) where path is "unary"
// (Channel.Invoke) or "stream" (the three streaming kinds share the stream
// code). Within a class it is reported per cloner configuration, or once with
// cloner=any when it fires under all four; it carries the suffix dyn when it
// needs a dynamic message on either side.

func path(kind string) string {
	if kind == "unary" || kind == "unary-cancelled" {
		return kind
	}
	return "stream"
}

type hit struct {
	k kase
	f finding
}

type reported struct {
	fp    string
	first hit
	n     int
}

func plain(k kase) bool { return k.SendRep == "gen" && k.RecvRep == "gen" }

func group(hits []hit) []reported {
	type cls struct {
		byCloner map[string][]hit
		order    []string
	}
	classes := map[string]*cls{}
	var order []string
	// a clause "family:detail" (aliased:via=bytes, shared-address:map) keeps its detail when
	// the class shows only one; several details of one family are one finding ("several")
	details := map[string]map[string]bool{}
	family := func(h hit) (string, string) {
		fam, det := h.f.Clause, ""
		if i := strings.Index(fam, ":"); i >= 0 {
			fam, det = fam[:i], fam[i+1:]
		}
		return pathOf(h.k) + "|" + h.k.Dir + "|" + fam, det
	}
	for _, h := range hits {
		fk, det := family(h)
		if details[fk] == nil {
			details[fk] = map[string]bool{}
		}
		details[fk][det] = true
	}
	for _, h := range hits {
		ck, det := family(h)
		if len(details[ck]) > 1 {
			ck += ":several"
		} else if det != "" {
			ck += ":" + det
		}
		c := classes[ck]
		if c == nil {
			c = &cls{byCloner: map[string][]hit{}}
			classes[ck] = c
			order = append(order, ck)
		}
		if c.byCloner[h.k.Cloner] == nil {
			c.order = append(c.order, h.k.Cloner)
		}
		c.byCloner[h.k.Cloner] = append(c.byCloner[h.k.Cloner], h)
	}
	var out []reported
	for _, ck := range order {
		c := classes[ck]
		sets, names := c.byCloner, c.order
		if len(c.order) == len(clonerNames) {
			var all []hit
			for _, cl := range clonerNames {
				all = append(all, c.byCloner[cl]...)
			}
			sets, names = map[string][]hit{"any": all}, []string{"any"}
		}
		for _, cl := range names {
			hs := sets[cl]
			first, isPlain := hs[0], false
			for _, h := range hs {
				if plain(h.k) {
					first, isPlain = h, true
					break
				}
			}
			fp := "C06|cloner=" + cl + "|" + ck
			if !isPlain {
				fp += "|dyn"
			}
			out = append(out, reported{fp, first, len(hs)})
		}
	}
	return out
}

func main() {
	debug.SetMemoryLimit(3 << 30)
	rep := vlib.NewReporter("C06")
	for _, s := range pool {
		descFor(s.build()) // fill the descriptor cache before any goroutine uses it
	}
	thorough := rep.Tier == "thorough"

	if p := common.Arg("replay"); p != "" {
		var k kase
		if err := common.LoadReplay(p, &k); err != nil {
			inconclusive("cannot load replay: " + err.Error())
		}
		okKind := false
		for _, x := range kinds {
			okKind = okKind || x == k.Kind
		}
		okCloner := false
		for _, x := range clonerNames {
			okCloner = okCloner || x == k.Cloner
		}
		if k.Engine != "E2" || specByName[k.Shape] == nil || !okKind || !okCloner || (k.Dir != "req" && k.Dir != "resp") || (k.Kind == "unary-cancelled" && k.Dir != "req") || !validHandler(k) {
			inconclusive("replay file does not describe a case of the C06 content part")
		}
		o := guarded(k)
		if o.Internal != "" && len(o.Findings) == 0 {
			inconclusive(o.Internal)
		}
		fmt.Printf("replay: %s\n  observed: %s %s\n", k.key(), o.Observed, o.Internal)
		for _, f := range o.Findings {
			fmt.Printf("  C06|cloner=%s|%s|%s|%s: %s\n", k.Cloner, pathOf(k), k.Dir, f.Clause, f.What)
		}
		if len(o.Findings) > 0 {
			fmt.Printf("VIOLATION property=C06 replay=%s\n", p)
			os.Exit(1)
		}
		os.Exit(0)
	}

	// --- the checker checks itself first
	if pr := selfCheck(); len(pr) > 0 {
		if len(pr) > 5 {
			pr = pr[:5]
		}
		inconclusive(fmt.Sprintf("self check failed (pool / mutator / address walk / reference clone and copy functions): %v", pr))
	}

	atomic.StoreInt64(&reuseCalls, 0)
	atomic.StoreInt64(&reuseRetained, 0)
	evals, pairs, mutations := 0, 0, 0
	distinct := map[string]bool{}
	perClass := map[string]int{}
	var samples []interface{}
	sampled := map[string]bool{}
	var hits []hit
	var undecided []string
	for _, k := range enumerate(thorough) {
		evals++
		o := guarded(k)
		if o.Internal != "" {
			if len(o.Findings) == 0 {
				undecided = append(undecided, o.Internal)
				continue
			}
		}
		pairs += o.Pairs
		mutations += o.Mutations
		if o.Mutations > 0 || len(o.Findings) > 0 {
			distinct[k.key()] = true
			perClass[k.Cloner+"|"+pathOf(k)+"|"+k.Dir+"|"+k.SendRep+">"+k.RecvRep]++
		}
		sk := k.Cloner + "|" + pathOf(k) + "|" + k.Dir
		if !sampled[sk] && len(samples) < 24 && k.Shape == "msg-full" && plain(k) {
			sampled[sk] = true
			samples = append(samples, map[string]interface{}{"case": k, "observed": o.Observed})
		}
		for _, f := range o.Findings {
			hits = append(hits, hit{k, f})
		}
	}
	for _, r := range group(hits) {
		what := fmt.Sprintf("[%s] %s", r.first.k.key(), r.first.f.What)
		if r.n > 1 {
			what += fmt.Sprintf(" [%d findings of the grammar fall in this class; the replay is the simplest case]", r.n)
		}
		rep.Violation(r.fp, what, r.first.k)
	}
	if len(undecided) > 0 && rep.Violations == 0 {
		inconclusive(fmt.Sprintf("%d case(s) could not be decided, first: %s", len(undecided), undecided[0]))
	}

	classes := map[string]interface{}{}
	var cks []string
	for c := range perClass {
		cks = append(cks, c)
	}
	sort.Strings(cks)
	for _, c := range cks {
		classes[c] = perClass[c]
	}
	os.Exit(rep.Finish("exploration", map[string]interface{}{
		"evaluations":         evals,
		"distinct_nontrivial": len(distinct),
		"rule": "every (cloner configuration incl. the variant of its user-supplied function, handler behaviour (new response / echo of the request object / one kept response object for two calls), RPC kind incl. the unary call cancelled before the handler decodes, direction, pool message, sender representation, receiver representation, previous content of the destination) of the grammar is one RPC on a real " +
			"inprocgrpc.Channel. A case is non-trivial when the message went through the channel's clone/copy path and the pair (sender's object, receiver's object) was put through the disjointness test " +
			"with at least one in-place mutation applied, or a clause failed; distinct by all case parameters.",
		"samples":                            samples,
		"exhaustive":                         true,
		"pool_messages":                      len(pool),
		"message_types":                      len(typeOrder),
		"cloner_configurations":              clonerNames,
		"handler_behaviours":                 "answers with a new message (all kinds, both directions); echo: answers with the very object it decoded / received the request into (4 kinds; caller's request, handler's object and caller's response pairwise disjoint); kept: answers two successive unary calls with one object changed in place in between",
		"user_function_variants":             "CopyFunc and CodecCloner each with a user function / codec that allocates the destination's content afresh and with one that overwrites the destination keeping its storage (X/reuse)",
		"reuse_function_calls_by_library":    atomic.LoadInt64(&reuseCalls),
		"reuse_function_storage_kept_events": atomic.LoadInt64(&reuseRetained),
		"object_pairs_compared":              pairs,
		"in_place_mutations":                 mutations,
		"undecided_cases":                    len(undecided),
		"nontrivial_by_class":                classes,
		"engine":                             "E2",
		"part":                               "content (shapes x cloners) under the ordinary schedule; use-after-return over all schedules and early cancellation are the E1 part",
	}, []string{
		"only the ordinary Go schedule is seen here; the sender's mutation right after SendMsg is made to precede the receive by a token the receiver waits for (the in-flight frame sits in the stream's one-slot buffer)",
		"*dynamic.Message exposes no protoreflect view: its content is mutated through its public accessors; the address walk covers generated messages only (strings and per-type internal state exempt)",
		"equality of a dynamic message is judged on its deterministic wire form parsed into the generated type",
		"the clone and copy functions given to CloneFunc/CopyFunc and the codec given to CodecCloner are the checker's own (those of the C18 check, plus the storage-keeping copy function and codec of userfn.go); they pass a self check on the whole pool before anything runs (otherwise exit 2): equal, deep, destination overwritten, source untouched whenever the destination is an object of its own",
		"a user function is taken to be correct when it satisfies the Cloner contract for a destination that is an object of its own; what it does with a destination that aliases the source is the library's responsibility, since only the library makes up destinations (CopyFunc's Clone)",
		"unary-cancelled: the handler itself cancels the caller's context before decoding and decodes only after Invoke has returned and the caller has mutated its request (one fixed schedule; all schedules are the E1 part)",
		"an RPC that fails (e.g. a cloner refusing a pairing) is not a C06 matter: such a case is counted as undecided and makes the run inconclusive (exit 2) unless a violation was found",
	}))
}
