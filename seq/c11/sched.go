package main

// Several requests on ONE server: sequences and overlaps.
//
// The isolated sweep (main.go) judges every request on its own. Here k = 1..3
// requests of a small pool are served by one fresh server in one fresh process
// under every interleaving of two steps per request,
//
//	S_i  start request i and let it run until it parks inside its
//	     ResponseWriter (the Park-th call of WriteHeader/Write/Flush blocks on
//	     a gate), or until it finishes if it makes fewer calls;
//	F_i  open the gate of request i and let it run to its end,
//
// with S_0 < S_1 < ... (requests are named in start order; the pool is crossed
// with itself, so every start order of every multiset occurs) and S_i < F_i.
// The word S_0 F_0 S_1 F_1 ... is the plain sequence; in every other word some
// request is served completely, or started, while another one has marshalled
// its reply but its ResponseWriter has not consumed it yet. Every reply is then
// judged by the same reference function as an isolated request (judge).
//
// Determinism: the driver waits after every step until the one goroutine it let
// run has blocked on its gate or finished, so at any time at most one goroutine
// of the case is runnable and the order of all library steps is fixed by the
// word alone (no sleeps). Each case runs in a process of its own (this binary,
// flag --schedchild) with runtime.GOMAXPROCS(1), i.e. a single P and therefore
// a single per-P cache in every sync.Pool, and with the collector off
// (debug.SetGCPercent(-1)), so that nothing a case does depends on what was
// enumerated before it (package-level state of the library included) and
// sync.Pool reuse is a function of the word. Every overlapped case is run in
// two such processes and the two outputs must be identical byte for byte.

import (
	"bytes"
	"context"
	"encoding/json"
	"fmt"
	"io"
	"net/http"
	"net/http/httptest"
	"os"
	"os/exec"
	"runtime"
	"runtime/debug"
	"sort"
	"strings"
	"sync"
	"sync/atomic"
	"time"

	"verif/vlib"
)

// ---- schedules --------------------------------------------------------------

type step struct {
	Op byte // 'S' or 'F'
	I  int
}

func schedString(st []step) string {
	var parts []string
	for _, s := range st {
		parts = append(parts, fmt.Sprintf("%c%d", s.Op, s.I))
	}
	return strings.Join(parts, " ")
}

func parseSched(s string, k int) ([]step, error) {
	var st []step
	started, finished := map[int]bool{}, map[int]bool{}
	for _, f := range strings.Fields(s) {
		var op byte
		var i int
		if _, err := fmt.Sscanf(f, "%c%d", &op, &i); err != nil || (op != 'S' && op != 'F') || i < 0 || i >= k {
			return nil, fmt.Errorf("bad step %q", f)
		}
		switch {
		case op == 'S' && (started[i] || i != len(started)):
			return nil, fmt.Errorf("step %q: requests start once, in order", f)
		case op == 'F' && (!started[i] || finished[i]):
			return nil, fmt.Errorf("step %q: finish after start, once", f)
		}
		if op == 'S' {
			started[i] = true
		} else {
			finished[i] = true
		}
		st = append(st, step{op, i})
	}
	if len(finished) != k {
		return nil, fmt.Errorf("schedule %q does not finish all %d requests", s, k)
	}
	return st, nil
}

// schedules lists every word over S_i, F_i (i < k) with S_0 < S_1 < ... and
// S_i < F_i; the plain sequence comes first. There are (2k)!/(2^k k!) of them:
// 1, 3, 15 for k = 1, 2, 3.
func schedules(k int) [][]step {
	var out [][]step
	var rec func(cur []step, next int, open []int)
	rec = func(cur []step, next int, open []int) {
		if next == k && len(open) == 0 {
			out = append(out, append([]step(nil), cur...))
			return
		}
		// finishing first, lowest index first, puts the plain sequence in front
		for j, i := range open {
			rest := append(append([]int(nil), open[:j]...), open[j+1:]...)
			rec(append(cur, step{'F', i}), next, rest)
		}
		if next < k {
			rec(append(cur, step{'S', next}), next+1, append(append([]int(nil), open...), next))
		}
	}
	rec(nil, 0, nil)
	return out
}

func isSequential(st []step) bool {
	for j := 0; j+1 < len(st); j += 2 {
		if st[j].Op != 'S' || st[j+1].Op != 'F' || st[j].I != st[j+1].I {
			return false
		}
	}
	return true
}

// project keeps the steps of the requests in keep (ascending) and renumbers them.
func project(st []step, keep []int) []step {
	idx := map[int]int{}
	for n, i := range keep {
		idx[i] = n
	}
	var out []step
	for _, s := range st {
		if n, ok := idx[s.I]; ok {
			out = append(out, step{s.Op, n})
		}
	}
	return out
}

// ---- the gate ---------------------------------------------------------------

// gatedRecorder is an httptest recorder whose park-th call of
// WriteHeader/Write/Flush blocks, before anything is consumed, until released.
type gatedRecorder struct {
	rec     *httptest.ResponseRecorder
	park    int
	calls   int
	didPark bool
	parked  chan struct{}
	release chan struct{}
}

func newGatedRecorder(park int) *gatedRecorder {
	return &gatedRecorder{rec: httptest.NewRecorder(), park: park, parked: make(chan struct{}), release: make(chan struct{})}
}

func (g *gatedRecorder) gate() {
	g.calls++
	if g.calls == g.park {
		g.didPark = true
		close(g.parked)
		<-g.release
	}
}

func (g *gatedRecorder) Header() http.Header  { return g.rec.Header() }
func (g *gatedRecorder) WriteHeader(code int) { g.gate(); g.rec.WriteHeader(code) }
func (g *gatedRecorder) Write(p []byte) (int, error) {
	g.gate()
	return g.rec.Write(p) // copies p: this is the moment the reply bytes are consumed
}
func (g *gatedRecorder) Flush() { g.gate(); g.rec.Flush() }

// wireObs is what one request of a case showed (observation + harness facts).
type wireObs struct {
	Panic     string      `json:"panic,omitempty"`
	Status    int         `json:"status"`
	Header    http.Header `json:"header"`
	Body      []byte      `json:"body"`
	Handler   int         `json:"handler"`
	UnaryInt  int         `json:"unary_int"`
	StreamInt int         `json:"stream_int"`
	Parked    bool        `json:"parked"` // the request did block on its gate
	Calls     int         `json:"calls"`  // ResponseWriter calls it made
}

func (w *wireObs) observation() *observation {
	return &observation{Panic: w.Panic, Status: w.Status, Header: w.Header, Body: w.Body, Cnt: counters{w.Handler, w.UnaryInt, w.StreamInt}}
}

const stepGuard = 20 * time.Second

// execSteps drives h through the word. It returns an error only when the
// harness cannot complete (a step neither parks nor finishes in time).
func execSteps(h http.Handler, reqs []*request, st []step, park int) ([]wireObs, error) {
	type run struct {
		g     *gatedRecorder
		cnt   *counters
		done  chan struct{}
		panic string
		open  bool
	}
	runs := make([]*run, len(reqs))
	for _, s := range st {
		switch s.Op {
		case 'S':
			r := &run{g: newGatedRecorder(park), cnt: &counters{}, done: make(chan struct{})}
			runs[s.I] = r
			hr := reqs[s.I].httpRequest(context.WithValue(context.Background(), cntKey{}, r.cnt))
			go func() {
				defer close(r.done)
				defer func() {
					if p := recover(); p != nil {
						r.panic = panicText(p)
					}
				}()
				h.ServeHTTP(r.g, hr)
			}()
			select {
			case <-r.g.parked:
			case <-r.done:
			case <-time.After(stepGuard):
				return nil, fmt.Errorf("step %c%d: the request neither reached its gate nor finished within %v", s.Op, s.I, stepGuard)
			}
		case 'F':
			r := runs[s.I]
			if !r.open {
				r.open = true
				close(r.g.release)
			}
			select {
			case <-r.done:
			case <-time.After(stepGuard):
				return nil, fmt.Errorf("step %c%d: the released request did not finish within %v", s.Op, s.I, stepGuard)
			}
		}
	}
	out := make([]wireObs, len(reqs))
	for i, r := range runs {
		out[i] = wireObs{Panic: r.panic, Status: r.g.rec.Code, Header: r.g.rec.Header(), Body: r.g.rec.Body.Bytes(),
			Handler: r.cnt.handler, UnaryInt: r.cnt.unaryInt, StreamInt: r.cnt.streamInt, Parked: r.g.didPark, Calls: r.g.calls}
		if out[i].Body == nil {
			out[i].Body = []byte{}
		}
	}
	return out, nil
}

// ---- one case ---------------------------------------------------------------

// SchedCase is k literal requests, the word, and the park point.
type SchedCase struct {
	Kind  string   `json:"kind"` // "sched"
	Cfg   string   `json:"cfg"`
	Names []string `json:"names"`
	Reqs  []*Case  `json:"reqs"`
	Park  int      `json:"park"`
	Sched string   `json:"sched"`
}

func (c *SchedCase) key() string {
	return fmt.Sprintf("%s|%s|park=%d|%s", c.Cfg, strings.Join(c.Names, ";"), c.Park, c.Sched)
}

type schedOut struct {
	Obs []wireObs `json:"obs"`
	Err string    `json:"err,omitempty"`
}

// pinProcess makes the process single-P with the collector off (see the top of
// the file); called by the child and by --replay before the case is executed.
func pinProcess() {
	runtime.GOMAXPROCS(1)
	debug.SetGCPercent(-1)
}

// execSched runs the case on a fresh server of its configuration.
func execSched(c *SchedCase) *schedOut {
	cfg := cfgByName(c.Cfg)
	if cfg == nil {
		return &schedOut{Err: "unknown cfg " + c.Cfg}
	}
	st, err := parseSched(c.Sched, len(c.Reqs))
	if err != nil {
		return &schedOut{Err: err.Error()}
	}
	if c.Park < 1 {
		return &schedOut{Err: "park point must be >= 1"}
	}
	var reqs []*request
	for _, r := range c.Reqs {
		reqs = append(reqs, r.request())
	}
	obs, err := execSteps(newEnv(cfg).h, reqs, st, c.Park)
	if err != nil {
		return &schedOut{Err: err.Error()}
	}
	return &schedOut{Obs: obs}
}

// schedChildMain: --schedchild; the case on stdin, the observations on stdout.
func schedChildMain() int {
	pinProcess()
	in, err := io.ReadAll(os.Stdin)
	var c SchedCase
	if err == nil {
		err = json.Unmarshal(in, &c)
	}
	if err != nil {
		fmt.Fprintln(os.Stderr, "schedchild: cannot read the case:", err)
		return 2
	}
	b, _ := json.Marshal(execSched(&c))
	os.Stdout.Write(b)
	return 0
}

func isSchedChild() bool {
	for _, a := range os.Args[1:] {
		if a == "--schedchild" {
			return true
		}
	}
	return false
}

var selfExe string

func runChild(c *SchedCase) ([]byte, error) {
	js, _ := json.Marshal(c)
	ctx, cancel := context.WithTimeout(context.Background(), 150*time.Second)
	defer cancel()
	cmd := exec.CommandContext(ctx, selfExe, "--schedchild")
	cmd.Stdin = bytes.NewReader(js)
	var stderr bytes.Buffer
	cmd.Stderr = &stderr
	out, err := cmd.Output()
	if err != nil {
		return nil, fmt.Errorf("child process for case %s: %v %s", c.key(), err, strings.TrimSpace(stderr.String()))
	}
	return out, nil
}

// ---- the pools ----------------------------------------------------------------

type poolReq struct {
	Name string
	T    tuple // cfg index 0; set per configuration
}

func indexByName(n int, name func(int) string, want, what string) int {
	for i := 0; i < n; i++ {
		if name(i) == want {
			return i
		}
	}
	panic("no " + what + " " + want)
}

func pr(target, method, ct, hdr, body string) poolReq {
	t := tuple{0,
		indexByName(len(paths), func(i int) string { return paths[i].Name }, target, "path"),
		indexByName(len(methods), func(i int) string { return methods[i] }, method, "method"),
		indexOfCT(ct),
		indexByName(len(hdrs), func(i int) string { return hdrs[i].Name }, hdr, "header set"),
		indexOfBody(body)}
	name := target + "/" + ct + "/" + body
	if method != "POST" {
		name += "/" + method
	}
	if hdr != "none" {
		name += "/hdr=" + hdr
	}
	return poolReq{name, t}
}

// naturalBody: a body that is a valid message (stream) for the content type's
// codec, resp. for the method kind when the content type names no codec.
func naturalBody(kind, ct string) string {
	if kind != "U" {
		return "frame1"
	}
	if strings.HasPrefix(ct, "json") {
		return "json"
	}
	return "pb"
}

var (
	seqCTs = []string{"unary", "stream", "json", "unary+charset", "stream+charset", "json+charset", "text-plain"}

	// ovNames: the requests that are overlapped pairwise: JSON and protobuf unary
	// calls whose replies have the same size / another size, failing calls
	// (details are marshalled with the request's codec), a refused request,
	// echoed metadata, and one stream of each kind.
	ovNames = []string{
		"U/unary/pb", "U/unary/pb-same", "U/unary/pb-long", "U/unary/empty",
		"U/json/json", "U/json/json-same", "U/json/json-long", "U/json/json-short", "U/json+charset/json",
		"U/unary/pb-err", "U/json/json-err", "U/unary/pb/hdr=valid", "U/stream/pb",
		"CS/stream/frame1", "SS/stream/frame1", "BD/stream/frame2",
	}
	// triNames: overlapped (and sequenced) three at a time
	triNames = []string{"U/json/json", "U/json/json-same", "U/json/json-long", "U/unary/pb"}
	// the small pools swept over the other configurations and park points in the quick tier
	miniSeqNames = []string{"U/json/json", "U/stream/pb", "SS/stream/frame1", "SS/json/frame1"}
	miniOvNames  = []string{"U/json/json", "U/json/json-same", "U/unary/pb", "BD/stream/frame2"}
)

// seqPool: target kind x content type with the natural body (every content
// type of the list both with a kind that supports it and with kinds that do
// not), plus requests that differ from a plain valid one on one other axis.
func seqPool(ctNames []string) []poolReq {
	var out []poolReq
	seen := map[string]bool{}
	add := func(p poolReq) {
		if !seen[p.Name] {
			seen[p.Name] = true
			out = append(out, p)
		}
	}
	for _, k := range kinds {
		for _, ct := range ctNames {
			add(pr(k, "POST", ct, "none", naturalBody(k, ct)))
		}
	}
	for _, b := range []string{"pb-same", "pb-long", "empty", "pb-err", "garbage"} {
		add(pr("U", "POST", "unary", "none", b))
	}
	for _, b := range []string{"json-same", "json-long", "json-short", "json-err", "json-truncated"} {
		add(pr("U", "POST", "json", "none", b))
	}
	add(pr("U", "GET", "unary", "none", "pb"))
	add(pr("U", "POST", "unary", "valid", "pb"))
	add(pr("U", "POST", "unary", "bad-bin", "pb"))
	add(pr("BD", "POST", "stream", "none", "frame2"))
	add(pr("SS", "POST", "stream", "none", "frame1-err"))
	add(pr("CS", "POST", "stream", "none", "frame-garbage"))
	add(pr("SS", "POST", "stream", "bad-bin", "frame1"))
	add(pr("unknown-method", "POST", "unary", "none", "pb"))
	// one request of each generated header-set family (outcome.go): a handler failing
	// with an error value whose own status says OK and is empty, and an
	// undecodable -bin value followed by a valid one under the same key
	add(pr("SS", "POST", "stream", "outcome:end/own/0//0/0", "frame1"))
	add(pr("U", "POST", "unary", "bin:A=iv", "pb"))
	return out
}

func pick(pool []poolReq, names []string) []poolReq {
	var out []poolReq
	for _, n := range names {
		found := false
		for _, p := range pool {
			if p.Name == n {
				out, found = append(out, p), true
			}
		}
		if !found {
			panic("pool has no request " + n)
		}
	}
	return out
}

func allCTNames() []string {
	var out []string
	for _, c := range cts {
		out = append(out, c.Name)
	}
	return out
}

// ---- the plan -------------------------------------------------------------------

func mkCase(ci int, rs []poolReq, st []step, park int) *SchedCase {
	c := &SchedCase{Kind: "sched", Cfg: cfgs[ci].Name, Park: park, Sched: schedString(st)}
	for _, r := range rs {
		t := r.T
		t[0] = ci
		c.Names = append(c.Names, r.Name)
		c.Reqs = append(c.Reqs, t.toCase())
	}
	return c
}

func tuplesOf(pool []poolReq, k int, yield func([]poolReq)) {
	cur := make([]poolReq, k)
	var rec func(d int)
	rec = func(d int) {
		if d == k {
			yield(append([]poolReq(nil), cur...))
			return
		}
		for _, p := range pool {
			cur[d] = p
			rec(d + 1)
		}
	}
	rec(0)
}

// buildPlan lists the cases simplest first (fewer requests, plain sequences
// before overlaps, first park point and first configuration before the others),
// so that a finding of a larger case can be attributed to a smaller one that
// has already been judged.
func buildPlan(thorough bool) ([]*SchedCase, []string) {
	full := seqPool(seqCTs)
	ov, tri := pick(full, ovNames), pick(full, triNames)
	miniSeq, miniOv := pick(full, miniSeqNames), pick(full, miniOvNames)
	var plan []*SchedCase
	var blocks []string
	seen := map[string]bool{}
	block := func(what string, cis []int, pool []poolReq, k int, parks []int, which func([]step) bool) {
		n := 0
		for _, park := range parks {
			for _, ci := range cis {
				tuplesOf(pool, k, func(rs []poolReq) {
					for _, st := range schedules(k) {
						if !which(st) {
							continue
						}
						c := mkCase(ci, rs, st, park)
						if key := c.key(); !seen[key] {
							seen[key] = true
							plan = append(plan, c)
							n++
						}
					}
				})
			}
		}
		blocks = append(blocks, fmt.Sprintf("%s: %d", what, n))
	}
	anyWord := func([]step) bool { return true }
	overlapped := func(st []step) bool { return !isSequential(st) }
	srv, others, all := []int{0}, []int{1, 2, 3}, []int{0, 1, 2, 3}
	if thorough {
		block(fmt.Sprintf("single requests: cfg{4} x pool{%d}", len(full)), all, full, 1, []int{1}, anyWord)
		block(fmt.Sprintf("sequences of 2: cfg{4} x pool{%d}^2", len(full)), all, full, 2, []int{1}, isSequential)
		ctAll := seqPool(allCTNames())
		block(fmt.Sprintf("sequences of 2 over every Content-Type string of the grammar: cfg{srv} x pool{%d}^2, not counting the above", len(ctAll)), srv, ctAll, 2, []int{1}, isSequential)
		block(fmt.Sprintf("overlapped pairs: cfg{4} x park{1,2,4} x pool{%d}^2 x word{2}", len(ov)), all, ov, 2, []int{1, 2, 4}, overlapped)
		block(fmt.Sprintf("triples: cfg{4} x pool{%d}^3 x word{15}", len(tri)), all, tri, 3, []int{1}, anyWord)
	} else {
		block(fmt.Sprintf("single requests: cfg{srv} x pool{%d}", len(full)), srv, full, 1, []int{1}, anyWord)
		block(fmt.Sprintf("sequences of 2: cfg{srv} x pool{%d}^2", len(full)), srv, full, 2, []int{1}, isSequential)
		block(fmt.Sprintf("sequences of 2, other configurations: cfg{3} x pool{%d}^2", len(miniSeq)), others, miniSeq, 2, []int{1}, isSequential)
		block(fmt.Sprintf("overlapped pairs: cfg{srv} x park{1} x pool{%d}^2 x word{2}", len(ov)), srv, ov, 2, []int{1}, overlapped)
		block(fmt.Sprintf("overlapped pairs, other configurations: cfg{3} x park{1} x pool{%d}^2 x word{2}", len(miniOv)), others, miniOv, 2, []int{1}, overlapped)
		block(fmt.Sprintf("overlapped pairs, later park points: cfg{srv} x park{2,4} x pool{%d}^2 x word{2}", len(miniOv)), srv, miniOv, 2, []int{2, 4}, overlapped)
		block(fmt.Sprintf("triples: cfg{srv} x pool{%d}^3 x word{15}", len(tri)), srv, tri, 3, []int{1}, anyWord)
	}
	return plan, blocks
}

// ---- running and judging ----------------------------------------------------------

type schedSummary struct {
	cases, childRuns, overlappedCases int
	nontrivial                        int
	blocks                            []string
	samples                           []interface{}
	classes                           map[string]int
}

func inconclusive(format string, a ...interface{}) {
	fmt.Fprintf(os.Stderr, "INCONCLUSIVE: "+format+"\n", a...)
	os.Exit(2)
}

// reqLabel names a request in a fingerprint. The request whose reply is wrong
// (the victim) is named by the axes on which it differs from a plain valid
// request plus its class under the reference; the other requests of the case
// only by target and Content-Type, so that one cause met with many bystanders
// collapses (the replay file has the literal requests).
func reqLabel(c *Case, class string, victim bool) string {
	if !victim {
		return c.PathName + "/" + c.CTName
	}
	parts := []string{c.PathName}
	if c.Method != "POST" {
		parts = append(parts, "method="+c.Method)
	}
	base := "stream"
	if c.PathName == "U" {
		base = "unary"
	}
	if c.CTName != base {
		parts = append(parts, "ct="+c.CTName)
	}
	if c.HdrName != "none" {
		parts = append(parts, "hdr="+c.HdrName)
	}
	return strings.Join(parts, ",") + ":" + class
}

func regFor(cfg *cfgVal) map[string]string {
	reg := map[string]string{}
	for _, k := range kinds {
		reg[cfg.Base+"/"+svcName+"/"+k] = k
	}
	return reg
}

// judgeSched judges every request of the case like an isolated request.
func judgeSched(c *SchedCase, out *schedOut) []*result {
	reg := regFor(cfgByName(c.Cfg))
	var rs []*result
	for i, r := range c.Reqs {
		rs = append(rs, judge(reg, r.request(), out.Obs[i].observation()))
	}
	return rs
}

// trueOverlap: some request was parked on its gate while a step of another
// request ran.
func trueOverlap(st []step, obs []wireObs) bool {
	for j, s := range st {
		if s.Op != 'S' || !obs[s.I].Parked {
			continue
		}
		if j+1 < len(st) && !(st[j+1].Op == 'F' && st[j+1].I == s.I) {
			return true
		}
	}
	return false
}

func schedFindingKey(cfg string, park int, st []step, labels []string, victim int, clause, obs string) string {
	return fmt.Sprintf("%s|park=%d|%s|%s|victim=%d|%s|%s", cfg, park, schedString(st), strings.Join(labels, ";"), victim, clause, obs)
}

func subsetsWith(k, victim int) [][]int {
	var out [][]int
	for mask := 1; mask < 1<<k; mask++ {
		if mask&(1<<victim) == 0 {
			continue
		}
		var s []int
		for i := 0; i < k; i++ {
			if mask&(1<<i) != 0 {
				s = append(s, i)
			}
		}
		out = append(out, s)
	}
	sort.SliceStable(out, func(a, b int) bool { return len(out[a]) < len(out[b]) })
	return out
}

func describeSched(c *SchedCase, rs []*result, obs []wireObs) string {
	var sb strings.Builder
	fmt.Fprintf(&sb, "cfg=%s word=[%s] park=%d", c.Cfg, c.Sched, c.Park)
	for i, r := range c.Reqs {
		fmt.Fprintf(&sb, "\n    request %d (%s, parked=%v): %s\n      -> %s", i, c.Names[i], obs[i].Parked, describe(r), rs[i].Obs.short())
	}
	return sb.String()
}

func runSched(rep *vlib.Reporter) schedSummary {
	thorough := rep.Tier == "thorough"
	plan, blocks := buildPlan(thorough)
	sum := schedSummary{cases: len(plan), blocks: blocks, classes: map[string]int{}}

	// 1. every case in its own process(es)
	outs := make([][]byte, len(plan))
	errs := make([]error, len(plan))
	nw := runtime.GOMAXPROCS(0)
	if nw > 8 {
		nw = 8
	}
	var next, runs int64 = -1, 0
	var wg sync.WaitGroup
	for w := 0; w < nw; w++ {
		wg.Add(1)
		go func() {
			defer wg.Done()
			for {
				j := int(atomic.AddInt64(&next, 1))
				if j >= len(plan) {
					return
				}
				c := plan[j]
				st, _ := parseSched(c.Sched, len(c.Reqs))
				outs[j], errs[j] = runChild(c)
				atomic.AddInt64(&runs, 1)
				if errs[j] == nil && !isSequential(st) {
					again, err := runChild(c)
					atomic.AddInt64(&runs, 1)
					if err != nil {
						errs[j] = err
					} else if !bytes.Equal(again, outs[j]) {
						errs[j] = fmt.Errorf("case %s is not deterministic: two runs in two fresh processes differ:\n  %s\n  %s", c.key(), outs[j], again)
					}
				}
			}
		}()
	}
	wg.Wait()
	sum.childRuns = int(runs)

	// 2. judge in plan order
	reported := map[string]bool{}
	nontrivial := map[string]bool{}
	sampled := map[string]bool{}
	for j, c := range plan {
		if errs[j] != nil {
			inconclusive("%v", errs[j])
		}
		var out schedOut
		if err := json.Unmarshal(outs[j], &out); err != nil || (out.Err == "" && len(out.Obs) != len(c.Reqs)) {
			inconclusive("case %s: unreadable child output %q", c.key(), outs[j])
		}
		if out.Err != "" {
			inconclusive("case %s: %s", c.key(), out.Err)
		}
		st, _ := parseSched(c.Sched, len(c.Reqs))
		rs := judgeSched(c, &out)
		k := len(c.Reqs)
		seq := isSequential(st)
		registered := true
		for i := range rs {
			if rs[i].Class == "unknown-path" {
				registered = false
			}
		}
		shape := fmt.Sprintf("k=%d,%s", k, map[bool]string{true: "sequence", false: "overlap"}[seq])
		if !seq {
			sum.overlappedCases++
			if trueOverlap(st, out.Obs) {
				nontrivial[c.key()] = true
				shape += ",parked"
			} else {
				shape += ",never-parked"
			}
		} else if k >= 2 && registered {
			nontrivial[c.key()] = true
		}
		sum.classes[shape]++
		if !sampled[shape] && c.Park == 1 && (k == 1 || c.Names[0] != c.Names[1]) && strings.Contains(c.Names[0], "json") {
			sampled[shape] = true
			sum.samples = append(sum.samples, map[string]interface{}{"class": "several requests on one server: " + shape, "observed": describeSched(c, rs, out.Obs)})
		}

		for v, r := range rs {
			labels := make([]string, k)
			for i := range rs {
				labels[i] = reqLabel(c.Reqs[i], rs[i].Class, i == v)
			}
			for fi := range r.Findings {
				f := &r.Findings[fi]
				if k == 1 {
					// the request misbehaves on its own: same fingerprint as in the isolated sweep
					t := tupleOfCase(c.Reqs[0])
					reported[schedFindingKey(c.Cfg, c.Park, st, labels, 0, f.Clause, f.Obs)] = true
					rep.Violation(fingerprint(t, f), f.What+"   [request: "+describe(c.Reqs[0])+"; alone on a fresh server in a fresh process]", c)
					continue
				}
				// attributed to a simpler case already reported? (fewer requests with the word
				// projected onto them, the plain sequence of the same requests, the first
				// park point, the first configuration)
				explained := false
				for _, cfg := range []string{c.Cfg, cfgs[0].Name} {
					for _, park := range []int{c.Park, 1} {
						for _, keep := range subsetsWith(k, v) {
							var ls []string
							nv := 0
							for n, i := range keep {
								ls = append(ls, labels[i])
								if i == v {
									nv = n
								}
							}
							// the same requests in the same start order under the projected word, or one after the other
							for _, w := range [][]step{project(st, keep), schedules(len(keep))[0]} {
								if len(keep) == k && cfg == c.Cfg && park == c.Park && schedString(w) == c.Sched {
									continue
								}
								if reported[schedFindingKey(cfg, park, w, ls, nv, f.Clause, f.Obs)] {
									explained = true
								}
							}
						}
					}
				}
				key := schedFindingKey(c.Cfg, c.Park, st, labels, v, f.Clause, f.Obs)
				if explained || reported[key] {
					reported[key] = true
					continue
				}
				reported[key] = true
				parts := []string{prop, "sched", f.Clause, fmt.Sprintf("victim=%d", v), "reqs=" + strings.Join(labels, ";"), "word=" + c.Sched}
				if c.Park != 1 {
					parts = append(parts, fmt.Sprintf("park=%d", c.Park))
				}
				if c.Cfg != cfgs[0].Name {
					parts = append(parts, "cfg="+c.Cfg)
				}
				if f.Obs != "" {
					parts = append(parts, f.Obs)
				}
				what := fmt.Sprintf("request %d of %d served by one server under the word [%s] (S_i: start request i and let it run until its ResponseWriter call no. %d blocks; F_i: unblock it and let it finish): %s\n    %s",
					v, k, c.Sched, c.Park, f.What, describeSched(c, rs, out.Obs))
				rep.Violation(strings.Join(parts, "|"), what, c)
			}
		}
	}
	sum.nontrivial = len(nontrivial)
	return sum
}

func tupleOfCase(c *Case) tuple {
	t := tuple{}
	t[0] = indexByName(len(cfgs), func(i int) string { return cfgs[i].Name }, c.Cfg, "cfg")
	t[1] = indexByName(len(paths), func(i int) string { return paths[i].Name }, c.PathName, "path")
	t[2] = indexByName(len(methods), func(i int) string { return methods[i] }, c.Method, "method")
	t[3] = indexOfCT(c.CTName)
	t[4] = indexByName(len(hdrs), func(i int) string { return hdrs[i].Name }, c.HdrName, "header set")
	t[5] = indexOfBody(c.BodyName)
	if c.Delivery != "" {
		t[7] = indexOfDeliv(c.Delivery)
	}
	return t
}

func replaySched(p string, c *SchedCase) int {
	pinProcess()
	out := execSched(c)
	if out.Err != "" {
		fmt.Fprintln(os.Stderr, "INCONCLUSIVE:", out.Err)
		return 2
	}
	rs := judgeSched(c, out)
	fmt.Println("replay:", describeSched(c, rs, out.Obs))
	bad := false
	for i, r := range rs {
		for _, f := range r.Findings {
			bad = true
			fmt.Printf("   request %d: %s %s - %s\n", i, f.Clause, f.Obs, f.What)
		}
	}
	if bad {
		fmt.Printf("VIOLATION property=%s replay=%s\n", prop, p)
		return 1
	}
	return 0
}

// ---- calibration ------------------------------------------------------------------

// selfCheckSched makes sure that the words are what the text above says and
// that the gates produce the overlap they are meant to produce: a toy handler
// that answers from a buffer shared by all requests (not library code) must be
// seen answering correctly under the plain sequence and wrongly under both
// overlapped words, and only while the park point is a call the handler makes.
func selfCheckSched() error {
	for k, want := range map[int]int{1: 1, 2: 3, 3: 15} {
		ws := schedules(k)
		if len(ws) != want || !isSequential(ws[0]) {
			return fmt.Errorf("self-check: %d words for %d requests (want %d, plain sequence first)", len(ws), k, want)
		}
		seen := map[string]bool{}
		for i, w := range ws {
			s := schedString(w)
			back, err := parseSched(s, k)
			if err != nil || schedString(back) != s || seen[s] || (i > 0 && isSequential(w)) {
				return fmt.Errorf("self-check: word %q of %d requests: %v", s, k, err)
			}
			seen[s] = true
		}
	}
	w3, _ := parseSched("S0 S1 F1 S2 F0 F2", 3)
	if got := schedString(project(w3, []int{0, 2})); got != "S0 S1 F0 F1" {
		return fmt.Errorf("self-check: projection gives %q", got)
	}
	var shared []byte
	toy := http.HandlerFunc(func(w http.ResponseWriter, r *http.Request) {
		b, _ := io.ReadAll(r.Body)
		shared = append(shared[:0], b...)
		w.Write(shared)
	})
	reqs := []*request{{Method: "POST", Path: "/", Body: []byte("aaaa")}, {Method: "POST", Path: "/", Body: []byte("bbbb")}}
	for _, tc := range []struct {
		word   string
		park   int
		first  string
		parked bool
	}{
		{"S0 F0 S1 F1", 1, "aaaa", true},
		{"S0 S1 F1 F0", 1, "bbbb", true},
		{"S0 S1 F0 F1", 1, "bbbb", true},
		{"S0 S1 F1 F0", 2, "aaaa", false},
	} {
		st, _ := parseSched(tc.word, 2)
		obs, err := execSteps(toy, reqs, st, tc.park)
		if err != nil {
			return fmt.Errorf("self-check: toy handler under %q: %v", tc.word, err)
		}
		if string(obs[0].Body) != tc.first || string(obs[1].Body) != "bbbb" || obs[0].Parked != tc.parked || obs[0].Calls != 1 {
			return fmt.Errorf("self-check: toy handler with a shared buffer under %q park=%d answered %q/%q parked=%v (want %q/\"bbbb\" parked=%v)",
				tc.word, tc.park, obs[0].Body, obs[1].Body, obs[0].Parked, tc.first, tc.parked)
		}
		if got := trueOverlap(st, obs); got != (tc.parked && !isSequential(st)) {
			return fmt.Errorf("self-check: overlap of %q park=%d measured as %v", tc.word, tc.park, got)
		}
	}
	return nil
}
