package main

// Two further dimensions of the request grammar, both expressed as header sets
// (so that they are crossed with every other axis by the ordinary sweeps):
//
//  1. HANDLER OUTCOMES. The property quantifies over what reaches the handler,
//     and promises a well-formed reply whatever the handler then does. The
//     handlers of run.go fail only with errors made by status.Err(). A request
//     header X-Outcome (plain metadata as far as the library is concerned) makes
//     the handler of any kind finish with an error value of another shape:
//
//     at{start: before reading the request, end: where it would have returned nil}
//     x type{status.Err(), a value with its own GRPCStatus() method, the same
//     wrapped with %w, one whose GRPCStatus() is nil, errors.New,
//     context.DeadlineExceeded, a wrapped context.Canceled}
//     x code{OK, NotFound} x message{empty, "boom"} x details{0, 1}
//     x trailer metadata set by the handler{no, yes}
//
//     (code/message/details only for the three types that carry a status).
//
//  2. SEVERAL -bin VALUES. Every sequence of length 1..3 over {valid,
//     not base64} under one -bin key; two -bin keys with every sequence of
//     length 1..2 each; three -bin keys with one value each.
//
// Go's map iteration order is randomised and http.Header is a map, so what a
// server does with several keys may depend on it. A request with more than one
// distinct -bin key is therefore served orderRepeats times (fixed), the
// header map being filled in another order of its keys each time (all
// permutations in turn); the first run that is judged wrong is the one
// reported. Sequences under one key keep their order in the map's value slice,
// so those verdicts do not depend on anything random.

import (
	"context"
	"errors"
	"fmt"
	"strconv"
	"strings"

	spb "google.golang.org/genproto/googleapis/rpc/status"
	"google.golang.org/grpc/metadata"
	"google.golang.org/grpc/status"
	"google.golang.org/protobuf/types/known/anypb"
	"google.golang.org/protobuf/types/known/wrapperspb"
)

const outcomeHeader = "X-Outcome"

type outcomeSpec struct {
	At      string // "start" | "end"
	Type    string
	Code    int32
	Msg     string
	Details int
	TrMD    bool
}

var (
	outcomeTypesWithStatus = []string{"status", "own", "wrapped-own"}
	outcomeTypesBare       = []string{"nil-own", "plain", "deadline", "wrapped-canceled"}
	outcomeDetails         = []*anypb.Any{mustAny(wrapperspb.String("d1"))}
	outcomeTrailer         = metadata.Pairs("x-out", "t")
)

func b2i(b bool) int {
	if b {
		return 1
	}
	return 0
}

func (s *outcomeSpec) String() string {
	return fmt.Sprintf("%s/%s/%d/%s/%d/%d", s.At, s.Type, s.Code, s.Msg, s.Details, b2i(s.TrMD))
}

func parseOutcome(v string) *outcomeSpec {
	p := strings.Split(v, "/")
	if len(p) != 6 {
		return nil
	}
	code, err1 := strconv.Atoi(p[2])
	det, err2 := strconv.Atoi(p[4])
	if err1 != nil || err2 != nil || det < 0 || det > len(outcomeDetails) || (p[0] != "start" && p[0] != "end") || (p[5] != "0" && p[5] != "1") {
		return nil
	}
	known := false
	for _, t := range append(append([]string(nil), outcomeTypesWithStatus...), outcomeTypesBare...) {
		known = known || t == p[1]
	}
	if !known {
		return nil
	}
	return &outcomeSpec{At: p[0], Type: p[1], Code: int32(code), Msg: p[3], Details: det, TrMD: p[5] == "1"}
}

// specOfHeaders finds the outcome directive among the literal request headers
// (the oracle's view); the handlers find it in their incoming metadata.
func specOfHeaders(h []hv) *outcomeSpec {
	for _, kv := range h {
		if strings.EqualFold(kv.K, outcomeHeader) {
			return parseOutcome(kv.V)
		}
	}
	return nil
}

func specOfContext(ctx context.Context) *outcomeSpec {
	md, _ := metadata.FromIncomingContext(ctx)
	if v := md.Get(outcomeHeader); len(v) > 0 {
		return parseOutcome(v[0])
	}
	return nil
}

// ownStatusErr is an error value with a gRPC status of its own (a home-grown
// error type, a translated downstream status).
type ownStatusErr struct{ st *status.Status }

func (e ownStatusErr) Error() string              { return "own status error" }
func (e ownStatusErr) GRPCStatus() *status.Status { return e.st }

// err is what the handler returns.
func (s *outcomeSpec) err() error {
	st := status.FromProto(&spb.Status{Code: s.Code, Message: s.Msg, Details: outcomeDetails[:s.Details]})
	switch s.Type {
	case "status":
		return st.Err()
	case "own":
		return ownStatusErr{st}
	case "wrapped-own":
		return fmt.Errorf("handler: %w", ownStatusErr{st})
	case "nil-own":
		return ownStatusErr{nil}
	case "plain":
		return errors.New(s.Msg)
	case "deadline":
		return context.DeadlineExceeded
	case "wrapped-canceled":
		return fmt.Errorf("op: %w", context.Canceled)
	}
	panic("outcome type " + s.Type)
}

// nil-safe accessors for the handlers
func (s *outcomeSpec) startErr() error {
	if s != nil && s.At == "start" {
		return s.err()
	}
	return nil
}

func (s *outcomeSpec) endErr() error {
	if s != nil && s.At == "end" {
		return s.err()
	}
	return nil
}

func (s *outcomeSpec) setsTrailer() bool { return s != nil && s.TrMD }

// ---- the oracle's reading of a directive (written out, not derived from err()) --

// failed: does the handler return a non-nil error when it gets to the directive.
// Only status.Err() of a status with code OK is nil.
func (s *outcomeSpec) failed() bool { return !(s.Type == "status" && s.Code == 0) }

// expectation: what the reply must say when the handler failed this way.
// code 0 = any non-OK code (the error carries no usable status: the statement
// only demands "not OK"); exact = message and details are the status's own.
func (s *outcomeSpec) expectation() (code int32, exact bool) {
	switch s.Type {
	case "status", "own":
		return s.Code, s.Code != 0
	case "wrapped-own":
		return s.Code, false // the message of a wrapped status is the wrapper's business
	}
	return 0, false
}

func (s *outcomeSpec) details() []*anypb.Any { return outcomeDetails[:s.Details] }

// ---- generated header sets ---------------------------------------------------------

const (
	binValid   = "aGk="
	binInvalid = "!!!notbase64"
)

var binKeys = []string{"X-A-Bin", "X-B-Bin", "X-C-Bin"}

func outcomeHdr(s outcomeSpec) hdrVal {
	h := hdrVal{Name: "outcome:" + s.String(), H: []hv{{outcomeHeader, s.String()}}, Ext: true}
	// simpler directives to try when minimizing, one parameter at a time
	alt := func(f func(*outcomeSpec)) {
		c := s
		f(&c)
		if c != s {
			h.Simpler = append(h.Simpler, "outcome:"+c.String())
		}
	}
	alt(func(c *outcomeSpec) { c.At = "end" })
	alt(func(c *outcomeSpec) { c.TrMD = false })
	alt(func(c *outcomeSpec) { c.Details = 0 })
	alt(func(c *outcomeSpec) {
		if c.Type == "wrapped-own" {
			c.Type = "own"
		}
	})
	alt(func(c *outcomeSpec) {
		if c.Type != "nil-own" && c.Type != "deadline" && c.Type != "wrapped-canceled" {
			c.Msg = "boom"
		}
	})
	return h
}

func outcomeHdrs() []hdrVal {
	var out []hdrVal
	for _, at := range []string{"end", "start"} {
		for _, tr := range []bool{false, true} {
			for _, t := range outcomeTypesWithStatus {
				for _, code := range []int32{0, 5} {
					for _, msg := range []string{"boom", ""} {
						for det := 0; det <= 1; det++ {
							out = append(out, outcomeHdr(outcomeSpec{At: at, Type: t, Code: code, Msg: msg, Details: det, TrMD: tr}))
						}
					}
				}
			}
			out = append(out, outcomeHdr(outcomeSpec{At: at, Type: "nil-own", TrMD: tr}))
			out = append(out, outcomeHdr(outcomeSpec{At: at, Type: "plain", Msg: "boom", TrMD: tr}))
			out = append(out, outcomeHdr(outcomeSpec{At: at, Type: "plain", Msg: "", TrMD: tr}))
			out = append(out, outcomeHdr(outcomeSpec{At: at, Type: "deadline", TrMD: tr}))
			out = append(out, outcomeHdr(outcomeSpec{At: at, Type: "wrapped-canceled", TrMD: tr}))
		}
	}
	return out
}

// binSet: per key a word over {v, i}
func binName(seqs []string) string {
	var parts []string
	for i, s := range seqs {
		parts = append(parts, fmt.Sprintf("%c=%s", 'A'+i, s))
	}
	return "bin:" + strings.Join(parts, ",")
}

func binHdr(seqs []string) hdrVal {
	h := hdrVal{Name: binName(seqs), Ext: true}
	for i, s := range seqs {
		for _, c := range s {
			v := binValid
			if c == 'i' {
				v = binInvalid
			}
			h.H = append(h.H, hv{binKeys[i], v})
		}
	}
	// simpler sets: one value removed (a key without values disappears, the others move up)
	seen := map[string]bool{}
	for i, s := range seqs {
		for j := range s {
			var rest []string
			for k, x := range seqs {
				if k == i {
					x = x[:j] + x[j+1:]
				}
				if x != "" {
					rest = append(rest, x)
				}
			}
			if len(rest) > 0 && !seen[binName(rest)] {
				seen[binName(rest)] = true
				h.Simpler = append(h.Simpler, binName(rest))
			}
		}
	}
	return h
}

func words(min, max int) []string {
	var out []string
	cur := []string{""}
	for n := 1; n <= max; n++ {
		var next []string
		for _, w := range cur {
			next = append(next, w+"v", w+"i")
		}
		cur = next
		if n >= min {
			out = append(out, cur...)
		}
	}
	return out
}

func binHdrs() []hdrVal {
	var out []hdrVal
	for _, w := range words(1, 3) {
		out = append(out, binHdr([]string{w}))
	}
	for _, a := range words(1, 2) {
		for _, b := range words(1, 2) {
			out = append(out, binHdr([]string{a, b}))
		}
	}
	for _, a := range words(1, 1) {
		for _, b := range words(1, 1) {
			for _, c := range words(1, 1) {
				out = append(out, binHdr([]string{a, b, c}))
			}
		}
	}
	return out
}

// ---- header-map order -------------------------------------------------------------

// orderRepeats: how often a request with several distinct -bin keys is served.
// 24 = 4!: with up to 4 distinct header keys every insertion order of the keys
// is used equally often.
const orderRepeats = 24

// distinctKeys lists the header keys of h in first-occurrence order
// (case-insensitively distinct).
func distinctKeys(h []hv) []string {
	var out []string
	seen := map[string]bool{}
	for _, kv := range h {
		k := strings.ToLower(kv.K)
		if !seen[k] {
			seen[k] = true
			out = append(out, k)
		}
	}
	return out
}

// orderDependent: more than one distinct -bin key.
func orderDependent(h []hv) bool {
	n := 0
	for _, k := range distinctKeys(h) {
		if strings.HasSuffix(k, "-bin") {
			n++
		}
	}
	return n > 1
}

// nthPermutation returns the n-th (mod k!) permutation of 0..k-1 in
// lexicographic order.
func nthPermutation(k, n int) []int {
	fact := 1
	for i := 2; i <= k; i++ {
		fact *= i
	}
	n %= fact
	avail := make([]int, k)
	for i := range avail {
		avail[i] = i
	}
	var out []int
	for i := k; i >= 1; i-- {
		fact /= i
		j := n / fact
		n %= fact
		out = append(out, avail[j])
		avail = append(avail[:j], avail[j+1:]...)
	}
	return out
}

// orderedHeaders returns the headers with their keys in the ord-th order (the
// values of one key keep their relative order).
func orderedHeaders(h []hv, ord int) []hv {
	keys := distinctKeys(h)
	if ord == 0 || len(keys) < 2 {
		return h
	}
	var out []hv
	for _, ki := range nthPermutation(len(keys), ord) {
		for _, kv := range h {
			if strings.ToLower(kv.K) == keys[ki] {
				out = append(out, kv)
			}
		}
	}
	return out
}
