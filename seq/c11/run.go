package main

import (
	"bytes"
	"context"
	"encoding/hex"
	"fmt"
	"io"
	"net/http"
	"net/http/httptest"
	"net/url"
	"runtime/debug"
	"strings"

	"github.com/fullstorydev/grpchan"
	gt "github.com/fullstorydev/grpchan/grpchantesting"
	"github.com/fullstorydev/grpchan/httpgrpc"
	spb "google.golang.org/genproto/googleapis/rpc/status"
	"google.golang.org/grpc"
	"google.golang.org/grpc/metadata"
	"google.golang.org/grpc/status"

	"verif/seq/common"
)

// counters of application code run during one request
type counters struct {
	handler, unaryInt, streamInt int
}

func (c *counters) ran() bool { return c.handler+c.unaryInt+c.streamInt > 0 }

// cntKey carries the counters of one request in its context, so that
// application code run for overlapping requests on one server is attributed to
// the request it ran for (the library derives the handler's context from the
// request's). Requests without it (the isolated sweep) use the env's counters.
type cntKey struct{}

func cntFor(ctx context.Context, fallback *counters) *counters {
	if c, ok := ctx.Value(cntKey{}).(*counters); ok {
		return c
	}
	return fallback
}

type env struct {
	cfg  *cfgVal
	h    http.Handler
	hDec http.Handler // HandleServices configurations: the same services registered through a decorating Mux (writer.go)
	cnt  *counters
	reg  map[string]string // full path -> kind

	// the last request served on the plain recorder for a comparison (writer.go)
	baseRq  *request
	baseObs *observation
}

func statusFrom(m *gt.Message) error {
	return status.FromProto(&spb.Status{Code: m.Code, Message: "fail", Details: m.ErrorDetails}).Err()
}

// streamStatusMsg is the status message of the streaming handlers: like many
// real handlers they quote the offending request bytes in it.
func streamStatusMsg(m *gt.Message) string {
	if len(m.Payload) == 0 {
		return "fail"
	}
	return "fail: " + string(m.Payload)
}

func streamStatusFrom(m *gt.Message) error {
	return status.FromProto(&spb.Status{Code: m.Code, Message: streamStatusMsg(m), Details: m.ErrorDetails}).Err()
}

func mdFromMap(m map[string][]byte) metadata.MD {
	md := metadata.MD{}
	for k, v := range m {
		k = strings.ToLower(k)
		md[k] = append(md[k], string(v))
	}
	return md
}

// echoed returns the x-echo* request metadata (what a well-behaved handler may
// legitimately copy into its response headers and trailers).
func echoed(ctx context.Context) metadata.MD {
	in, _ := metadata.FromIncomingContext(ctx)
	out := metadata.MD{}
	for _, k := range []string{"x-echo", "x-echo-bin"} {
		if v := in.Get(k); len(v) > 0 {
			out[k] = append([]string(nil), v...)
		}
	}
	return out
}

// DelayMillis values that make the unary handler return no response and no error.
const (
	noRespTyped = -1
	noRespBare  = -2
)

// The application: one method of each kind. All of them are well-behaved: they
// propagate decode/receive errors, send no message after an error, and return.
func newSvc(c *counters) *common.Svc {
	return &common.Svc{
		Name:  svcName,
		Order: []string{"U", "CS", "SS", "BD"},
		Unary: map[string]common.UnaryFn{"U": func(ctx context.Context, dec func(interface{}) error) (interface{}, error) {
			cntFor(ctx, c).handler++
			oc := specOfContext(ctx) // outcome directive (outcome.go), nil for most requests
			if oc.setsTrailer() {
				grpc.SetTrailer(ctx, outcomeTrailer)
			}
			if err := oc.startErr(); err != nil { // fails without looking at the request
				return nil, err
			}
			in := new(gt.Message)
			if err := dec(in); err != nil {
				return nil, err
			}
			grpc.SetHeader(ctx, metadata.Join(echoed(ctx), mdFromMap(in.Headers)))
			grpc.SetTrailer(ctx, metadata.Join(echoed(ctx), mdFromMap(in.Trailers)))
			if in.Code != 0 {
				return nil, statusFrom(in)
			}
			if err := oc.endErr(); err != nil { // fails where it would have answered
				return nil, err
			}
			// a handler that produces neither a response nor an error (what a generated
			// handler hands on when the application returns (nil, nil)), resp. a bare nil
			switch in.DelayMillis {
			case noRespTyped:
				return (*gt.Message)(nil), nil
			case noRespBare:
				return nil, nil
			}
			return &gt.Message{Payload: in.Payload, Count: in.Count + 1}, nil
		}},
		Streams: map[string]common.StreamDef{
			"CS": {ClientStreams: true, Fn: func(s grpc.ServerStream) error {
				cntFor(s.Context(), c).handler++
				s.SetHeader(echoed(s.Context()))
				s.SetTrailer(echoed(s.Context()))
				oc := specOfContext(s.Context())
				if oc.setsTrailer() {
					s.SetTrailer(outcomeTrailer)
				}
				if err := oc.startErr(); err != nil { // fails without reading the request
					return err
				}
				var n int32
				var payload []byte
				for {
					m := new(gt.Message)
					err := s.RecvMsg(m)
					if err == io.EOF {
						break
					}
					if err != nil {
						return err
					}
					if m.Code != 0 {
						if m.Count > 0 { // answer with what was received so far, then fail
							if err := s.SendMsg(&gt.Message{Count: n, Payload: payload}); err != nil {
								return err
							}
						}
						return streamStatusFrom(m)
					}
					n++
					payload = append(payload, m.Payload...)
				}
				if err := s.SendMsg(&gt.Message{Count: n, Payload: payload}); err != nil {
					return err
				}
				return oc.endErr()
			}},
			"SS": {ServerStreams: true, Fn: func(s grpc.ServerStream) error {
				cntFor(s.Context(), c).handler++
				s.SetHeader(echoed(s.Context()))
				s.SetTrailer(echoed(s.Context()))
				oc := specOfContext(s.Context())
				if oc.setsTrailer() {
					s.SetTrailer(outcomeTrailer)
				}
				if err := oc.startErr(); err != nil { // fails without reading the request
					return err
				}
				m := new(gt.Message)
				if err := s.RecvMsg(m); err != nil {
					return err
				}
				for i := int32(0); i < m.Count && i < 8; i++ {
					if err := s.SendMsg(&gt.Message{Payload: m.Payload, Count: i}); err != nil {
						return err
					}
				}
				if m.Code != 0 { // fails after the data it was asked for (none when Count is 0)
					return streamStatusFrom(m)
				}
				return oc.endErr()
			}},
			"BD": {ClientStreams: true, ServerStreams: true, Fn: func(s grpc.ServerStream) error {
				cntFor(s.Context(), c).handler++
				s.SetHeader(echoed(s.Context()))
				s.SetTrailer(echoed(s.Context()))
				oc := specOfContext(s.Context())
				if oc.setsTrailer() {
					s.SetTrailer(outcomeTrailer)
				}
				if err := oc.startErr(); err != nil { // fails without reading the request
					return err
				}
				var all []*gt.Message
				for {
					m := new(gt.Message)
					err := s.RecvMsg(m)
					if err == io.EOF {
						break
					}
					if err != nil {
						return err
					}
					if m.Code != 0 {
						if m.Count > 0 { // echo everything received, including this message, then fail
							for _, x := range append(all, m) {
								if err := s.SendMsg(&gt.Message{Payload: x.Payload, Count: x.Count + 1}); err != nil {
									return err
								}
							}
						}
						return streamStatusFrom(m)
					}
					all = append(all, m)
				}
				for _, m := range all {
					if err := s.SendMsg(&gt.Message{Payload: m.Payload, Count: m.Count + 1}); err != nil {
						return err
					}
				}
				return oc.endErr()
			}},
		},
	}
}

func newEnv(cfg *cfgVal) *env {
	e := &env{cfg: cfg, cnt: &counters{}, reg: map[string]string{}}
	svc := newSvc(e.cnt)
	var ui grpc.UnaryServerInterceptor
	var si grpc.StreamServerInterceptor
	if cfg.Intercept {
		ui = func(ctx context.Context, req interface{}, info *grpc.UnaryServerInfo, handler grpc.UnaryHandler) (interface{}, error) {
			cntFor(ctx, e.cnt).unaryInt++
			return handler(ctx, req)
		}
		si = func(srv interface{}, ss grpc.ServerStream, info *grpc.StreamServerInfo, handler grpc.StreamHandler) error {
			cntFor(ss.Context(), e.cnt).streamInt++
			return handler(srv, ss)
		}
	}
	base := cfg.Base
	if cfg.Mux {
		reg := grpchan.HandlerMap{}
		reg.RegisterService(svc.Desc(), common.Impl{})
		mux := http.NewServeMux()
		bp := base
		if bp == "" {
			bp = "/"
		}
		httpgrpc.HandleServices(mux.HandleFunc, bp, reg, ui, si)
		e.h = mux
		// the same registry behind a Mux function that decorates every handler
		dec := http.NewServeMux()
		httpgrpc.HandleServices(decoratingMux(dec), bp, reg, ui, si)
		e.hDec = dec
	} else {
		var opts []httpgrpc.ServerOption
		if base != "" {
			opts = append(opts, httpgrpc.WithBasePath(base))
		}
		if ui != nil {
			opts = append(opts, httpgrpc.WithServerUnaryInterceptor(ui), httpgrpc.WithServerStreamInterceptor(si))
		}
		srv := httpgrpc.NewServer(opts...)
		srv.RegisterService(svc.Desc(), common.Impl{})
		e.h = srv
	}
	for _, k := range kinds {
		e.reg[base+"/"+svcName+"/"+k] = k
	}
	return e
}

type observation struct {
	Panic  string
	Status int
	Header http.Header
	Body   []byte
	Cnt    counters
	Probe  probe // what went through the ResponseWriter wrapper, if the request had one (writer.go)
	rec    *httptest.ResponseRecorder
}

// wireHeader: the headers as they were when the status line was written (what
// goes to the wire), as opposed to Header, the recorder's live map.
func (o *observation) wireHeader() http.Header {
	if o.rec == nil {
		return o.Header
	}
	return o.rec.Result().Header
}

func (o *observation) short() string {
	if o.Panic != "" {
		return "panic: " + o.Panic
	}
	b := o.Body
	suffix := ""
	if len(b) > 48 {
		b, suffix = b[:48], "..."
	}
	return fmt.Sprintf("http=%d handler=%d interceptors=%d x-grpc-status=%q allow=%q content-type=%q body[%d]=%s%s",
		o.Status, o.Cnt.handler, o.Cnt.unaryInt+o.Cnt.streamInt, o.Header.Get("X-GRPC-Status"), o.Header.Get("Allow"), o.Header.Get("Content-Type"), len(o.Body), hex.EncodeToString(b), suffix)
}

type request struct {
	Method    string
	Path      string
	CT        string
	CTPresent bool
	Hdr       []hv
	Body      []byte
	W         *writerVal // the ResponseWriter the server is handed; nil = the plain recorder
	D         *delivVal  // how the body is announced and handed out (delivery.go); nil = Content-Length, all at once
}

// httpRequest builds the literal *http.Request.
func (rq *request) httpRequest(ctx context.Context) *http.Request {
	return rq.httpRequestOrd(ctx, 0)
}

// httpRequestOrd: the same request with the header map filled in the ord-th
// order of its keys (outcome.go, "header-map order").
func (rq *request) httpRequestOrd(ctx context.Context, ord int) *http.Request {
	r := &http.Request{
		Method: rq.Method, URL: &url.URL{Path: rq.Path}, Proto: "HTTP/1.1", ProtoMajor: 1, ProtoMinor: 1,
		Header: http.Header{}, Body: io.NopCloser(bytes.NewReader(rq.Body)), ContentLength: int64(len(rq.Body)),
		Host: "example.test", RemoteAddr: "192.0.2.1:1234", RequestURI: rq.Path,
	}
	if rq.D != nil {
		rq.D.apply(r, rq.Body)
	}
	r = r.WithContext(ctx)
	if rq.CTPresent {
		r.Header["Content-Type"] = []string{rq.CT}
	}
	for _, kv := range orderedHeaders(rq.Hdr, ord) {
		r.Header.Add(kv.K, kv.V)
	}
	return r
}

// panicText describes a recovered panic with the first library frame.
func panicText(p interface{}) string {
	s := fmt.Sprint(p)
	for _, l := range strings.Split(string(debug.Stack()), "\n") {
		if strings.Contains(l, "grpchan/") && strings.Contains(l, ".go:") {
			s += " at " + strings.TrimSpace(l)
			break
		}
	}
	return s
}

// do runs one request through the real handler tree on a recorder (behind the
// wrapper rq.W asks for).
func (e *env) do(rq *request) (o *observation) { return e.doOrd(rq, 0) }

func (e *env) doOrd(rq *request, ord int) (o *observation) {
	*e.cnt = counters{}
	r := rq.httpRequestOrd(context.Background(), ord)
	o = &observation{}
	pr := &probe{}
	defer func() {
		if p := recover(); p != nil {
			o.Panic = panicText(p)
			o.Cnt = *e.cnt
			o.Probe = *pr
		}
	}()
	rec := e.serve(rq.W, r, pr)
	o.Probe = *pr
	o.rec = rec
	o.Status = rec.Code
	o.Header = rec.Header()
	o.Body = rec.Body.Bytes()
	o.Cnt = *e.cnt
	return o
}

func (c *Case) request() *request {
	b, _ := hex.DecodeString(c.BodyHex)
	rq := &request{Method: c.Method, Path: c.Path, CT: c.CT, CTPresent: c.CTPresent, Hdr: c.Hdr, Body: b}
	if c.Writer != "" && c.Writer != writers[0].Name {
		rq.W = writerByName(c.Writer)
	}
	if c.Delivery != "" && c.Delivery != delivs[0].Name {
		rq.D = delivByName(c.Delivery)
	}
	return rq
}
