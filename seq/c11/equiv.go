package main

import (
	"encoding/hex"
	"fmt"
	"net/http"
	"sort"
	"strings"

	gt "github.com/fullstorydev/grpchan/grpchantesting"
	"google.golang.org/protobuf/encoding/protojson"
	"google.golang.org/protobuf/proto"

	"verif/vlib"
)

// A JSON-encoded unary request must be handled identically to its protobuf
// encoding: same status (code, message, details), same response message, same
// response metadata, once each reply is decoded with the codec of its request.

type EquivCase struct {
	Kind      string `json:"kind"` // "equiv"
	Cfg       string `json:"cfg"`
	MsgName   string `json:"msg_name"`
	PBHex     string `json:"pb_hex"`
	Rendering string `json:"rendering"`
	JSON      string `json:"json"`
	JSONCT    string `json:"json_ct"`
	CTName    string `json:"ct_name"`
	HdrName   string `json:"hdr_name"`
	Hdr       []hv   `json:"hdr"`
	Delivery  string `json:"delivery,omitempty"` // how both bodies are announced and handed out (delivery.go); empty = the plain one
}

var (
	eqCTs        = []string{"json", "json+charset", "json-upper"}
	eqHdrs       = []string{"none", "valid", "bin-nonutf8"}
	eqRenderings = []string{"canonical", "proto-names-multiline"}
)

func renderJSON(name string, m *gt.Message) string {
	var b []byte
	var err error
	if name == "canonical" {
		b, err = protojson.Marshal(m)
	} else {
		b, err = protojson.MarshalOptions{UseProtoNames: true, Multiline: true, EmitUnpopulated: true}.Marshal(m)
	}
	if err != nil {
		panic(err)
	}
	return string(b)
}

type eqTuple [6]int // cfg, msg, rendering, ct, hdr, delivery

func (t eqTuple) toCase() *EquivCase {
	m := eqMsgs[t[1]]
	ct := cts[indexOfCT(eqCTs[t[3]])]
	var h hdrVal
	for _, x := range hdrs {
		if x.Name == eqHdrs[t[4]] {
			h = x
		}
	}
	c := &EquivCase{Kind: "equiv", Cfg: cfgs[t[0]].Name, MsgName: m.Name, PBHex: hex.EncodeToString(mustPB(m.M)),
		Rendering: eqRenderings[t[2]], JSON: renderJSON(eqRenderings[t[2]], m.M), JSONCT: ct.V, CTName: ct.Name, HdrName: h.Name, Hdr: h.H}
	if t[5] != 0 {
		c.Delivery = delivs[t[5]].Name
	}
	return c
}

type unaryOutcome struct {
	st   unaryReply
	resp *gt.Message
	err  string
	md   map[string][]string
}

func outcomeOf(o *observation, codec string) unaryOutcome {
	out := unaryOutcome{st: readUnaryStatus(o, codec), md: map[string][]string{}}
	for k, v := range o.Header {
		switch http.CanonicalHeaderKey(k) {
		case "Content-Type", "Content-Length", "X-Grpc-Status", "X-Grpc-Details", "X-Content-Type-Options":
			continue
		}
		out.md[k] = v
	}
	if out.st.Code == 0 {
		out.resp = new(gt.Message)
		var err error
		if codec == ctJSON {
			err = protojson.Unmarshal(o.Body, out.resp)
		} else {
			err = proto.Unmarshal(o.Body, out.resp)
		}
		if err != nil {
			out.err = err.Error()
		}
	}
	return out
}

func mdString(m map[string][]string) string {
	var ks []string
	for k := range m {
		ks = append(ks, k)
	}
	sort.Strings(ks)
	var sb strings.Builder
	for _, k := range ks {
		fmt.Fprintf(&sb, "%s=%q;", k, m[k])
	}
	return sb.String()
}

// checkEquiv returns the findings of one pair and a description of what was seen.
func checkEquiv(w *worker, c *EquivCase) ([]finding, string) {
	cfg := cfgByName(c.Cfg)
	var e *env
	for _, x := range w.envs {
		if x.cfg == cfg {
			e = x
		}
	}
	if e == nil {
		return []finding{{Clause: "bad-replay", What: "unknown cfg " + c.Cfg}}, ""
	}
	var dv *delivVal
	if c.Delivery != "" && c.Delivery != delivs[0].Name {
		if dv = delivByName(c.Delivery); dv == nil {
			return []finding{{Clause: "bad-replay", What: "unknown delivery " + c.Delivery}}, ""
		}
	}
	pb, _ := hex.DecodeString(c.PBHex)
	path := cfg.Base + "/" + svcName + "/U"
	op := e.do(&request{Method: "POST", Path: path, CT: ctUnary, CTPresent: true, Hdr: c.Hdr, Body: pb, D: dv})
	oj := e.do(&request{Method: "POST", Path: path, CT: c.JSONCT, CTPresent: true, Hdr: c.Hdr, Body: []byte(c.JSON), D: dv})
	dn := ""
	if dv != nil {
		dn = " body-delivery=" + dv.Name
	}
	desc := fmt.Sprintf("msg=%s cfg=%s hdr=%s"+dn+" json-ct=%q json=%s\n    protobuf: %s\n    json:     %s", c.MsgName, c.Cfg, c.HdrName, c.JSONCT, strings.Join(strings.Fields(c.JSON), " "), op.short(), oj.short())
	var fs []finding
	add := func(clause, obs, what string) { fs = append(fs, finding{clause, obs, what + ": " + desc}) }
	if op.Panic != "" || oj.Panic != "" {
		add("panic", "", "the server panicked: "+op.Panic+oj.Panic)
		return fs, desc
	}
	if oj.Status == 415 && !oj.Cnt.ran() && c.JSONCT != ctJSON {
		return nil, "json content type spelling refused (allowed): " + desc
	}
	if op.Cnt.handler != 1 || oj.Cnt.handler != 1 {
		add("json-equiv-dispatch", fmt.Sprintf("pb=%d,json=%d", op.Cnt.handler, oj.Cnt.handler), "handler did not run exactly once for both encodings")
		return fs, desc
	}
	a, b := outcomeOf(op, ctUnary), outcomeOf(oj, ctJSON)
	if strings.HasPrefix(c.MsgName, "no-response") && (a.st.Code == 0 || b.st.Code == 0) {
		add("no-response-reported-as-success", fmt.Sprintf("pb=%d/%d,json=%d/%d", a.st.Code, a.st.HTTP, b.st.Code, b.st.HTTP), "the handler returned neither a response nor an error, yet the reply is a success carrying a message")
		return fs, desc
	}
	switch {
	case a.st.Code != b.st.Code || a.st.HTTP != b.st.HTTP:
		add("json-equiv-status", fmt.Sprintf("pb=%d/%d,json=%d/%d", a.st.Code, a.st.HTTP, b.st.Code, b.st.HTTP), "status differs between the protobuf and the JSON encoding of the same request")
	case a.st.Msg != b.st.Msg:
		add("json-equiv-message", "", fmt.Sprintf("status message differs (%q vs %q)", a.st.Msg, b.st.Msg))
	case !anysEqual(a.st.Details, b.st.Details):
		add("json-equiv-details", fmt.Sprintf("pb=%d(%s),json=%d(%s)", len(a.st.Details), a.st.DetailsEnc, len(b.st.Details), b.st.DetailsEnc), "error details differ (or cannot be decoded for the JSON request)")
	case a.err != "" || b.err != "":
		add("json-equiv-body-malformed", "", fmt.Sprintf("response body does not decode (pb: %q, json: %q)", a.err, b.err))
	case (a.resp == nil) != (b.resp == nil) || (a.resp != nil && !proto.Equal(a.resp, b.resp)):
		add("json-equiv-response", "", fmt.Sprintf("decoded response differs (%v vs %v)", a.resp, b.resp))
	case mdString(a.md) != mdString(b.md):
		add("json-equiv-metadata", "", fmt.Sprintf("response headers/trailers differ (%s vs %s)", mdString(a.md), mdString(b.md)))
	}
	if len(fs) == 0 && b.st.DetailsEnc == "codec" {
		desc = "NOTE details-in-request-codec; " + desc
	}
	return fs, desc
}

type equivSummary struct {
	evals      int
	nontrivial int
	samples    []interface{}
	notes      map[string]int
}

func eqFingerprint(t eqTuple, f *finding) string {
	parts := []string{prop, f.Clause, "msg=" + eqMsgs[t[1]].Name}
	if t[0] != 0 {
		parts = append(parts, "cfg="+cfgs[t[0]].Name)
	}
	if t[2] != 0 {
		parts = append(parts, "json="+eqRenderings[t[2]])
	}
	if t[3] != 0 {
		parts = append(parts, "ct="+eqCTs[t[3]])
	}
	if t[4] != 0 {
		parts = append(parts, "hdr="+eqHdrs[t[4]])
	}
	if t[5] != 0 {
		parts = append(parts, "delivery="+delivs[t[5]].Name)
	}
	if f.Obs != "" {
		parts = append(parts, f.Obs)
	}
	return strings.Join(parts, "|")
}

func runEquiv(rep *vlib.Reporter) equivSummary {
	w := newWorker()
	sum := equivSummary{notes: map[string]int{}}
	distinct := map[eqTuple]bool{}
	has := func(fs []finding, clause string) *finding {
		for i := range fs {
			if fs[i].Clause == clause {
				return &fs[i]
			}
		}
		return nil
	}
	one := func(t eqTuple) {
		c := t.toCase()
		fs, desc := checkEquiv(w, c)
		sum.evals++
		if !strings.HasPrefix(desc, "json content type spelling refused") {
			distinct[t] = true
		}
		if strings.HasPrefix(desc, "NOTE details-in-request-codec") {
			sum.notes["details-in-request-codec"]++
		}
		if t[0] == 0 && t[2] == 0 && t[3] == 0 && t[4] == 0 && ((t[5] == 0 && (t[1] == 1 || t[1] == 6)) || (t[1] == 1 && delivs[t[5]].Name == "wire:chunked")) {
			sum.samples = append(sum.samples, map[string]interface{}{"class": "json==protobuf", "observed": desc})
		}
		for i := range fs {
			f := &fs[i]
			// minimize like the request check: reset axes while the clause persists
			mt := t
			for axis := range []int{0, 1, 2, 3, 4, 5} {
				if axis == 1 {
					continue
				}
				t2 := mt
				t2[axis] = 0
				if t2 == mt {
					continue
				}
				if f2, _ := checkEquiv(w, t2.toCase()); has(f2, f.Clause) != nil {
					mt = t2
				}
			}
			// a delivery that is needed: walk to simpler ones while the clause persists
			for changed := mt[5] != 0; changed; {
				changed = false
				for _, name := range delivs[mt[5]].Simpler {
					t2 := mt
					t2[5] = indexOfDeliv(name)
					if f2, _ := checkEquiv(w, t2.toCase()); has(f2, f.Clause) != nil {
						mt, changed = t2, true
						break
					}
				}
			}
			mc := mt.toCase()
			mfs, _ := checkEquiv(w, mc)
			mf := has(mfs, f.Clause)
			if mf == nil {
				mt, mf, mc = t, f, c
			}
			rep.Violation(eqFingerprint(mt, mf), mf.What, mc)
		}
	}
	for mi := range eqMsgs {
		for ri := range eqRenderings {
			for ti := range eqCTs {
				for hi := range eqHdrs {
					for ci := range cfgs {
						for di := range delivs {
							one(eqTuple{ci, mi, ri, ti, hi, di})
						}
					}
				}
			}
		}
	}
	sum.nontrivial = len(distinct)
	return sum
}
