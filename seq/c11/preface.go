package main

import (
	"bytes"
	"encoding/binary"
	"fmt"
	"math"
	"sort"
)

// ---- the size-preface axis -----------------------------------------------------
//
// A streaming request body is a sequence of frames, a frame a 4-byte big-endian
// SIGNED size preface followed by that many bytes. The hand-written bodies
// (grammar.go) announce only a handful of sizes: the length of the payload, that
// length +2, its negation, 0, 65536, MaxInt32 and the limit+1. This family makes
// the number a preface announces a dimension of its own:
//
//	preface body := lead x v x tail
//
//	lead: how many valid frames (msgOK) come first, i.e. which RecvMsg call of
//	      the handler meets the preface: 0, 1
//	v:    every boundary value of the preface's type and of the reference:
//	      0; +-(2^k - 1), +-2^k, +-(2^k + 1) for k = 0..31 as far as an int32 holds
//	      them (so MinInt32 = -2^31, MinInt32+1, MaxInt32 = 2^31-1 are members);
//	      the two extremes of the type and their two inner neighbours;
//	      around the documented message size limit L = 100 MiB: +-(L-1), +-L, +-(L+1);
//	      around the number n of bytes that follow (n = len(tail pb)): +-(n-1), +-n, +-(n+1)
//	tail: the bytes after the preface: none; the encoding of msgOK (n bytes)
//
// The reference (refStream, oracle.go) is the one of every streaming body and
// never looks at the family: a frame whose preface is negative, above the limit
// or larger than what follows makes the request stream undecodable from that
// frame on, and "an undecodable request message reaches the caller as a non-OK
// status": 200, the data frames the handler had sent, exactly one trailer
// frame, its code not OK; and no panic.
//
// A body is HEAVY when the reference says the server has to buffer more than
// 64 KiB on the strength of the preface alone (64 KiB < v <= L; the payload is
// never there). Heavy bodies are crossed with fewer axes (main.go), for cost.

type prefaceVal struct {
	Name    string
	Lead    int
	V       int32
	Tail    string   // "" or "pb"
	Heavy   bool     // 64 KiB < V <= limit
	Simpler []string // one component towards lead 0 / no tail / the next value of the same sign nearer to 0
}

// nCoreBodies: the hand-written bodies come first; appendPrefaceBodies (called
// at the end of grammar.go's init) appends the generated ones. prefaces[i]
// describes bodies[nCoreBodies+i].
var (
	nCoreBodies int
	prefaces    []prefaceVal
	prefaceVs   []int32 // the value set, by magnitude, +x before -x
)

const prefaceHeavyAbove = 64 * 1024

func prefaceTailBytes(tail string) []byte {
	if tail == "pb" {
		return mustPB(msgOK)
	}
	return nil
}

// prefaceValueSet: see the grammar above; n is the length of the non-empty tail.
func prefaceValueSet(n int) []int32 {
	set := map[int64]bool{0: true}
	add := func(x int64) {
		for _, y := range []int64{x, -x} {
			if y >= math.MinInt32 && y <= math.MaxInt32 {
				set[y] = true
			}
		}
	}
	for k := 0; k <= 31; k++ {
		for d := int64(-1); d <= 1; d++ {
			add(int64(1)<<uint(k) + d)
		}
	}
	for _, c := range []int64{refMaxMessage, int64(n)} {
		for d := int64(-1); d <= 1; d++ {
			add(c + d)
		}
	}
	for d := int64(0); d <= 2; d++ {
		add(math.MaxInt32 - d)
		add(math.MinInt32 + d)
	}
	var out []int32
	for x := range set {
		out = append(out, int32(x))
	}
	mag := func(x int32) int64 {
		if x < 0 {
			return -int64(x)
		}
		return int64(x)
	}
	sort.Slice(out, func(i, j int) bool {
		if mag(out[i]) != mag(out[j]) {
			return mag(out[i]) < mag(out[j])
		}
		return out[i] > out[j]
	})
	return out
}

func prefaceName(lead int, v int32, tail string) string {
	s := fmt.Sprintf("size(%d)@%d", v, lead)
	if tail != "" {
		s += "+" + tail
	}
	return s
}

func appendPrefaceBodies() {
	nCoreBodies = len(bodies)
	prefaceVs = prefaceValueSet(len(prefaceTailBytes("pb")))
	// the next value of the same sign nearer to 0
	nearer := map[int32]*int32{}
	var lastPos, lastNeg *int32
	for i := range prefaceVs {
		v := prefaceVs[i]
		switch {
		case v > 0:
			nearer[v] = lastPos
			lastPos = &prefaceVs[i]
		case v < 0:
			nearer[v] = lastNeg
			lastNeg = &prefaceVs[i]
		default:
			lastPos = &prefaceVs[i] // 0 is where the positive values end
		}
	}
	for _, lead := range []int{0, 1} {
		for _, tail := range []string{"", "pb"} {
			for _, v := range prefaceVs {
				p := prefaceVal{Name: prefaceName(lead, v, tail), Lead: lead, V: v, Tail: tail,
					Heavy: v > prefaceHeavyAbove && v <= refMaxMessage}
				if lead > 0 {
					p.Simpler = append(p.Simpler, prefaceName(lead-1, v, tail))
				}
				if tail != "" {
					p.Simpler = append(p.Simpler, prefaceName(lead, v, ""))
				}
				if nv := nearer[v]; nv != nil {
					p.Simpler = append(p.Simpler, prefaceName(lead, *nv, tail))
				}
				var b []byte
				for i := 0; i < lead; i++ {
					b = append(b, framed(msgOK)...)
				}
				b = append(b, frame(v, prefaceTailBytes(tail))...)
				prefaces = append(prefaces, p)
				bodies = append(bodies, bodyVal{p.Name, b})
			}
		}
	}
}

// prefaceOf: the description of body index bi when it is a generated one.
func prefaceOf(bi int) *prefaceVal {
	if bi < nCoreBodies {
		return nil
	}
	return &prefaces[bi-nCoreBodies]
}

// prefaceGen: the requests that carry one of the generated bodies biFrom..biTo-1.
//
//	light bodies: cfg x registered method x Content-Type x delivery (POST, no
//	              other headers, plain recorder); the thorough tier takes the
//	              full product, the quick tier, around cfg srv / the kind's
//	              content type / the plain delivery, every one- and two-axis sweep
//	              with the body (body x kind, body x kind x cfg, body x kind x
//	              Content-Type, body x kind x delivery)
//	heavy bodies: cfg x registered method (thorough), registered method (quick),
//	              with the kind's content type and the plain delivery
func prefaceGen(full bool, biFrom, biTo int, yield func(tuple)) {
	n := axisSizes()
	for bi := biFrom; bi < biTo; bi++ {
		heavy := prefaceOf(bi).Heavy
		for pi := 0; pi < len(kinds); pi++ {
			base := tuple{0, pi, 0, 0, 0, bi}
			base[3] = baseOf(3, base)
			switch {
			case heavy:
				for ci := 0; ci < n[0] && (full || ci == 0); ci++ {
					t := base
					t[0] = ci
					yield(t)
				}
			case full:
				for ci := 0; ci < n[0]; ci++ {
					for ti := 0; ti < n[3]; ti++ {
						for di := 0; di < n[7]; di++ {
							t := base
							t[0], t[3], t[7] = ci, ti, di
							yield(t)
						}
					}
				}
			default:
				yield(base)
				for ci := 1; ci < n[0]; ci++ {
					t := base
					t[0] = ci
					yield(t)
				}
				for ti := 0; ti < n[3]; ti++ {
					if ti != base[3] {
						t := base
						t[3] = ti
						yield(t)
					}
				}
				for di := 1; di < n[7]; di++ {
					t := base
					t[7] = di
					yield(t)
				}
			}
		}
	}
}

// prefaceJobs: the enumeration cut into jobs of a few bodies each (the heavy
// bodies, which are neighbours in the value order, spread over several jobs),
// and the number of requests.
func prefaceJobs(full bool) ([]func(func(tuple)), int) {
	var jobs []func(func(tuple))
	total := 0
	step := 16
	if full {
		step = 2
	}
	for from := nCoreBodies; from < len(bodies); from += step {
		from, to := from, min(from+step, len(bodies))
		prefaceGen(full, from, to, func(tuple) { total++ })
		jobs = append(jobs, func(yield func(tuple)) { prefaceGen(full, from, to, yield) })
	}
	return jobs, total
}

// coveredF: the tuple is one of the thorough tier's requests with a generated body.
func coveredF(t tuple) bool {
	p := prefaceOf(t[5])
	if p == nil || t[1] >= len(kinds) || t[2] != 0 || t[4] != 0 || t[6] != 0 {
		return false
	}
	return !p.Heavy || (t[3] == baseOf(3, t) && t[7] == 0)
}

// minimizeBody walks from a generated body to simpler ones of its family (one
// valid frame less in front, no tail, the next announced size of the same sign
// nearer to 0) while the same clause is still violated: a cause that a whole
// range of announced sizes meets is reported under the end of the range nearest
// to 0, a cause that needs one particular size keeps it.
func (w *worker) minimizeBody(t tuple, clause string) tuple {
	if prefaceOf(t[5]) == nil {
		return t
	}
	if w.bodyMemo == nil {
		w.bodyMemo = map[bodyMemoKey]tuple{}
	}
	// walks from neighbouring bodies share most of their steps: remember where each visited request ended
	var visited []tuple
	for {
		if end, ok := w.bodyMemo[bodyMemoKey{t, clause}]; ok {
			t = end
			break
		}
		visited = append(visited, t)
		moved := false
		for _, name := range prefaceOf(t[5]).Simpler {
			t2 := t
			t2[5] = indexOfPreface(name)
			if r2, _ := w.check(t2); findClause(r2, clause) != nil {
				t, moved = t2, true
				break
			}
		}
		if !moved {
			break
		}
	}
	for _, v := range visited {
		w.bodyMemo[bodyMemoKey{v, clause}] = t
	}
	return t
}

type bodyMemoKey struct {
	t      tuple
	clause string
}

var prefaceIndex map[string]int

func indexOfPreface(name string) int {
	if prefaceIndex == nil {
		panic("preface index not built")
	}
	i, ok := prefaceIndex[name]
	if !ok {
		panic("no generated body " + name)
	}
	return i
}

func buildPrefaceIndex() {
	m := map[string]int{}
	for i := range prefaces {
		m[prefaces[i].Name] = nCoreBodies + i
	}
	prefaceIndex = m
}

// selfCheckPrefaces: the generated bodies are what their names say, the value
// set has the members it is there for, and the reference reads them as the
// grammar comment says.
func selfCheckPrefaces() []error {
	var errs []error
	bad := func(format string, a ...interface{}) { errs = append(errs, fmt.Errorf("self-check: "+format, a...)) }
	if nCoreBodies == 0 || len(prefaces) != len(bodies)-nCoreBodies || len(prefaces) != 4*len(prefaceVs) {
		bad("%d generated bodies for %d announced sizes (%d bodies, %d hand-written)", len(prefaces), len(prefaceVs), len(bodies), nCoreBodies)
		return errs
	}
	n := int32(len(prefaceTailBytes("pb")))
	in := map[int32]bool{}
	for i, v := range prefaceVs {
		if in[v] {
			bad("announced size %d occurs twice", v)
		}
		in[v] = true
		if i > 0 {
			a, b := int64(prefaceVs[i-1]), int64(v)
			if a < 0 {
				a = -a
			}
			if b < 0 {
				b = -b
			}
			if a > b || (a == b && prefaceVs[i-1] < v) {
				bad("announced sizes are not ordered by magnitude at %d, %d", prefaceVs[i-1], v)
			}
		}
	}
	for _, v := range []int32{0, 1, -1, 2, -2, 255, 256, -256, 65535, 65536, 65537, math.MaxInt32, math.MaxInt32 - 1, math.MinInt32, math.MinInt32 + 1, math.MinInt32 + 2,
		refMaxMessage - 1, refMaxMessage, refMaxMessage + 1, -refMaxMessage, -refMaxMessage - 1, n - 1, n, n + 1, -n} {
		if !in[v] {
			bad("announced size %d is not in the value set", v)
		}
	}
	names := map[string]bool{}
	for _, b := range bodies {
		if names[b.Name] {
			bad("body %s occurs twice", b.Name)
		}
		names[b.Name] = true
	}
	heavy := 0
	one := framed(msgOK)
	for i := range prefaces {
		p := &prefaces[i]
		b := bodies[nCoreBodies+i]
		if b.Name != p.Name || indexOfPreface(p.Name) != nCoreBodies+i || indexOfBody(p.Name) != nCoreBodies+i {
			bad("generated body %d: names %s / %s", i, b.Name, p.Name)
			continue
		}
		rest := b.B
		for l := 0; l < p.Lead; l++ {
			if !bytes.HasPrefix(rest, one) {
				bad("body %s does not start with %d valid frame(s)", p.Name, p.Lead)
				break
			}
			rest = rest[len(one):]
		}
		if len(rest) < 4 || int32(binary.BigEndian.Uint32(rest)) != p.V || !bytes.Equal(rest[4:], prefaceTailBytes(p.Tail)) {
			bad("body %s is not %d valid frame(s), the preface %d and the tail %q", p.Name, p.Lead, p.V, p.Tail)
			continue
		}
		if p.Heavy {
			heavy++
		}
		if p.Heavy != (p.V > 64*1024 && p.V <= refMaxMessage) {
			bad("body %s: heavy=%v", p.Name, p.Heavy)
		}
		for _, sn := range p.Simpler {
			if !names[sn] || sn == p.Name {
				bad("body %s: simpler body %s is not in the grammar", p.Name, sn)
			}
		}
		if (p.Lead > 0 || p.Tail != "" || (p.V != 0 && p.V != -1)) != (len(p.Simpler) > 0) {
			bad("body %s: %d simpler bodies", p.Name, len(p.Simpler))
		}
		// the reference: the announced frame is not there unless 0 <= v <= len(tail)
		for _, k := range []string{"CS", "SS", "BD"} {
			r := refStream(k, b.B)
			switch {
			case p.V < 0 || int(p.V) > len(rest)-4:
				if r.OK || r.Code != 0 || r.Messages != p.Lead {
					bad("body %s for %s: the reference does not stop at the preface (%+v)", p.Name, k, r)
				}
			case p.V == n && p.Tail == "pb":
				if wantOK := k != "SS" || p.Lead == 0; r.OK != wantOK || r.Messages != p.Lead+1 {
					bad("body %s for %s: a valid stream of %d frame(s) is read as %+v", p.Name, k, p.Lead+1, r)
				}
			case p.V == 0 && p.Tail == "":
				if wantOK := k != "SS" || p.Lead == 0; r.OK != wantOK || r.Messages != p.Lead+1 {
					bad("body %s for %s: a valid stream ending with an empty message is read as %+v", p.Name, k, r)
				}
			}
		}
	}
	if heavy == 0 || heavy*4 > len(prefaces) {
		bad("%d of %d generated bodies are heavy", heavy, len(prefaces))
	}
	// the quick enumeration: no tuple twice, every tuple valid and within the thorough enumeration
	quickSet := map[tuple]bool{}
	prefaceGen(false, nCoreBodies, len(bodies), func(t tuple) {
		if quickSet[t] || !t.valid() || !coveredF(t) {
			bad("quick enumeration of the generated bodies: tuple %v twice, invalid or not in the thorough enumeration", t)
		}
		quickSet[t] = true
	})
	return errs
}
