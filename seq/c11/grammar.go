package main

import (
	"encoding/base64"
	"encoding/binary"
	"encoding/hex"
	"fmt"

	gt "github.com/fullstorydev/grpchan/grpchantesting"
	"google.golang.org/protobuf/encoding/protojson"
	"google.golang.org/protobuf/proto"
	"google.golang.org/protobuf/types/known/anypb"
	"google.golang.org/protobuf/types/known/wrapperspb"
)

// ---- the request grammar -------------------------------------------------
//
// request := cfg x path(cfg) x method x content-type x header-set x body x writer x delivery
//
// (writer: the ResponseWriter the server is handed, writer.go; delivery: how the
// body bytes are announced and handed out by the transport, delivery.go; the
// body axis is the hand-written bodies below followed by a generated family over
// the number a frame's size preface announces, preface.go)
//
// Every axis lists its "base" (plain valid) value first; the base content type
// and body depend on the kind of the addressed method.

const (
	ctUnary  = "application/x-protobuf"
	ctStream = "application/x-httpgrpc-proto+v1"
	ctJSON   = "application/json"
	svcName  = "t.S"
)

type cfgVal struct {
	Name      string
	Base      string // "" or "/api"
	Mux       bool   // http.ServeMux filled by HandleServices instead of httpgrpc.NewServer
	Intercept bool   // pass-through (counting) unary+stream interceptors
}

var cfgs = []cfgVal{
	{Name: "srv"},
	{Name: "mux", Mux: true},
	{Name: "srv-base-int", Base: "/api", Intercept: true},
	{Name: "mux-base-int", Base: "/api", Mux: true, Intercept: true},
}

var methods = []string{"POST", "GET", "HEAD", "PUT", "DELETE", "OPTIONS", "PATCH", "post", "CONNECT"}

type pathVal struct {
	Name string
	Rel  string // appended to the cfg's base path
	Abs  bool   // Rel is the whole path (only generated for cfgs with a base path)
}

var kinds = []string{"U", "CS", "SS", "BD"}

var paths = []pathVal{
	{Name: "U", Rel: "/t.S/U"},
	{Name: "CS", Rel: "/t.S/CS"},
	{Name: "SS", Rel: "/t.S/SS"},
	{Name: "BD", Rel: "/t.S/BD"},
	{Name: "unknown-service", Rel: "/t.X/U"},
	{Name: "unknown-method", Rel: "/t.S/Nope"},
	{Name: "service-only", Rel: "/t.S"},
	{Name: "service-slash", Rel: "/t.S/"},
	{Name: "root", Rel: "/"},
	{Name: "trailing-slash", Rel: "/t.S/U/"},
	{Name: "extra-segment", Rel: "/t.S/SS/x"},
	{Name: "suffix", Rel: "/t.S/Ux"},
	{Name: "prefix-of-method", Rel: "/t.S/C"},
	{Name: "lower-case", Rel: "/t.s/u"},
	{Name: "extra-prefix", Rel: "/x/t.S/U"},
	{Name: "double-slash", Rel: "//t.S/U"},
	{Name: "dot-segment", Rel: "/t.S/./BD"},
	{Name: "dotdot-segment", Rel: "/t.S/../t.S/CS"},
	{Name: "outside-base", Rel: "/t.S/U", Abs: true},
}

type ctVal struct {
	Name    string
	V       string
	Present bool
}

var cts = []ctVal{
	{"unary", ctUnary, true},
	{"stream", ctStream, true},
	{"json", ctJSON, true},
	{"unary+charset", ctUnary + "; charset=utf-8", true},
	{"stream+charset", ctStream + "; charset=utf-8", true},
	{"json+charset", ctJSON + "; charset=utf-8", true},
	{"unary-upper", "APPLICATION/X-PROTOBUF", true},
	{"stream-mixed", "Application/X-HttpGrpc-Proto+V1", true},
	{"json-upper", "APPLICATION/JSON", true},
	{"unary-badparam", ctUnary + "; charset", true},
	{"stream-badparam", ctStream + "; =x", true},
	{"json-badparam", ctJSON + `; charset="unterminated`, true},
	{"unary-semicolon", ctUnary + ";", true},
	{"absent", "", false},
	{"empty", "", true},
	{"text-plain", "text/plain", true},
	{"application-grpc", "application/grpc", true},
	{"unary-extended", ctUnary + "-v2", true},
	{"stream-v2", "application/x-httpgrpc-proto+v2", true},
	{"no-slash", "application", true},
	{"subtype-only", "x-protobuf", true},
	{"comma-list", ctUnary + ", " + ctJSON, true},
	{"junk", ";;;", true},
}

type hv struct {
	K string `json:"k"`
	V string `json:"v"`
}

type hdrVal struct {
	Name    string
	H       []hv
	Ext     bool     // generated (outcome.go): a handler-outcome directive or several -bin values
	Simpler []string // names of simpler header sets of the same family, tried when minimizing
}

// nCoreHdrs: the hand-written header sets come first; init appends the generated ones.
var nCoreHdrs int

var hdrs = []hdrVal{
	{Name: "none"},
	{Name: "valid", H: []hv{{"X-Echo-Bin", "aGk="}, {"X-Echo", "plain"}, {"GRPC-Timeout", "10S"}}},
	{Name: "bin-nonutf8", H: []hv{{"X-Echo-Bin", "wyg="}}}, // valid base64 (both alphabets) of c3 28: not UTF-8
	{Name: "timeout-8digits", H: []hv{{"GRPC-Timeout", "99999999H"}}},
	{Name: "bad-bin", H: []hv{{"X-Echo-Bin", "!!!notbase64"}}},
	{Name: "bad-bin-second-value", H: []hv{{"X-Other-Bin", "aGk="}, {"X-Other-Bin", "a"}}},
	{Name: "bad-bin+bad-timeout", H: []hv{{"X-Other-Bin", "*"}, {"GRPC-Timeout", "abc"}}},
	{Name: "unpadded-bin", H: []hv{{"X-Other-Bin", "YQ"}}},
	{Name: "timeout-word", H: []hv{{"GRPC-Timeout", "abc"}}},
	{Name: "timeout-no-unit", H: []hv{{"GRPC-Timeout", "10"}}},
	{Name: "timeout-unit-only", H: []hv{{"GRPC-Timeout", "S"}}},
	{Name: "timeout-negative", H: []hv{{"GRPC-Timeout", "-5S"}}},
	{Name: "timeout-bad-unit", H: []hv{{"GRPC-Timeout", "10x"}}},
}

type bodyVal struct {
	Name string
	B    []byte
}

func frame(size int32, payload []byte) []byte {
	b := make([]byte, 4, 4+len(payload))
	binary.BigEndian.PutUint32(b, uint32(size))
	return append(b, payload...)
}

func cat(bs ...[]byte) []byte {
	var out []byte
	for _, b := range bs {
		out = append(out, b...)
	}
	return out
}

func mustPB(m proto.Message) []byte {
	b, err := proto.MarshalOptions{Deterministic: true}.Marshal(m)
	if err != nil {
		panic(err)
	}
	return b
}

func mustAny(m proto.Message) *anypb.Any {
	a, err := anypb.New(m)
	if err != nil {
		panic(err)
	}
	return a
}

var (
	msgOK  = &gt.Message{Payload: []byte("hello"), Count: 3}
	msgOK2 = &gt.Message{Payload: []byte("+two"), Count: 1}
	msgErr = &gt.Message{Code: 9, ErrorDetails: []*anypb.Any{mustAny(wrapperspb.String("d1")), mustAny(wrapperspb.Int32(7))}}
)

// error-requesting messages whose payload the streaming handlers quote in the
// status message: plain text, and bytes that are not valid UTF-8; Count > 0
// makes the handler send data frames before it fails.
var (
	msgErrText      = &gt.Message{Code: 5, Payload: []byte("who"), Count: 2}
	msgErrAfter1    = &gt.Message{Code: 5, Payload: []byte("one"), Count: 1}
	msgCount1       = &gt.Message{Payload: []byte("c1"), Count: 1}
	msgCount2       = &gt.Message{Payload: []byte("c2"), Count: 2}
	msgErrBin       = &gt.Message{Code: 3, Payload: []byte("k\xff\xfe")}
	msgErrBinAfter  = &gt.Message{Code: 3, Payload: []byte("k\xff\xfe"), Count: 2}
	msgErrBinDetail = &gt.Message{Code: 3, Payload: []byte{0xc3, 0x28}, Count: 1, ErrorDetails: []*anypb.Any{mustAny(wrapperspb.String("d1"))}}
)

// further valid messages whose replies have the same size as msgOK's but other
// content, a larger size, and a smaller size (the overlapping-requests part
// pairs requests whose replies relate in every one of these ways)
var (
	msgSame  = &gt.Message{Payload: []byte("world"), Count: 3}
	msgLong  = &gt.Message{Payload: []byte("LLLLLLLLLLLLLLLLLLLLLLLLLLLLLLLLLLLLLLLLLLLLLLLLLLLLLLLLLLLLLLLL"), Count: 3}
	msgShort = &gt.Message{}
)

// jsonOf renders payload and count of m as JSON with a fixed layout.
func jsonOf(m *gt.Message) []byte {
	return []byte(fmt.Sprintf(`{"payload":%q,"count":%d}`, base64.StdEncoding.EncodeToString(m.Payload), m.Count))
}

func framed(m proto.Message) []byte { b := mustPB(m); return frame(int32(len(b)), b) }

var garbage = []byte{0xff, 0xff, 0xff, 0xff, 0xff, 0xff, 0xff, 0xff, 0xff, 0xff, 0xff, 0x01, 'g', 'a', 'r', 'b'}

var bodies []bodyVal

// the messages of the JSON == protobuf comparison
type eqMsg struct {
	Name string
	M    *gt.Message
}

var eqMsgs = []eqMsg{
	{"empty", &gt.Message{}},
	{"payload", &gt.Message{Payload: []byte("hello")}},
	{"payload-binary", &gt.Message{Payload: []byte{0, 0xff, 0xfe, '"', '\\', '\n'}, Count: -2147483648}},
	{"count", &gt.Message{Count: 2147483646}},
	{"headers+trailers", &gt.Message{Payload: []byte("p"), Headers: map[string][]byte{"h1": []byte("v1"), "h2-bin": {0xff, 0}}, Trailers: map[string][]byte{"t1": []byte("w1"), "t2-bin": {1, 2, 0xfe}}}},
	{"error-no-details", &gt.Message{Code: 5}},
	{"error-details", msgErr},
	{"error-details+metadata", &gt.Message{Code: 3, Trailers: map[string][]byte{"t1": []byte("w1")}, ErrorDetails: []*anypb.Any{mustAny(&gt.Message{Payload: []byte("nested")})}}},
	{"error-unknown-code", &gt.Message{Code: 99}},
	{"no-response-typed-nil", &gt.Message{Payload: []byte("p"), DelayMillis: noRespTyped}},
	{"no-response-bare-nil", &gt.Message{Payload: []byte("p"), DelayMillis: noRespBare}},
}

func init() {
	nCoreHdrs = len(hdrs)
	hdrs = append(hdrs, outcomeHdrs()...)
	hdrs = append(hdrs, binHdrs()...)
	pbOK := mustPB(msgOK)
	jsOK := []byte(`{"payload":"aGVsbG8=","count":3}`)
	jsErr, err := protojson.Marshal(msgErr)
	if err != nil {
		panic(err)
	}
	bodies = []bodyVal{
		{"pb", pbOK},
		{"frame1", frame(int32(len(pbOK)), pbOK)},
		{"pb-err", mustPB(msgErr)},
		{"empty", nil},
		{"garbage", garbage},
		{"pb-truncated", pbOK[:len(pbOK)-4]},
		{"json", jsOK},
		{"json-err", jsErr},
		{"json-truncated", []byte(`{"payload":`)},
		{"json-array", []byte(`[1,2]`)},
		{"json-wrong-type", []byte(`{"count":"many"}`)},
		{"frame1-err", frame(int32(len(mustPB(msgErr))), mustPB(msgErr))},
		{"frame2", cat(frame(int32(len(pbOK)), pbOK), frame(int32(len(mustPB(msgOK2))), mustPB(msgOK2)))},
		{"frame-empty-msg", frame(0, nil)},
		{"frame-short", frame(int32(len(pbOK)), pbOK[:len(pbOK)-2])},
		{"frame-garbage", frame(int32(len(garbage)), garbage)},
		{"frame-negative", frame(-int32(len(pbOK)), pbOK)},
		{"frame-maxint", frame(0x7fffffff, pbOK)},
		{"frame-over-limit", frame(100*1024*1024+1, pbOK)},
		{"frame-64k-short", frame(65536, pbOK)},
		{"half-prefix", []byte{0, 0}},
		{"frame1+half-prefix", cat(frame(int32(len(pbOK)), pbOK), []byte{0, 0})},
		{"frame1+frame-garbage", cat(frame(int32(len(pbOK)), pbOK), frame(int32(len(garbage)), garbage))},
		{"frame-err-text-after-data", framed(msgErrText)},
		{"frame-err-binmsg", framed(msgErrBin)},
		{"frame-err-binmsg-after-data", framed(msgErrBinAfter)},
		{"frame1+frame-err-binmsg-after-data", cat(framed(msgOK), framed(msgErrBinDetail))},
		{"frame-err+frame-garbage", cat(frame(int32(len(mustPB(msgErr))), mustPB(msgErr)), frame(int32(len(garbage)), garbage))},
		{"pb-same", mustPB(msgSame)},
		{"pb-long", mustPB(msgLong)},
		{"json-same", jsonOf(msgSame)},
		{"json-long", jsonOf(msgLong)},
		{"json-short", []byte(`{}`)},
		// handler outcomes by number of reply messages: with these, the bodies make a
		// server-streaming handler send 0, 1, 2 and 3 messages and then succeed
		// (frame-empty-msg, frame-count1, frame-count2, frame1) and 0, 1 and 2 messages
		// and then fail (frame1-err, frame-err-after-1, frame-err-text-after-data)
		{"frame-count1", framed(msgCount1)},
		{"frame-count2", framed(msgCount2)},
		{"frame-err-after-1", framed(msgErrAfter1)},
	}
	// the generated family: what a frame's size preface announces (preface.go)
	appendPrefaceBodies()
	buildPrefaceIndex()
}

// Case is one fully literal request plus the names of the grammar values it was
// built from (names are only used for fingerprints and messages).
type Case struct {
	Kind      string `json:"kind"` // "request"
	Cfg       string `json:"cfg"`
	Method    string `json:"method"`
	PathName  string `json:"path_name"`
	Path      string `json:"path"`
	CTName    string `json:"ct_name"`
	CT        string `json:"ct"`
	CTPresent bool   `json:"ct_present"`
	HdrName   string `json:"hdr_name"`
	Hdr       []hv   `json:"hdr"`
	BodyName  string `json:"body_name"`
	BodyHex   string `json:"body_hex"`
	Writer    string `json:"writer,omitempty"`   // name of the ResponseWriter the server is handed (writer.go); empty = the plain recorder
	Delivery  string `json:"delivery,omitempty"` // how the body is announced and handed out (delivery.go); empty = Content-Length, all at once
}

func (c *Case) key() string {
	return fmt.Sprintf("%s|%s|%s|%s|%s|%s|%s|%s", c.Cfg, c.Method, c.Path, c.CTName, c.HdrName, c.BodyName, c.Writer, c.Delivery)
}

func cfgByName(n string) *cfgVal {
	for i := range cfgs {
		if cfgs[i].Name == n {
			return &cfgs[i]
		}
	}
	return nil
}

// index tuple: cfg, path, method, ct, hdr, body, writer, delivery
type tuple [8]int

const nAxes = 8

func axisSizes() [nAxes]int {
	return [nAxes]int{len(cfgs), len(paths), len(methods), len(cts), len(hdrs), len(bodies), len(writers), len(delivs)}
}

func indexOfCT(name string) int {
	for i, c := range cts {
		if c.Name == name {
			return i
		}
	}
	panic("no content type " + name)
}

func indexOfBody(name string) int {
	for i, b := range bodies {
		if b.Name == name {
			return i
		}
	}
	panic("no body " + name)
}

// baseFor gives the plain valid values for the kind addressed by path index p.
func baseCT(kind string) int {
	if kind == "U" {
		return indexOfCT("unary")
	}
	return indexOfCT("stream")
}

func baseBody(kind string) int {
	if kind == "U" {
		return indexOfBody("pb")
	}
	return indexOfBody("frame1")
}

// valid reports whether the tuple denotes a request of the grammar (the
// "outside-base" path only exists for configurations with a base path, a
// decorating Mux only for the HandleServices configurations).
func (t tuple) valid() bool {
	return !(paths[t[1]].Abs && cfgs[t[0]].Base == "") && !(writers[t[6]].Place == placeMux && !cfgs[t[0]].Mux)
}

func (t tuple) toCase() *Case {
	cfg, p, ct, h, b := cfgs[t[0]], paths[t[1]], cts[t[3]], hdrs[t[4]], bodies[t[5]]
	full := cfg.Base + p.Rel
	if p.Abs {
		full = p.Rel
	}
	c := &Case{Kind: "request", Cfg: cfg.Name, Method: methods[t[2]], PathName: p.Name, Path: full,
		CTName: ct.Name, CT: ct.V, CTPresent: ct.Present, HdrName: h.Name, Hdr: h.H, BodyName: b.Name, BodyHex: hex.EncodeToString(b.B)}
	if t[6] != 0 {
		c.Writer = writers[t[6]].Name
	}
	if t[7] != 0 {
		c.Delivery = delivs[t[7]].Name
	}
	return c
}
