package main

// A further dimension of the grammar: WHAT THE http.ResponseWriter CAN DO.
//
// The property promises a well-formed reply for every request; it does not
// say "as long as the server is handed net/http's own writer". The package
// documentation invites callers to decorate the handlers through a custom Mux
// ("adding authentication checks, logging, error handling, etc"), and any
// http middleware in front of *httpgrpc.Server does the same: the library is
// then handed a ResponseWriter of the caller's making, which has the three
// methods of the interface and whatever optional ones its author thought of.
//
// writer := capabilities x placement
//
//	capabilities (each a Go type of its own, so that type assertions and
//	http.ResponseController see exactly the named method set):
//	  recorder      the httptest recorder as is (Flush)
//	  bare          Header/Write/WriteHeader only
//	  flush         + Flush(), forwarded
//	  unwrap        + Unwrap() http.ResponseWriter, no Flush
//	  flush-noop    + Flush() that does nothing
//	  hijack-push   + http.Hijacker and http.Pusher stubs, no Flush
//	  flush-error   + FlushError() error (the Go 1.20 spelling), no Flush()
//	  string-reader + io.StringWriter and io.ReaderFrom, no Flush
//	  flush+unwrap  + Flush() and Unwrap()
//	placement:
//	  front          an http middleware in front of the whole handler tree
//	                 (*httpgrpc.Server, or the ServeMux filled by HandleServices)
//	  mux-decorator  a Mux function given to HandleServices that wraps every
//	                 handler it registers (only for the HandleServices
//	                 configurations); the mux's own 404 never sees the wrapper
//
// Every wrapper forwards to an httptest recorder, and the reply is read from
// that recorder (what would go to the wire). The oracle is the one of every
// other request (judge: a function of the literal request), plus: the reply
// (status, headers, body) is the same as the one the same request gets on the
// plain recorder.

import (
	"bufio"
	"bytes"
	"context"
	"errors"
	"fmt"
	"io"
	"net"
	"net/http"
	"net/http/httptest"
	"sort"
	"strings"

	gt "github.com/fullstorydev/grpchan/grpchantesting"
	"github.com/fullstorydev/grpchan/httpgrpc"
	"google.golang.org/protobuf/proto"
)

type caps struct {
	Flush, FlushNoop, FlushError, Unwrap, HijackPush, StringReader bool
}

// flushable: can http.ResponseController (or a type assertion to http.Flusher
// followed by Unwrap, ...) find a way to flush.
func (c caps) flusher() bool    { return c.Flush || c.FlushNoop }
func (c caps) controller() bool { return c.Flush || c.FlushNoop || c.FlushError || c.Unwrap }

type writerVal struct {
	Name  string
	Kind  string // name of the capability set
	Caps  caps
	Wrap  bool   // false: the recorder itself is handed on
	Place string // "" (plain tree, no decoration) | "front" | "mux"
}

type capKind struct {
	Name string
	Caps caps
}

var capKinds = []capKind{
	{"bare", caps{}},
	{"flush", caps{Flush: true}},
	{"unwrap", caps{Unwrap: true}},
	{"flush-noop", caps{FlushNoop: true}},
	{"hijack-push", caps{HijackPush: true}},
	{"flush-error", caps{FlushError: true}},
	{"string-reader", caps{StringReader: true}},
	{"flush+unwrap", caps{Flush: true, Unwrap: true}},
}

const (
	placeFront = "front"
	placeMux   = "mux"
)

// writers: the plain recorder first (the base value of the axis).
var writers = func() []writerVal {
	out := []writerVal{
		{Name: "recorder", Kind: "recorder"},
		// a decorating Mux that hands the writer on untouched
		{Name: "recorder@mux-decorator", Kind: "recorder", Place: placeMux},
	}
	for _, k := range capKinds {
		out = append(out, writerVal{Name: k.Name, Kind: k.Name, Caps: k.Caps, Wrap: true, Place: placeFront})
	}
	for _, k := range capKinds {
		out = append(out, writerVal{Name: k.Name + "@mux-decorator", Kind: k.Name, Caps: k.Caps, Wrap: true, Place: placeMux})
	}
	return out
}()

func writerByName(n string) *writerVal {
	for i := range writers {
		if writers[i].Name == n {
			return &writers[i]
		}
	}
	return nil
}

func indexOfWriter(n string) int {
	for i := range writers {
		if writers[i].Name == n {
			return i
		}
	}
	panic("no writer " + n)
}

// frontTwin: the same capabilities placed in front of the handler tree (valid
// for every configuration), or -1.
func frontTwin(wi int) int {
	w := writers[wi]
	if w.Place != placeMux {
		return -1
	}
	if !w.Wrap {
		return 0
	}
	return indexOfWriter(w.Kind)
}

// ---- the wrappers -----------------------------------------------------------

// probe counts what went through a wrapper.
type probe struct {
	Made    bool // a wrapper was built and handed to library code
	Calls   int  // Header/WriteHeader/Write(/WriteString/ReadFrom) calls
	Flushes int  // Flush/FlushError calls
	Other   int  // Unwrap/Hijack/Push calls
}

type wBase struct {
	w http.ResponseWriter
	p *probe
}

func (b *wBase) Header() http.Header         { b.p.Calls++; return b.w.Header() }
func (b *wBase) WriteHeader(code int)        { b.p.Calls++; b.w.WriteHeader(code) }
func (b *wBase) Write(p []byte) (int, error) { b.p.Calls++; return b.w.Write(p) }

func (b *wBase) flushInner() {
	b.p.Flushes++
	if f, ok := b.w.(http.Flusher); ok {
		f.Flush()
	}
}

type (
	wBare         struct{ *wBase }
	wFlush        struct{ *wBase }
	wUnwrap       struct{ *wBase }
	wFlushNoop    struct{ *wBase }
	wHijackPush   struct{ *wBase }
	wFlushError   struct{ *wBase }
	wStringReader struct{ *wBase }
	wFlushUnwrap  struct{ *wBase }
)

func (x wFlush) Flush() { x.flushInner() }

func (x wUnwrap) Unwrap() http.ResponseWriter { x.p.Other++; return x.w }

func (x wFlushNoop) Flush() { x.p.Flushes++ }

func (x wHijackPush) Hijack() (net.Conn, *bufio.ReadWriter, error) {
	x.p.Other++
	return nil, nil, errors.New("not a connection")
}
func (x wHijackPush) Push(string, *http.PushOptions) error { x.p.Other++; return http.ErrNotSupported }

func (x wFlushError) FlushError() error { x.flushInner(); return nil }

func (x wStringReader) WriteString(s string) (int, error) { x.p.Calls++; return x.w.Write([]byte(s)) }
func (x wStringReader) ReadFrom(r io.Reader) (int64, error) {
	x.p.Calls++
	b, err := io.ReadAll(r)
	if len(b) > 0 {
		if _, werr := x.w.Write(b); werr != nil {
			return 0, werr
		}
	}
	return int64(len(b)), err
}

func (x wFlushUnwrap) Flush()                      { x.flushInner() }
func (x wFlushUnwrap) Unwrap() http.ResponseWriter { x.p.Other++; return x.w }

// wrapWriter builds the wrapper of the capability set around w.
func wrapWriter(wv *writerVal, w http.ResponseWriter, p *probe) http.ResponseWriter {
	if wv == nil || !wv.Wrap {
		return w
	}
	p.Made = true
	b := &wBase{w: w, p: p}
	switch wv.Caps {
	case caps{}:
		return wBare{b}
	case caps{Flush: true}:
		return wFlush{b}
	case caps{Unwrap: true}:
		return wUnwrap{b}
	case caps{FlushNoop: true}:
		return wFlushNoop{b}
	case caps{HijackPush: true}:
		return wHijackPush{b}
	case caps{FlushError: true}:
		return wFlushError{b}
	case caps{StringReader: true}:
		return wStringReader{b}
	case caps{Flush: true, Unwrap: true}:
		return wFlushUnwrap{b}
	}
	panic("no wrapper type for " + wv.Name)
}

// wrapKey: the writer a decorating Mux has to build for this request (the
// decorator is installed once per server; the request's context says which
// wrapper the enumeration wants for it).
type wrapKey struct{}

type wrapReq struct {
	wv *writerVal
	p  *probe
}

// decoratingMux returns a Mux function for HandleServices that registers every
// handler on mux behind a decorator of the kind the package documentation
// suggests: it wraps the ResponseWriter and calls the handler.
func decoratingMux(mux *http.ServeMux) func(pattern string, h func(http.ResponseWriter, *http.Request)) {
	return func(pattern string, h func(http.ResponseWriter, *http.Request)) {
		mux.HandleFunc(pattern, decorated(h))
	}
}

func decorated(h func(http.ResponseWriter, *http.Request)) func(http.ResponseWriter, *http.Request) {
	return func(w http.ResponseWriter, r *http.Request) {
		if wr, ok := r.Context().Value(wrapKey{}).(*wrapReq); ok {
			w = wrapWriter(wr.wv, w, wr.p)
		}
		h(w, r)
	}
}

// serve runs one request on the handler tree of e with the writer wv (nil =
// the plain recorder on the plain tree) and returns the recorder; p is filled
// with what went through the wrapper.
func (e *env) serve(wv *writerVal, r *http.Request, p *probe) *httptest.ResponseRecorder {
	rec := httptest.NewRecorder()
	var w http.ResponseWriter = rec
	h := e.h
	if wv != nil {
		switch wv.Place {
		case placeFront:
			w = wrapWriter(wv, rec, p)
		case placeMux:
			if e.hDec == nil {
				panic("writer " + wv.Name + " needs a HandleServices configuration")
			}
			h = e.hDec
			r = r.WithContext(context.WithValue(r.Context(), wrapKey{}, &wrapReq{wv, p}))
		}
	}
	h.ServeHTTP(w, r)
	return rec
}

// ---- the comparison with the plain recorder ------------------------------------

func sameRequest(a, b *request) bool {
	if a.Method != b.Method || a.Path != b.Path || a.CT != b.CT || a.CTPresent != b.CTPresent || len(a.Hdr) != len(b.Hdr) || !bytes.Equal(a.Body, b.Body) || a.D != b.D {
		return false
	}
	for i := range a.Hdr {
		if a.Hdr[i] != b.Hdr[i] {
			return false
		}
	}
	return true
}

// baseline: what the same request gets on the plain recorder (cached for the
// last request: the enumeration varies the writer innermost).
func (e *env) baseline(rq *request) *observation {
	if e.baseRq != nil && sameRequest(e.baseRq, rq) {
		return e.baseObs
	}
	plain := *rq
	plain.W = nil
	e.baseRq, e.baseObs = &plain, e.do(&plain)
	return e.baseObs
}

func headerString(h http.Header) string {
	var ks []string
	for k := range h {
		ks = append(ks, k)
	}
	sort.Strings(ks)
	var sb strings.Builder
	for _, k := range ks {
		fmt.Fprintf(&sb, "%s=%q;", k, h[k])
	}
	return sb.String()
}

// sameBody: the same bytes, or two well-formed streaming replies with the same
// data frames and equal trailers (the metadata of HttpTrailer is a protobuf
// map, whose encoding order is not fixed).
func sameBody(a, b []byte) bool {
	if bytes.Equal(a, b) {
		return true
	}
	ra, rb := readStreamReply(a), readStreamReply(b)
	if ra.Malformed != "" || rb.Malformed != "" || ra.Trailer == nil || rb.Trailer == nil || len(ra.Data) != len(rb.Data) {
		return false
	}
	for i := range ra.Data {
		if !bytes.Equal(ra.Data[i], rb.Data[i]) {
			return false
		}
	}
	return proto.Equal(ra.Trailer, rb.Trailer)
}

// compareWithBaseline: the reply must not depend on what the writer can do.
func compareWithBaseline(res *result, base, o *observation, wv *writerVal) {
	var diff []string
	if base.Panic != "" {
		return // reported for the plain request
	}
	if o.Status != base.Status {
		diff = append(diff, "status")
	}
	oh, bh := o.wireHeader(), base.wireHeader()
	if headerString(oh) != headerString(bh) {
		diff = append(diff, "headers")
	}
	if !sameBody(o.Body, base.Body) {
		diff = append(diff, "body")
	}
	if o.Cnt != base.Cnt {
		diff = append(diff, "application-code")
	}
	if len(diff) == 0 {
		return
	}
	res.add("reply-differs-by-writer", strings.Join(diff, "+"),
		fmt.Sprintf("the reply depends on what the http.ResponseWriter can do (%s): with writer %s: %s [%s]   on the plain recorder: %s [%s]",
			strings.Join(diff, ", "), wv.Name, o.short(), headerString(oh), base.short(), headerString(bh)))
}

// ---- calibration ------------------------------------------------------------------

// selfCheckWriters: every wrapper has exactly the method set its name says, the
// placements hand it to the handler, and the two oracles see what they are
// meant to see on toy handlers (no library code involved).
func selfCheckWriters() []error {
	var errs []error
	bad := func(format string, a ...interface{}) { errs = append(errs, fmt.Errorf("self-check: "+format, a...)) }
	if writers[0].Wrap || writers[0].Place != "" {
		bad("the first writer must be the plain recorder")
	}
	names := map[string]bool{}
	for wi := range writers {
		wv := &writers[wi]
		if names[wv.Name] {
			bad("writer %s occurs twice", wv.Name)
		}
		names[wv.Name] = true
		if wv.Place == placeMux && frontTwin(wi) < 0 {
			bad("writer %s has no twin in front of the tree", wv.Name)
		}
		if !wv.Wrap {
			continue
		}
		rec := httptest.NewRecorder()
		p := &probe{}
		w := wrapWriter(wv, rec, p)
		_, isFlusher := w.(http.Flusher)
		_, isFlushErr := w.(interface{ FlushError() error })
		_, isUnwrap := w.(interface{ Unwrap() http.ResponseWriter })
		_, isHijack := w.(http.Hijacker)
		_, isPush := w.(http.Pusher)
		_, isSW := w.(io.StringWriter)
		_, isRF := w.(io.ReaderFrom)
		c := wv.Caps
		if isFlusher != c.flusher() || isFlushErr != c.FlushError || isUnwrap != c.Unwrap || isHijack != c.HijackPush || isPush != c.HijackPush || isSW != c.StringReader || isRF != c.StringReader {
			bad("writer %s: method set is not what the name says", wv.Name)
		}
		ferr := http.NewResponseController(wrapWriter(wv, httptest.NewRecorder(), &probe{})).Flush()
		if (ferr == nil) != c.controller() || (ferr != nil && !errors.Is(ferr, http.ErrNotSupported)) {
			bad("writer %s: ResponseController.Flush gives %v", wv.Name, ferr)
		}
		w.Header().Set("X-T", "1")
		w.WriteHeader(201)
		w.Write([]byte("ab"))
		if rec.Code != 201 || rec.Body.String() != "ab" || rec.Header().Get("X-T") != "1" || p.Calls != 3 || !p.Made {
			bad("writer %s does not forward to its recorder", wv.Name)
		}
	}
	if len(writers) != 2+2*len(capKinds) {
		bad("%d writers", len(writers))
	}

	// toy handlers behind both placements, judged by the real checkRequest
	trailer := func(tr *httpgrpc.HttpTrailer) []byte { b := mustPB(tr); return frame(-int32(len(b)), b) }
	data := framed(&gt.Message{Payload: msgOK.Payload, Count: msgOK.Count + 1}) // what BD answers to msgOK
	toy := func(mode string) *env {
		e := &env{cfg: &cfgs[1], cnt: &counters{}, reg: map[string]string{"/t.S/BD": "BD"}}
		h := func(w http.ResponseWriter, r *http.Request) {
			e.cnt.handler++
			io.Copy(io.Discard, r.Body)
			w.Header().Set("Content-Type", ctStream)
			_, isFlusher := w.(http.Flusher)
			if mode == "header-when-flusher" && isFlusher {
				w.Header().Set("X-Flushed", "yes")
			}
			w.Write(data)
			if mode == "late-header-when-flusher" && isFlusher {
				w.Header().Set("X-Flushed", "yes") // too late for the wire: not a difference
			}
			ferr := http.NewResponseController(w).Flush()
			switch {
			case mode == "no-trailer-when-controller-cannot-flush" && ferr != nil:
				return
			case mode == "two-trailers-unless-flusher" && !isFlusher:
				w.Write(trailer(&httpgrpc.HttpTrailer{Message: "OK"}))
			case mode == "panic-unless-flusher":
				w.(http.Flusher).Flush()
			}
			w.Write(trailer(&httpgrpc.HttpTrailer{Message: "OK"}))
		}
		plain, dec := http.NewServeMux(), http.NewServeMux()
		plain.HandleFunc("/t.S/BD", h)
		decoratingMux(dec)("/t.S/BD", h)
		e.h, e.hDec = plain, dec
		return e
	}
	rq := func(wv *writerVal) *request {
		return &request{Method: "POST", Path: "/t.S/BD", CT: ctStream, CTPresent: true, Body: bodies[indexOfBody("frame1")].B, W: wv}
	}
	for _, mode := range []string{"well-behaved", "no-trailer-when-controller-cannot-flush", "two-trailers-unless-flusher", "header-when-flusher", "late-header-when-flusher", "panic-unless-flusher"} {
		for wi := range writers {
			wv := &writers[wi]
			r := checkRequest(toy(mode), rq(wv))
			want := ""
			switch mode {
			case "no-trailer-when-controller-cannot-flush":
				if wv.Wrap && !wv.Caps.controller() {
					want = "stream-reply-malformed"
				}
			case "two-trailers-unless-flusher":
				if wv.Wrap && !wv.Caps.flusher() {
					want = "stream-reply-malformed"
				}
			case "header-when-flusher":
				if wv.Wrap && !wv.Caps.flusher() {
					want = "reply-differs-by-writer"
				}
			case "panic-unless-flusher":
				if wv.Wrap && !wv.Caps.flusher() {
					want = "panic"
				}
			}
			got := ""
			if len(r.Findings) > 0 {
				got = r.Findings[0].Clause
			}
			if got != want || len(r.Findings) > 1 {
				bad("toy handler %q with writer %s judged %q (%d findings), want %q", mode, wv.Name, got, len(r.Findings), want)
			}
			if wv.Wrap && (!r.Obs.Probe.Made || r.Obs.Probe.Calls == 0) {
				bad("toy handler %q: the wrapper of writer %s was not handed to the handler", mode, wv.Name)
			}
			if !wv.Wrap && r.Obs.Probe.Made {
				bad("toy handler %q: writer %s must not wrap", mode, wv.Name)
			}
		}
	}
	return errs
}
