package main

import (
	"bufio"
	"bytes"
	"fmt"
	"io"
	"net/http"
	"strconv"
	"strings"
)

// ---- the delivery axis ------------------------------------------------------
//
// A request body is a sequence of bytes; how the transport hands it to the
// handler is not part of the message:
//
//	delivery := announce x reader
//
//	announce: how (whether) the length of the body is known before it is read
//	  length    r.ContentLength == len(body)              (Content-Length header)
//	  chunked   r.ContentLength == -1, TransferEncoding chunked, HTTP/1.1
//	            (any client whose body is not a byte slice: a pipe, a streaming proxy)
//	  h2        r.ContentLength == -1, HTTP/2.0, no TransferEncoding
//	            (HTTP/2 DATA frames without a content-length header)
//	reader: how r.Body.Read hands the bytes out (every one a legal io.Reader)
//	  whole     everything that fits the caller's buffer, then (0, io.EOF)
//	  1byte     one byte per call, then (0, io.EOF)
//	  data+eof  everything that fits, the last bytes together with io.EOF
//	            (what net/http's own body readers do at the end of a body)
//
// plus three deliveries whose ContentLength, TransferEncoding and Body are what
// net/http itself (http.ReadRequest) makes of the literal bytes of an HTTP/1.1
// message carrying the body with a Content-Length header, as one chunk, and as
// one-byte chunks.
//
// The reference function never looks at the delivery: the verdict demanded for
// a request is the one demanded for its method, path, headers and body bytes.
// Deliveries in which the transport itself fails (body shorter than the
// announced length, malformed chunk framing, a connection that breaks) are not
// in the grammar: there the handler gets a read error, and the statement
// promises nothing about requests that never arrived.

type delivVal struct {
	Name     string
	Announce string   // "length", "chunked", "h2"
	Reader   string   // "whole", "1byte", "data+eof", "wire", "wire-1byte-chunks"
	Simpler  []string // deliveries that differ in one component towards the plain one, tried when minimizing
}

var delivs = []delivVal{
	{Name: "length", Announce: "length", Reader: "whole"},
	{Name: "chunked", Announce: "chunked", Reader: "whole"},
	{Name: "h2", Announce: "h2", Reader: "whole", Simpler: []string{"chunked"}},
	{Name: "length/1byte", Announce: "length", Reader: "1byte"},
	{Name: "chunked/1byte", Announce: "chunked", Reader: "1byte", Simpler: []string{"chunked", "length/1byte"}},
	{Name: "h2/1byte", Announce: "h2", Reader: "1byte", Simpler: []string{"h2", "chunked/1byte", "length/1byte"}},
	{Name: "length/data+eof", Announce: "length", Reader: "data+eof"},
	{Name: "chunked/data+eof", Announce: "chunked", Reader: "data+eof", Simpler: []string{"chunked", "length/data+eof"}},
	{Name: "h2/data+eof", Announce: "h2", Reader: "data+eof", Simpler: []string{"h2", "chunked/data+eof", "length/data+eof"}},
	{Name: "wire:length", Announce: "length", Reader: "wire", Simpler: []string{"length/data+eof"}},
	{Name: "wire:chunked", Announce: "chunked", Reader: "wire", Simpler: []string{"chunked", "chunked/data+eof"}},
	{Name: "wire:chunked-1byte-chunks", Announce: "chunked", Reader: "wire-1byte-chunks", Simpler: []string{"wire:chunked", "chunked/1byte", "chunked"}},
}

func delivByName(n string) *delivVal {
	for i := range delivs {
		if delivs[i].Name == n {
			return &delivs[i]
		}
	}
	return nil
}

func indexOfDeliv(n string) int {
	for i := range delivs {
		if delivs[i].Name == n {
			return i
		}
	}
	panic("no delivery " + n)
}

// oneByteReader hands out one byte per Read.
type oneByteReader struct{ r io.Reader }

func (o oneByteReader) Read(p []byte) (int, error) {
	if len(p) == 0 {
		return 0, nil
	}
	return o.r.Read(p[:1])
}

// dataEOFReader returns io.EOF together with the last bytes.
type dataEOFReader struct{ r *bytes.Reader }

func (d dataEOFReader) Read(p []byte) (int, error) {
	n, err := d.r.Read(p)
	if err == nil && d.r.Len() == 0 {
		err = io.EOF
	}
	return n, err
}

// wireMessage: the literal HTTP/1.1 message that carries body the way the
// delivery says (only the framing matters: request line and Host are fixed).
func (d *delivVal) wireMessage(body []byte) []byte {
	var b bytes.Buffer
	b.WriteString("POST /x HTTP/1.1\r\nHost: example.test\r\n")
	switch {
	case d.Announce == "length":
		fmt.Fprintf(&b, "Content-Length: %d\r\n\r\n", len(body))
		b.Write(body)
	default:
		b.WriteString("Transfer-Encoding: chunked\r\n\r\n")
		size := len(body)
		if d.Reader == "wire-1byte-chunks" {
			size = 1
		}
		for i := 0; i < len(body); i += size {
			part := body[i:min(i+size, len(body))]
			fmt.Fprintf(&b, "%x\r\n", len(part))
			b.Write(part)
			b.WriteString("\r\n")
		}
		b.WriteString("0\r\n\r\n")
	}
	return b.Bytes()
}

// apply sets the fields of r through which a handler can learn about the body.
func (d *delivVal) apply(r *http.Request, body []byte) {
	if strings.HasPrefix(d.Reader, "wire") {
		parsed, err := http.ReadRequest(bufio.NewReader(bytes.NewReader(d.wireMessage(body))))
		if err != nil {
			panic("delivery " + d.Name + ": net/http does not parse the wire message: " + err.Error())
		}
		r.ContentLength, r.TransferEncoding, r.Body = parsed.ContentLength, parsed.TransferEncoding, parsed.Body
		if d.Announce == "length" {
			r.Header["Content-Length"] = []string{strconv.Itoa(len(body))}
		}
		return
	}
	switch d.Announce {
	case "length":
		r.ContentLength = int64(len(body))
	case "chunked":
		r.ContentLength, r.TransferEncoding = -1, []string{"chunked"}
	case "h2":
		r.ContentLength, r.Proto, r.ProtoMajor, r.ProtoMinor = -1, "HTTP/2.0", 2, 0
	}
	switch d.Reader {
	case "whole":
		r.Body = io.NopCloser(bytes.NewReader(body))
	case "1byte":
		r.Body = io.NopCloser(oneByteReader{bytes.NewReader(body)})
	case "data+eof":
		r.Body = io.NopCloser(dataEOFReader{bytes.NewReader(body)})
	}
}

// selfCheckDeliveries: every delivery hands over exactly the body bytes, in the
// way its name says, and the synthetic announcements are what net/http makes of
// the corresponding wire messages.
func selfCheckDeliveries() []error {
	var errs []error
	bad := func(format string, a ...interface{}) { errs = append(errs, fmt.Errorf("self-check: "+format, a...)) }
	if delivs[0].Name != "length" || delivs[0].Reader != "whole" {
		bad("the first delivery must be the plain one")
	}
	names := map[string]bool{}
	for _, d := range delivs {
		if names[d.Name] {
			bad("delivery %s occurs twice", d.Name)
		}
		names[d.Name] = true
	}
	mk := func(d *delivVal, body []byte) *http.Request {
		r := &http.Request{Method: "POST", Proto: "HTTP/1.1", ProtoMajor: 1, ProtoMinor: 1, Header: http.Header{}}
		d.apply(r, body)
		return r
	}
	for i := range delivs {
		d := &delivs[i]
		for _, sn := range d.Simpler {
			if !names[sn] {
				bad("delivery %s: simpler delivery %s is not in the grammar", d.Name, sn)
			}
		}
		for _, b := range bodies {
			r := mk(d, b.B)
			wantLen := int64(-1)
			if d.Announce == "length" {
				wantLen = int64(len(b.B))
			}
			if r.ContentLength != wantLen {
				bad("delivery %s, body %s: ContentLength %d, want %d", d.Name, b.Name, r.ContentLength, wantLen)
			}
			if chunked := len(r.TransferEncoding) == 1 && r.TransferEncoding[0] == "chunked"; chunked != (d.Announce == "chunked") {
				bad("delivery %s, body %s: TransferEncoding %v", d.Name, b.Name, r.TransferEncoding)
			}
			if (r.ProtoMajor == 2) != (d.Announce == "h2") {
				bad("delivery %s: protocol %s", d.Name, r.Proto)
			}
			// read with a large buffer, call by call
			var got []byte
			buf := make([]byte, 1<<20)
			calls, maxN, eofWithData := 0, 0, false
			for {
				n, err := r.Body.Read(buf)
				calls++
				got = append(got, buf[:n]...)
				if n > maxN {
					maxN = n
				}
				if err == io.EOF {
					eofWithData = n > 0
					break
				}
				if err != nil || calls > len(b.B)+4 {
					bad("delivery %s, body %s: read error %v after %d calls", d.Name, b.Name, err, calls)
					break
				}
			}
			if n, err := r.Body.Read(buf); n != 0 || err != io.EOF {
				bad("delivery %s, body %s: Read after the end returns (%d, %v)", d.Name, b.Name, n, err)
			}
			if !bytes.Equal(got, b.B) {
				bad("delivery %s does not hand over body %s unchanged (%d bytes instead of %d)", d.Name, b.Name, len(got), len(b.B))
			}
			if len(b.B) < 2 {
				continue
			}
			switch d.Reader {
			case "whole":
				if calls != 2 || eofWithData {
					bad("delivery %s, body %s: %d Read calls, EOF with data: %v", d.Name, b.Name, calls, eofWithData)
				}
			case "1byte":
				if maxN != 1 {
					bad("delivery %s, body %s: a Read call returned %d bytes", d.Name, b.Name, maxN)
				}
			case "data+eof":
				if calls != 1 || !eofWithData {
					bad("delivery %s, body %s: %d Read calls, EOF with data: %v", d.Name, b.Name, calls, eofWithData)
				}
			}
		}
	}
	return errs
}
