package main

import (
	"encoding/base64"
	"encoding/binary"
	"fmt"
	"net/http"
	"regexp"
	"sort"
	"strconv"
	"strings"
	"unicode/utf8"

	gt "github.com/fullstorydev/grpchan/grpchantesting"
	"github.com/fullstorydev/grpchan/httpgrpc"
	"google.golang.org/protobuf/encoding/protojson"
	"google.golang.org/protobuf/proto"
	"google.golang.org/protobuf/types/known/anypb"
)

// ---- reference model: a function of the literal request -------------------

type tri int

const (
	no tri = iota
	yes
	either
)

// content type: which supported type does the string name, and how exactly
func refContentType(ct string, present bool) (base string, exact bool) {
	if !present {
		return "", false
	}
	switch ct {
	case ctUnary, ctStream, ctJSON:
		return ct, true
	}
	main := ct
	if i := strings.IndexByte(main, ';'); i >= 0 {
		main = main[:i]
	}
	main = strings.ToLower(strings.TrimSpace(main))
	switch main {
	case ctUnary, ctStream, ctJSON:
		return main, false // same type written differently (case, parameters): server may accept or refuse
	}
	return "", false
}

// ctSupported: must the content type be accepted (yes), refused (no), or is
// either acceptable, for a method of the given kind.
func ctSupported(kind, ct string, present bool) (tri, string) {
	base, exact := refContentType(ct, present)
	ok := false
	if kind == "U" {
		ok = base == ctUnary || base == ctJSON
	} else {
		ok = base == ctStream
	}
	if !ok {
		return no, base
	}
	if exact {
		return yes, base
	}
	return either, base
}

var timeoutRE = regexp.MustCompile(`^[0-9]{1,8}[HMSmun]$`)

func b64ok(enc *base64.Encoding, s string) bool { _, err := enc.DecodeString(s); return err == nil }

// headersDecode: yes = every -bin value is padded base64 and GRPC-Timeout (if
// any) follows the gRPC wire grammar; no = some -bin value is not base64 at
// all; either = only deviations the statement does not settle (unpadded
// base64, GRPC-Timeout that does not follow the grammar).
func headersDecode(h []hv) tri {
	res := yes
	for _, kv := range h {
		k := strings.ToLower(kv.K)
		if strings.HasSuffix(k, "-bin") {
			switch {
			case b64ok(base64.StdEncoding, kv.V) && b64ok(base64.URLEncoding, kv.V):
			case b64ok(base64.StdEncoding, kv.V) || b64ok(base64.URLEncoding, kv.V) || b64ok(base64.RawStdEncoding, kv.V) || b64ok(base64.RawURLEncoding, kv.V):
				if res == yes {
					res = either
				}
			default:
				res = no
			}
		}
		if k == "grpc-timeout" && !timeoutRE.MatchString(kv.V) && res == yes {
			res = either
		}
	}
	return res
}

func canonicalPath(p string) bool {
	if !strings.HasPrefix(p, "/") || strings.Contains(p, "//") {
		return false
	}
	for _, seg := range strings.Split(p, "/") {
		if seg == "." || seg == ".." {
			return false
		}
	}
	return true
}

// decodeRef: is body a message under the codec; when yes also the message(s)
// the handler may have seen (strict and lenient JSON decoding can differ).
func decodeRef(codec string, body []byte) (tri, *gt.Message) {
	m := new(gt.Message)
	if codec == ctJSON {
		strictErr := protojson.Unmarshal(body, m)
		m2 := new(gt.Message)
		lenientErr := protojson.UnmarshalOptions{DiscardUnknown: true}.Unmarshal(body, m2)
		switch {
		case strictErr == nil && lenientErr == nil:
			return yes, m
		case strictErr != nil && lenientErr != nil:
			return no, nil
		default:
			return either, m2
		}
	}
	if err := proto.Unmarshal(body, m); err != nil {
		return no, nil
	}
	return yes, m
}

const refMaxMessage = 100 * 1024 * 1024

// stream outcome per reference: the handler's view of the request body
type streamRef struct {
	OK       bool          // trailer must say OK
	Code     int32         // when !OK: 0 = any non-OK code, else exactly this one
	Msg      string        // when Code != 0: the handler's status message
	Details  []*anypb.Any  // when Code != 0
	Loose    bool          // when Code != 0: message and details are not prescribed (a wrapped status)
	Outcome  bool          // the failure is the one an outcome directive asked for
	Data     []*gt.Message // the data frames the handler sends before it returns
	Messages int           // well-formed request messages before the end / the fault
}

func refStatusMsg(m *gt.Message) string {
	if len(m.Payload) == 0 {
		return "fail"
	}
	return "fail: " + string(m.Payload)
}

func refStream(kind string, body []byte) streamRef {
	// frames, sequentially, as the handler consumes them
	var msgs []*gt.Message
	malformed := false
	rest := body
	for len(rest) > 0 {
		if len(rest) < 4 {
			malformed = true
			break
		}
		sz := int32(binary.BigEndian.Uint32(rest))
		if sz < 0 || sz > refMaxMessage || int(sz) > len(rest)-4 {
			malformed = true
			break
		}
		m := new(gt.Message)
		if proto.Unmarshal(rest[4:4+sz], m) != nil {
			malformed = true
			break
		}
		msgs = append(msgs, m)
		rest = rest[4+sz:]
		if m.Code != 0 && kind != "SS" {
			// the handler stops at the first message asking for an error; with
			// Count > 0 it first answers with what it has received
			out := streamRef{Code: m.Code, Msg: refStatusMsg(m), Details: m.ErrorDetails, Messages: len(msgs)}
			if m.Count > 0 {
				if kind == "CS" {
					sum := &gt.Message{}
					for _, x := range msgs[:len(msgs)-1] {
						sum.Count++
						sum.Payload = append(sum.Payload, x.Payload...)
					}
					out.Data = []*gt.Message{sum}
				} else {
					for _, x := range msgs {
						out.Data = append(out.Data, &gt.Message{Payload: x.Payload, Count: x.Count + 1})
					}
				}
			}
			return out
		}
	}
	switch kind {
	case "SS":
		// exactly one request message
		if len(msgs) != 1 || malformed {
			return streamRef{Messages: len(msgs)}
		}
		m := msgs[0]
		out := streamRef{OK: true, Messages: 1}
		for i := int32(0); i < m.Count && i < 8; i++ {
			out.Data = append(out.Data, &gt.Message{Payload: m.Payload, Count: i})
		}
		if m.Code != 0 {
			out.OK, out.Code, out.Msg, out.Details = false, m.Code, refStatusMsg(m), m.ErrorDetails
		}
		return out
	case "CS":
		if malformed {
			return streamRef{Messages: len(msgs)}
		}
		sum := &gt.Message{}
		for _, m := range msgs {
			sum.Count++
			sum.Payload = append(sum.Payload, m.Payload...)
		}
		return streamRef{OK: true, Data: []*gt.Message{sum}, Messages: len(msgs)}
	default: // BD
		if malformed {
			return streamRef{Messages: len(msgs)}
		}
		out := streamRef{OK: true, Messages: len(msgs)}
		for _, m := range msgs {
			out.Data = append(out.Data, &gt.Message{Payload: m.Payload, Count: m.Count + 1})
		}
		return out
	}
}

// ---- reading replies the documented way -----------------------------------

type unaryReply struct {
	HTTP       int
	Code       int32 // as the caller derives it
	HasHeader  bool
	Msg        string
	Details    []*anypb.Any
	DetailsEnc string // "none" | "binary" | "codec" | "undecodable"
}

func readUnaryStatus(o *observation, codec string) unaryReply {
	r := unaryReply{HTTP: o.Status, DetailsEnc: "none"}
	parts := strings.SplitN(o.Header.Get("X-GRPC-Status"), ":", 2)
	if parts[0] != "" {
		if c, err := strconv.ParseInt(parts[0], 10, 32); err == nil {
			r.Code, r.HasHeader = int32(c), true
		}
		if len(parts) > 1 {
			r.Msg = parts[1]
		}
	}
	if !r.HasHeader {
		switch {
		case o.Status >= 200 && o.Status < 300:
			r.Code = 0
		case o.Status == 400:
			r.Code = 3
		default:
			r.Code = 2
		}
	}
	for _, d := range o.Header[http.CanonicalHeaderKey("X-GRPC-Details")] {
		b, err := base64.RawURLEncoding.DecodeString(d)
		if err != nil {
			r.DetailsEnc = "undecodable"
			continue
		}
		a := new(anypb.Any)
		if proto.Unmarshal(b, a) == nil && a.TypeUrl != "" {
			r.Details = append(r.Details, a)
			if r.DetailsEnc == "none" {
				r.DetailsEnc = "binary"
			}
			continue
		}
		a = new(anypb.Any)
		if codec == ctJSON && protojson.Unmarshal(b, a) == nil {
			// not the documented encoding (base64 of a binary Any) but the request's own codec: tolerated, noted
			r.Details = append(r.Details, a)
			r.DetailsEnc = "codec"
			continue
		}
		r.DetailsEnc = "undecodable"
	}
	return r
}

func anysEqual(a, b []*anypb.Any) bool {
	if len(a) != len(b) {
		return false
	}
	for i := range a {
		if !proto.Equal(a[i], b[i]) {
			return false
		}
	}
	return true
}

type streamReply struct {
	Data      [][]byte
	Trailers  int
	Trailer   *httpgrpc.HttpTrailer
	Malformed string // "" when data* trailer
}

func readStreamReply(body []byte) streamReply {
	var r streamReply
	rest := body
	for len(rest) > 0 {
		if r.Trailers > 0 {
			r.Malformed = fmt.Sprintf("%d byte(s) after the trailer frame", len(rest))
			// keep counting frames for the message
		}
		if len(rest) < 4 {
			r.Malformed = "partial size prefix at the end"
			return r
		}
		sz := int32(binary.BigEndian.Uint32(rest))
		n := int(sz)
		if sz < 0 {
			n = -n
		}
		if n > len(rest)-4 || n < 0 {
			r.Malformed = "frame longer than the rest of the reply"
			return r
		}
		payload := rest[4 : 4+n]
		rest = rest[4+n:]
		if sz < 0 {
			r.Trailers++
			if r.Trailers == 1 {
				tr := new(httpgrpc.HttpTrailer)
				if err := proto.Unmarshal(payload, tr); err != nil {
					r.Malformed = "trailer frame is not an HttpTrailer: " + err.Error()
				} else {
					r.Trailer = tr
				}
			}
		} else {
			if r.Trailers == 0 {
				r.Data = append(r.Data, payload)
			}
		}
	}
	if r.Malformed == "" && r.Trailers == 0 {
		r.Malformed = "no trailer frame"
	}
	if r.Malformed == "" && r.Trailers > 1 {
		r.Malformed = "more than one trailer frame"
	}
	return r
}

func (r *streamReply) shape() string {
	return fmt.Sprintf("data=%d,trailers=%d", len(r.Data), r.Trailers)
}

// ---- the check of one request ---------------------------------------------

type finding struct {
	Clause string // stable identifier of the broken clause
	Obs    string // short stable observation that goes into the fingerprint
	What   string
}

type result struct {
	Findings []finding
	Class    string // coverage class of the case
	Notes    []string
	Obs      *observation
}

func (r *result) add(clause, obs, what string) {
	r.Findings = append(r.Findings, finding{clause, obs, what})
}

func allowHasPOST(h http.Header) bool {
	for _, v := range h["Allow"] {
		for _, t := range strings.Split(v, ",") {
			if strings.TrimSpace(t) == "POST" {
				return true
			}
		}
	}
	return false
}

func setStr(m map[int]bool) string {
	var ks []int
	for k := range m {
		ks = append(ks, k)
	}
	sort.Ints(ks)
	var s []string
	for _, k := range ks {
		s = append(s, strconv.Itoa(k))
	}
	return strings.Join(s, "/")
}

// checkRequest serves the request and judges the reply. A request with several
// distinct -bin keys is served orderRepeats times, with the header map filled
// in every order of its keys in turn (http.Header is a map and Go randomises
// map iteration: what a server does with such a request may differ from run to
// run); the first run judged wrong is returned, otherwise the first run.
//
// A request served behind a ResponseWriter wrapper (rq.W, writer.go) is judged
// by the same reference; when that finds nothing, its reply must moreover be
// the one the same request gets on the plain recorder (not compared for requests
// with several -bin keys: what a server does with those may differ from run to
// run by itself, see above).
func checkRequest(e *env, rq *request) *result {
	first := judge(e.reg, rq, e.do(rq))
	if rq.W != nil && len(first.Findings) == 0 && !orderDependent(rq.Hdr) {
		compareWithBaseline(first, e.baseline(rq), first.Obs, rq.W)
	}
	if len(first.Findings) > 0 || !orderDependent(rq.Hdr) {
		return first
	}
	for ord := 1; ord < orderRepeats; ord++ {
		if r := judge(e.reg, rq, e.doOrd(rq, ord)); len(r.Findings) > 0 {
			return r
		}
	}
	return first
}

// judge compares what was observed for one request with the reference; reg maps
// the registered full paths to their method kind. It is a function of the
// request and the observation only, so it applies unchanged to a request that
// was served alone, after other requests, or while other requests were in
// progress on the same server.
func judge(reg map[string]string, rq *request, o *observation) *result {
	res := &result{Obs: o}
	if o.Panic != "" {
		res.Class = "panic"
		res.add("panic", "", "the server panicked: "+o.Panic)
		return res
	}
	if o.Cnt.handler > 1 || o.Cnt.unaryInt > 1 || o.Cnt.streamInt > 1 {
		res.add("ran-more-than-once", fmt.Sprintf("handler=%d", o.Cnt.handler), "application code ran more than once for one request: "+o.short())
	}
	kind, registered := reg[rq.Path]
	if !registered {
		res.Class = "unknown-path"
		redirect := o.Status >= 300 && o.Status < 400 && o.Header.Get("Location") != "" && !canonicalPath(rq.Path)
		if o.Cnt.ran() {
			res.add("unknown-path-dispatched", fmt.Sprintf("got=%d", o.Status), "application code ran for a path that is not registered: "+o.short())
		} else if o.Status != 404 && !redirect {
			res.add("unknown-path-status", fmt.Sprintf("got=%d", o.Status), "unregistered path answered with something other than 404 (or the mux's redirect of a non-canonical path): "+o.short())
		}
		return res
	}

	// gatekeeping
	must := map[int]bool{} // reasons that oblige a refusal
	may := map[int]bool{}  // refusals the statement leaves open
	if rq.Method != "POST" {
		must[405] = true
	}
	ctOK, base := ctSupported(kind, rq.CT, rq.CTPresent)
	switch ctOK {
	case no:
		must[415] = true
	case either:
		may[415] = true
	}
	switch headersDecode(rq.Hdr) {
	case no:
		must[400] = true
	case either:
		may[400] = true
	}
	allowed := map[int]bool{}
	for k := range must {
		allowed[k] = true
	}
	for k := range may {
		allowed[k] = true
	}
	if len(must) > 0 {
		res.Class = "refused:" + setStr(must)
		if o.Cnt.ran() {
			res.add("invalid-request-dispatched", fmt.Sprintf("want=%s,got=%d", setStr(must), o.Status), fmt.Sprintf("application code ran for a request that must be refused with %s: %s", setStr(allowed), o.short()))
			return res
		}
		if !allowed[o.Status] {
			res.add("wrong-refusal-status", fmt.Sprintf("want=%s,got=%d", setStr(allowed), o.Status), fmt.Sprintf("request must be refused with %s: %s", setStr(allowed), o.short()))
		} else if o.Status == 405 && !allowHasPOST(o.Header) {
			res.add("allow-missing", "", "405 without an Allow header naming POST: "+o.short())
		}
		return res
	}
	if !o.Cnt.ran() {
		// refused although nothing obliges it
		if len(may) > 0 && may[o.Status] {
			res.Class = "refused-optional:" + strconv.Itoa(o.Status)
			return res
		}
		res.Class = "valid-not-dispatched"
		res.add("valid-request-refused", fmt.Sprintf("got=%d", o.Status), "a POST with a supported content type and decodable headers was not dispatched: "+o.short())
		return res
	}
	if o.Cnt.handler == 0 {
		res.add("interceptor-without-handler", "", "interceptor ran but the handler did not: "+o.short())
		return res
	}

	// dispatched
	spec := specOfHeaders(rq.Hdr)
	if kind == "U" {
		checkUnary(res, o, base, rq.Body, spec)
	} else {
		checkStream(res, o, kind, rq.Hdr, rq.Body, spec)
	}
	return res
}

// checkUnaryOutcome: the unary handler failed the way an outcome directive asked for.
func checkUnaryOutcome(res *result, o *observation, codec string, spec *outcomeSpec) {
	res.Class = "unary-outcome-error:" + codecName(codec)
	st := readUnaryStatus(o, codec)
	ok2xx := o.Status >= 200 && o.Status < 300
	code, exact := spec.expectation()
	switch {
	case st.Code == 0 || ok2xx:
		res.add("handler-failed-reported-ok", fmt.Sprintf("code=%d,http=%d", st.Code, o.Status),
			fmt.Sprintf("the handler failed (outcome %s) but the caller does not get a non-OK status: %s", spec, o.short()))
	case code != 0 && st.Code != code, exact && st.HasHeader && st.Msg != spec.Msg:
		res.add("unary-error-status", fmt.Sprintf("want=%d,code=%d,http=%d", code, st.Code, o.Status),
			fmt.Sprintf("handler returned code %d %q (outcome %s) but the reply says code=%d msg=%q: %s", code, spec.Msg, spec, st.Code, st.Msg, o.short()))
	case exact && !anysEqual(st.Details, spec.details()):
		res.add("unary-error-details", fmt.Sprintf("encoding=%s,got=%d,want=%d", st.DetailsEnc, len(st.Details), spec.Details),
			fmt.Sprintf("error details of the handler's status are not recoverable from X-GRPC-Details (%s): %s", st.DetailsEnc, o.short()))
	case exact && st.DetailsEnc == "codec":
		res.Notes = append(res.Notes, "details-in-request-codec")
	}
}

func codecName(base string) string {
	if base == ctJSON {
		return "json"
	}
	return "pb"
}

func checkUnary(res *result, o *observation, codec string, body []byte, spec *outcomeSpec) {
	if spec != nil && spec.At == "start" && spec.failed() {
		checkUnaryOutcome(res, o, codec, spec) // fails before it looks at the request
		return
	}
	dec, m := decodeRef(codec, body)
	st := readUnaryStatus(o, codec)
	ok2xx := o.Status >= 200 && o.Status < 300
	if dec == either {
		// strict and lenient JSON disagree: both readings are fine
		if st.Code == 3 && !ok2xx {
			res.Class = "unary-undecodable:" + codecName(codec)
			return
		}
		dec = yes
	}
	if dec == no {
		res.Class = "unary-undecodable:" + codecName(codec)
		if st.Code != 3 || ok2xx {
			res.add("unary-undecodable-not-invalid-argument", fmt.Sprintf("code=%d,http=%d", st.Code, o.Status),
				fmt.Sprintf("request message does not decode as %s but the caller does not get InvalidArgument: %s", codecName(codec), o.short()))
		}
		return
	}
	if m.Code != 0 {
		res.Class = "unary-error:" + codecName(codec)
		if st.Code != m.Code || ok2xx || (st.HasHeader && st.Msg != "fail") {
			res.add("unary-error-status", fmt.Sprintf("want=%d,code=%d,http=%d", m.Code, st.Code, o.Status),
				fmt.Sprintf("handler returned code %d \"fail\" but the reply says code=%d msg=%q: %s", m.Code, st.Code, st.Msg, o.short()))
			return
		}
		if !anysEqual(st.Details, m.ErrorDetails) {
			res.add("unary-error-details", fmt.Sprintf("encoding=%s,got=%d,want=%d", st.DetailsEnc, len(st.Details), len(m.ErrorDetails)),
				fmt.Sprintf("error details of the handler's status are not recoverable from X-GRPC-Details (%s): %s", st.DetailsEnc, o.short()))
		} else if st.DetailsEnc == "codec" {
			res.Notes = append(res.Notes, "details-in-request-codec")
		}
		return
	}
	if spec != nil && spec.At == "end" && spec.failed() {
		checkUnaryOutcome(res, o, codec, spec)
		return
	}
	res.Class = "unary-ok:" + codecName(codec)
	if !ok2xx || st.Code != 0 {
		res.add("unary-ok-status", fmt.Sprintf("code=%d,http=%d", st.Code, o.Status), "handler succeeded but the reply is not a success: "+o.short())
		return
	}
	want := &gt.Message{Payload: m.Payload, Count: m.Count + 1}
	got := new(gt.Message)
	var err error
	if codec == ctJSON {
		err = protojson.Unmarshal(o.Body, got)
	} else {
		err = proto.Unmarshal(o.Body, got)
	}
	if err != nil {
		res.add("unary-ok-body-malformed", "", fmt.Sprintf("response body does not decode as %s (%v): %s", codecName(codec), err, o.short()))
		return
	}
	if !proto.Equal(got, want) {
		res.add("unary-ok-body-different", "", fmt.Sprintf("response message is %v, handler returned %v: %s", got, want, o.short()))
	}
	if cl := o.Header.Get("Content-Length"); cl != "" && cl != strconv.Itoa(len(o.Body)) {
		res.add("unary-ok-content-length", "", fmt.Sprintf("Content-Length %s announced but the body has %d bytes: %s", cl, len(o.Body), o.short()))
	}
	if b, _ := refContentType(o.Header.Get("Content-Type"), true); b != codec {
		res.add("unary-ok-content-type", "", fmt.Sprintf("response content type does not name the %s codec: %s", codecName(codec), o.short()))
	}
}

// trailerUnencodable: does the handler (which echoes the x-echo* request
// metadata into its trailer) set a trailer value that HttpTrailer cannot carry,
// i.e. one that is not valid UTF-8 (TrailerValues.values is a proto3 string)?
// Then reporting the call as failed (any non-OK code) is a correct answer; the
// reply must still be data frames followed by exactly one trailer frame.
func trailerUnencodable(h []hv) bool {
	for _, kv := range h {
		k := strings.ToLower(kv.K)
		if k != "x-echo" && k != "x-echo-bin" {
			continue
		}
		v := []byte(kv.V)
		if strings.HasSuffix(k, "-bin") {
			if b, err := base64.URLEncoding.DecodeString(kv.V); err == nil {
				v = b
			} else if b, err := base64.StdEncoding.DecodeString(kv.V); err == nil {
				v = b
			} else {
				continue // request is refused, nothing is echoed
			}
		}
		if !utf8.Valid(v) {
			return true
		}
	}
	return false
}

func checkStream(res *result, o *observation, kind string, hdr []hv, body []byte, spec *outcomeSpec) {
	ref := refStream(kind, body)
	if spec != nil && spec.failed() {
		code, exact := spec.expectation()
		switch {
		case spec.At == "start": // fails before reading or sending anything
			ref = streamRef{Code: code, Msg: spec.Msg, Details: spec.details(), Loose: !exact, Outcome: true}
		case ref.OK: // has read and answered everything, then fails instead of returning nil
			ref.OK, ref.Code, ref.Msg, ref.Details, ref.Loose, ref.Outcome = false, code, spec.Msg, spec.details(), !exact, true
		}
	}
	rep := readStreamReply(o.Body)
	switch {
	case ref.Outcome:
		res.Class = "stream-outcome-error:" + kind
	case ref.OK:
		res.Class = "stream-ok:" + kind
	case ref.Code != 0:
		res.Class = "stream-error:" + kind
	default:
		res.Class = "stream-undecodable:" + kind
	}
	if rep.Malformed != "" {
		res.add("stream-reply-malformed", rep.shape(), fmt.Sprintf("streaming reply is not data frames followed by exactly one trailer frame (%s; %s): %s", rep.Malformed, rep.shape(), o.short()))
		return
	}
	if o.Status != 200 {
		res.add("stream-http-status", fmt.Sprintf("got=%d", o.Status), "streaming reply with a status other than 200: "+o.short())
	}
	tr := rep.Trailer
	// the data frames are what the handler sent, whatever the final status
	dataOK := func() bool {
		if len(rep.Data) != len(ref.Data) {
			res.add("stream-data", fmt.Sprintf("want=%d,got=%d", len(ref.Data), len(rep.Data)), "number of data frames differs from the number of messages the handler sent: "+o.short())
			return false
		}
		for i, d := range rep.Data {
			got := new(gt.Message)
			if err := proto.Unmarshal(d, got); err != nil || !proto.Equal(got, ref.Data[i]) {
				res.add("stream-data", fmt.Sprintf("frame=%d", i), fmt.Sprintf("data frame %d is not the message the handler sent: %s", i, o.short()))
				return false
			}
		}
		return true
	}
	// The handler's outcome cannot be carried by HttpTrailer when a trailer
	// metadata value or the status message is not valid UTF-8 (proto3 string
	// fields): then any non-OK status is a correct answer.
	uncarriable := trailerUnencodable(hdr) || (ref.Code != 0 && !utf8.ValidString(ref.Msg))
	if tr.Code != 0 && uncarriable {
		res.Notes = append(res.Notes, "outcome-unencodable-reported-as-error")
		dataOK()
		return
	}
	if !ref.OK {
		if tr.Code == 0 && ref.Outcome {
			res.add("handler-failed-reported-ok", rep.shape(),
				fmt.Sprintf("the handler failed (outcome %s) but the trailer says OK (msg=%q): %s", spec, tr.Message, o.short()))
			return
		}
		if tr.Code == 0 {
			res.add("stream-bad-request-ok", fmt.Sprintf("msgs=%d,%s", ref.Messages, rep.shape()),
				fmt.Sprintf("the handler failed (request stream malformed/undecodable after %d message(s), wrong number of messages, or an error asked for) but the trailer says OK: %s", ref.Messages, o.short()))
			return
		}
		if ref.Code != 0 && (tr.Code != ref.Code || (!ref.Loose && (tr.Message != ref.Msg || !anysEqual(tr.Details, ref.Details)))) {
			res.add("stream-error-status", fmt.Sprintf("want=%d,got=%d", ref.Code, tr.Code),
				fmt.Sprintf("handler returned code %d %q with %d details but the trailer says code=%d msg=%q details=%d: %s", ref.Code, ref.Msg, len(ref.Details), tr.Code, tr.Message, len(tr.Details), o.short()))
			return
		}
		dataOK()
		return
	}
	if tr.Code != 0 {
		res.add("stream-ok-status", fmt.Sprintf("got=%d", tr.Code), fmt.Sprintf("handler succeeded but the trailer says code=%d msg=%q: %s", tr.Code, tr.Message, o.short()))
		return
	}
	dataOK()
}
