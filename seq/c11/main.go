// C11: the gRPC-over-HTTP server runs handlers only for valid requests and
// always answers well-formed.
//
// Bounded-exhaustive: every request of a finite grammar
//
//	cfg x path x method x Content-Type x header set x body x ResponseWriter x delivery
//
// (delivery: how the transport announces the body's length and hands its bytes
// to the handler, delivery.go; body: hand-written ones and a generated family
// over the number a frame's size preface announces, preface.go) is served by the real handler tree (httpgrpc.NewServer, and an http.ServeMux
// filled by httpgrpc.HandleServices; with and without a base path and
// interceptors) on an httptest recorder; the reply and the application-code
// counters are compared with a reference function of the request (oracle.go).
// A second enumeration compares JSON unary requests with their protobuf
// encoding (equiv.go). The header-set axis also carries two generated
// families (outcome.go): directives that make the handler fail with error
// values of every shape (own GRPCStatus() method, code OK, empty message, ...),
// and every short sequence of valid/undecodable values under one or several
// -bin keys.
package main

import (
	"encoding/base64"
	"fmt"
	"net/http"
	"os"
	"runtime"
	"runtime/debug"
	"sort"
	"strings"
	"sync"
	"sync/atomic"
	"time"

	gt "github.com/fullstorydev/grpchan/grpchantesting"
	"github.com/fullstorydev/grpchan/httpgrpc"
	"google.golang.org/grpc/status"
	"google.golang.org/protobuf/proto"

	"verif/seq/common"
	"verif/vlib"
)

const prop = "C11"

type violRec struct {
	FP     string
	What   string
	Replay interface{}
}

type sample struct {
	Case     *Case  `json:"case"`
	Observed string `json:"observed"`
}

type jobResult struct {
	evals          int
	orderDependent int            // requests with several distinct -bin keys (served orderRepeats times)
	byWriter       map[string]int // requests per ResponseWriter (writer.go)
	wrapperUsed    map[string]int // ... of which library code made calls on the wrapper
	writerSamples  map[string]sample
	byDelivery     map[string]int // dispatched requests (handler ran) per body delivery and method kind (delivery.go)
	byPreface      map[string]int // dispatched requests with a generated body per streaming method kind and announced size (preface.go)
	classes        map[string]int
	notes          map[string]int
	nontrivial     int // distinct non-trivial tuples of this job (jobs enumerate disjoint sets of tuples)
	viol           []violRec
	samples        map[string]sample
}

type worker struct {
	envs     []*env
	bodyMemo map[bodyMemoKey]tuple // preface.go: where the walk from a generated body ended
}

func newWorker() *worker {
	w := &worker{}
	for i := range cfgs {
		w.envs = append(w.envs, newEnv(&cfgs[i]))
	}
	return w
}

func (w *worker) check(t tuple) (*result, *Case) {
	c := t.toCase()
	return checkRequest(w.envs[t[0]], c.request()), c
}

func kindOf(t tuple) string {
	n := paths[t[1]].Name
	for _, k := range kinds {
		if k == n {
			return k
		}
	}
	return ""
}

func baseOf(axis int, t tuple) int {
	k := kindOf(t)
	if k == "" {
		k = "U"
	}
	switch axis {
	case 3:
		return baseCT(k)
	case 5:
		return baseBody(k)
	}
	return 0
}

func findClause(r *result, clause string) *finding {
	for i := range r.Findings {
		if r.Findings[i].Clause == clause {
			return &r.Findings[i]
		}
	}
	return nil
}

// minimize resets, one axis at a time in a fixed order, every axis to its plain
// valid value as long as the same clause is still violated. The fingerprint is
// built from what remains, so that one cause met under many combinations
// collapses, while a cause that needs a particular value keeps that value.
func (w *worker) minimize(t tuple, clause string) (tuple, *result, *Case) {
	// the writer first: the plain recorder, else the same capabilities in front of
	// the tree instead of inside a decorating Mux (which frees the cfg axis)
	for _, wi := range []int{0, frontTwin(t[6])} {
		if wi < 0 || wi == t[6] {
			continue
		}
		t2 := t
		t2[6] = wi
		if r2, _ := w.check(t2); findClause(r2, clause) != nil {
			t = t2
			break
		}
	}
	for _, axis := range []int{0, 2, 3, 4, 5} {
		t2 := t
		t2[axis] = baseOf(axis, t)
		if t2 == t || !t2.valid() {
			continue
		}
		r2, _ := w.check(t2)
		if findClause(r2, clause) != nil {
			t = t2
		}
	}
	// the delivery: the plain one, else walk to deliveries that differ from the
	// plain one in fewer components while the clause persists
	if t[7] != 0 {
		t2 := t
		t2[7] = 0
		if r2, _ := w.check(t2); findClause(r2, clause) != nil {
			t = t2
		}
	}
	for changed := t[7] != 0; changed; {
		changed = false
		for _, name := range delivs[t[7]].Simpler {
			t2 := t
			t2[7] = indexOfDeliv(name)
			if r2, _ := w.check(t2); findClause(r2, clause) != nil {
				t, changed = t2, true
				break
			}
		}
	}
	// a generated header set that is needed: walk to simpler sets of its family
	// (one outcome parameter reset, one -bin value removed) while the clause persists
	for changed := true; changed; {
		changed = false
		for _, name := range hdrs[t[4]].Simpler {
			t2 := t
			t2[4] = indexOfHdr(name)
			if r2, _ := w.check(t2); findClause(r2, clause) != nil {
				t, changed = t2, true
				break
			}
		}
	}
	// a generated body that is needed: walk to simpler bodies of its family
	t = w.minimizeBody(t, clause)
	r, c := w.check(t)
	return t, r, c
}

func indexOfHdr(name string) int {
	for i := range hdrs {
		if hdrs[i].Name == name {
			return i
		}
	}
	panic("no header set " + name)
}

func fingerprint(t tuple, f *finding) string {
	parts := []string{prop, f.Clause, "target=" + paths[t[1]].Name}
	if t[0] != 0 {
		parts = append(parts, "cfg="+cfgs[t[0]].Name)
	}
	if t[2] != 0 {
		parts = append(parts, "method="+methods[t[2]])
	}
	if t[3] != baseOf(3, t) {
		parts = append(parts, "ct="+cts[t[3]].Name)
	}
	if t[4] != 0 {
		parts = append(parts, "hdr="+hdrs[t[4]].Name)
	}
	if t[5] != baseOf(5, t) {
		parts = append(parts, "body="+bodies[t[5]].Name)
	}
	if t[6] != 0 {
		parts = append(parts, "writer="+writers[t[6]].Name)
	}
	if t[7] != 0 {
		parts = append(parts, "delivery="+delivs[t[7]].Name)
	}
	if f.Obs != "" {
		parts = append(parts, f.Obs)
	}
	return strings.Join(parts, "|")
}

var progress int64

func (w *worker) runJob(gen func(func(tuple))) *jobResult {
	jr := &jobResult{classes: map[string]int{}, notes: map[string]int{}, samples: map[string]sample{},
		byWriter: map[string]int{}, wrapperUsed: map[string]int{}, writerSamples: map[string]sample{}, byDelivery: map[string]int{}, byPreface: map[string]int{}}
	nontrivial := map[tuple]struct{}{}
	seenRaw := map[string]bool{}
	gen(func(t tuple) {
		atomic.AddInt64(&progress, 1)
		r, c := w.check(t)
		jr.evals++
		jr.classes[r.Class]++
		for _, n := range r.Notes {
			jr.notes[n]++
		}
		// a request behind a wrapper only counts when library code did use the wrapper
		if r.Class != "unknown-path" && (!writers[t[6]].Wrap || r.Obs.Probe.Calls > 0) {
			nontrivial[t] = struct{}{}
		}
		if k := kindOf(t); k != "" && r.Obs.Cnt.handler > 0 {
			jr.byDelivery[delivs[t[7]].Name+" "+k]++
		}
		if p := prefaceOf(t[5]); p != nil && r.Obs.Cnt.handler > 0 && kindOf(t) != "" && kindOf(t) != "U" {
			jr.byPreface[fmt.Sprintf("%s %d", kindOf(t), p.V)]++
		}
		if t[6] != 0 {
			wn := writers[t[6]].Name
			jr.byWriter[wn]++
			if r.Obs.Probe.Calls > 0 {
				jr.wrapperUsed[wn]++
			}
			if _, ok := jr.writerSamples[wn]; !ok && r.Class == "stream-ok:BD" && t[0] <= 1 && t[4] == 0 {
				jr.writerSamples[wn] = sample{Case: c, Observed: r.Obs.short() + fmt.Sprintf("; through the wrapper: %d calls, %d flushes", r.Obs.Probe.Calls, r.Obs.Probe.Flushes)}
			}
		}
		if orderDependent(c.Hdr) {
			jr.orderDependent++
		}
		sampleKey := r.Class
		if orderDependent(c.Hdr) && (r.Class == "refused:400" || strings.HasPrefix(r.Class, "unary-ok")) {
			sampleKey += fmt.Sprintf(" [several -bin keys: served %d times, one per insertion order of the keys]", orderRepeats)
		}
		if _, ok := jr.samples[sampleKey]; !ok && t[6] == 0 {
			jr.samples[sampleKey] = sample{Case: c, Observed: r.Obs.short()}
		}
		for i := range r.Findings {
			f := &r.Findings[i]
			// cheap pre-collapse before minimizing: same clause/observation/target under the same non-base value set
			raw := fingerprint(t, f)
			if seenRaw[raw] {
				continue
			}
			seenRaw[raw] = true
			mt, mr, mc := w.minimize(t, f.Clause)
			mf := findClause(mr, f.Clause)
			if mf == nil { // cannot happen: minimize only keeps violating cases
				mt, mf, mc = t, f, c
			}
			jr.viol = append(jr.viol, violRec{FP: fingerprint(mt, mf), What: mf.What + "   [request: " + describe(mc) + "]", Replay: mc})
		}
	})
	jr.nontrivial = len(nontrivial)
	return jr
}

func describe(c *Case) string {
	ct := "<absent>"
	if c.CTPresent {
		ct = fmt.Sprintf("%q", c.CT)
	}
	s := fmt.Sprintf("cfg=%s %s %s Content-Type=%s headers=%v body=%s(%d bytes)", c.Cfg, c.Method, c.Path, ct, c.Hdr, c.BodyName, len(c.BodyHex)/2)
	if c.Writer != "" {
		s += " ResponseWriter=" + c.Writer
	}
	if c.Delivery != "" {
		s += " body-delivery=" + c.Delivery
	}
	return s
}

// ---- enumerations ---------------------------------------------------------

// The thorough tier's grammar is the union of four blocks (disjoint by construction):
//
//	A  the full product of the six request axes over the hand-written header
//	   sets, on the plain recorder;
//	B  the generated header sets (handler outcomes, several -bin values) crossed
//	   with cfg x registered method x every Content-Type x every body, for POST
//	   (the only requests that can get as far as the headers and the handler), on
//	   the plain recorder;
//	D  every other ResponseWriter (writer.go) crossed with cfg x registered
//	   method x every Content-Type x hand-written header set x every body, for POST;
//	E  every other delivery of the body (delivery.go) crossed with cfg x registered
//	   method x every Content-Type x hand-written header set x every body, for
//	   POST, on the plain recorder;
//	C  everything else that a two-axis sweep around the plain valid request of
//	   each method kind reaches, for every cfg: generated header set x path,
//	   generated header set x HTTP method, and writer x path, writer x HTTP method,
//	   writer x generated header set, delivery x path, delivery x HTTP method,
//	   delivery x generated header set, delivery x writer.
func coveredAB(t tuple) bool {
	return t[5] < nCoreBodies && t[6] == 0 && t[7] == 0 && (t[4] < nCoreHdrs || (t[1] < len(kinds) && t[2] == 0))
}

func coveredD(t tuple) bool {
	return t[5] < nCoreBodies && t[6] != 0 && t[7] == 0 && t[1] < len(kinds) && t[2] == 0 && t[4] < nCoreHdrs
}

func coveredE(t tuple) bool {
	return t[5] < nCoreBodies && t[7] != 0 && t[6] == 0 && t[1] < len(kinds) && t[2] == 0 && t[4] < nCoreHdrs
}

func chunkJobs(ts []tuple) []func(func(tuple)) {
	var jobs []func(func(tuple))
	const chunk = 2000
	for i := 0; i < len(ts); i += chunk {
		part := ts[i:min(i+chunk, len(ts))]
		jobs = append(jobs, func(yield func(tuple)) {
			for _, t := range part {
				yield(t)
			}
		})
	}
	return jobs
}

func blockC() []tuple {
	var out []tuple
	for ci := range cfgs {
		out = append(out, sweepTuples(ci, false, func(t tuple) bool { return !coveredAB(t) && !coveredD(t) && !coveredE(t) && !coveredF(t) })...)
	}
	return out
}

func fullJobs() ([]func(func(tuple)), int) {
	var jobs []func(func(tuple))
	n := axisSizes()
	n[5] = nCoreBodies // blocks A-E: the hand-written bodies; the generated ones are block F
	total := 0
	for ci := 0; ci < n[0]; ci++ {
		for pi := 0; pi < n[1]; pi++ {
			ci, pi := ci, pi
			if !(tuple{ci, pi}).valid() {
				continue
			}
			total += n[2] * n[3] * nCoreHdrs * n[5]
			jobs = append(jobs, func(yield func(tuple)) { // block A
				for mi := 0; mi < n[2]; mi++ {
					for ti := 0; ti < n[3]; ti++ {
						for hi := 0; hi < nCoreHdrs; hi++ {
							for bi := 0; bi < n[5]; bi++ {
								yield(tuple{ci, pi, mi, ti, hi, bi})
							}
						}
					}
				}
			})
			if pi >= len(kinds) {
				continue
			}
			total += n[3] * (n[4] - nCoreHdrs) * n[5]
			jobs = append(jobs, func(yield func(tuple)) { // block B
				for ti := 0; ti < n[3]; ti++ {
					for hi := nCoreHdrs; hi < n[4]; hi++ {
						for bi := 0; bi < n[5]; bi++ {
							yield(tuple{ci, pi, 0, ti, hi, bi})
						}
					}
				}
			})
			nw := 0
			for wi := 1; wi < n[6]; wi++ {
				if (tuple{ci, pi, 0, 0, 0, 0, wi}).valid() {
					nw++
				}
			}
			total += n[3] * nCoreHdrs * n[5] * nw
			jobs = append(jobs, func(yield func(tuple)) { // block D (the writer innermost: one plain run per request serves all comparisons)
				for ti := 0; ti < n[3]; ti++ {
					for hi := 0; hi < nCoreHdrs; hi++ {
						for bi := 0; bi < n[5]; bi++ {
							for wi := 1; wi < n[6]; wi++ {
								if t := (tuple{ci, pi, 0, ti, hi, bi, wi}); t.valid() {
									yield(t)
								}
							}
						}
					}
				}
			})
			total += n[3] * nCoreHdrs * n[5] * (n[7] - 1)
			jobs = append(jobs, func(yield func(tuple)) { // block E
				for di := 1; di < n[7]; di++ {
					for ti := 0; ti < n[3]; ti++ {
						for hi := 0; hi < nCoreHdrs; hi++ {
							for bi := 0; bi < n[5]; bi++ {
								yield(tuple{ci, pi, 0, ti, hi, bi, 0, di})
							}
						}
					}
				}
			})
		}
	}
	c := blockC()
	f, nf := prefaceJobs(true) // block F
	return append(append(jobs, chunkJobs(c)...), f...), total + len(c) + nf
}

// sweepTuples: around the plain valid request of each method kind under
// configuration ci, every single-axis sweep and every two-axis sweep (the cfg
// axis takes part when withCfg is set); keep filters the result.
func sweepTuples(ci int, withCfg bool, keep func(tuple) bool) []tuple {
	n := axisSizes()
	n[5] = nCoreBodies // the generated bodies have an enumeration of their own (prefaceGen)
	seen := map[tuple]bool{}
	var out []tuple
	add := func(t tuple) {
		if t.valid() && !seen[t] && (keep == nil || keep(t)) {
			seen[t] = true
			out = append(out, t)
		}
	}
	first := 1
	if withCfg {
		first = 0
	}
	for pi := 0; pi < len(kinds); pi++ {
		base := tuple{ci, pi, 0, 0, 0, 0}
		base[3], base[5] = baseOf(3, base), baseOf(5, base)
		add(base)
		for a := first; a < nAxes; a++ {
			for b := a + 1; b < nAxes; b++ {
				for x := 0; x < n[a]; x++ {
					for y := 0; y < n[b]; y++ {
						t := base
						t[a], t[b] = x, y
						add(t)
					}
				}
			}
		}
	}
	sort.Slice(out, func(i, j int) bool {
		for k := 0; k < nAxes; k++ {
			if out[i][k] != out[j][k] {
				return out[i][k] < out[j][k]
			}
		}
		return false
	})
	return out
}

// quickTuples: around the plain valid request of each method kind (cfg "srv"),
// every single-axis sweep and every two-axis sweep. Every pair of values of
// any two axes therefore occurs together in at least one request
// (pairwise-complete), and every value of every axis is tried against an
// otherwise valid request of each kind. The writers that live inside a
// decorating Mux only exist for the HandleServices configurations: the sweeps
// that involve the writer axis are therefore repeated around cfg "mux".
func quickTuples() []tuple {
	out := sweepTuples(0, true, nil)
	seen := map[tuple]bool{}
	for _, t := range out {
		seen[t] = true
	}
	return append(out, sweepTuples(1, false, func(t tuple) bool { return t[6] != 0 && !seen[t] })...)
}

func quickJobs() ([]func(func(tuple)), int) {
	ts := quickTuples()
	f, nf := prefaceJobs(false)
	return append(chunkJobs(ts), f...), len(ts) + nf
}

func runJobs(jobs []func(func(tuple))) []*jobResult {
	results := make([]*jobResult, len(jobs))
	nw := runtime.GOMAXPROCS(0)
	if nw > 8 {
		nw = 8
	}
	if nw > len(jobs) {
		nw = len(jobs)
	}
	var next int64 = -1
	var wg sync.WaitGroup
	for i := 0; i < nw; i++ {
		wg.Add(1)
		go func() {
			defer wg.Done()
			w := newWorker()
			for {
				j := int(atomic.AddInt64(&next, 1))
				if j >= len(jobs) {
					return
				}
				results[j] = w.runJob(jobs[j])
			}
		}()
	}
	done := make(chan struct{})
	go func() { wg.Wait(); close(done) }()
	// hang guard: no case completed for 60 s => the checker cannot decide
	last, lastAt := int64(-1), time.Now()
	tick := time.NewTicker(2 * time.Second)
	defer tick.Stop()
	for {
		select {
		case <-done:
			return results
		case <-tick.C:
			if p := atomic.LoadInt64(&progress); p != last {
				last, lastAt = p, time.Now()
			} else if time.Since(lastAt) > 60*time.Second {
				fmt.Fprintf(os.Stderr, "INCONCLUSIVE: no request completed for 60 s (after %d requests); a request hangs in the server\n", p)
				os.Exit(2)
			}
		}
	}
}

// selfCheck makes sure the grammar values are what their names say under the
// reference model (a checker bug must not turn into a verdict).
func selfCheck() error {
	want := func(cond bool, msg string) error {
		if !cond {
			return fmt.Errorf("self-check: %s", msg)
		}
		return nil
	}
	body := func(n string) []byte { return bodies[indexOfBody(n)].B }
	var errs []error
	d := func(codec, n string) tri { t, _ := decodeRef(codec, body(n)); return t }
	errs = append(errs,
		want(d(ctUnary, "pb") == yes && d(ctUnary, "pb-err") == yes && d(ctUnary, "empty") == yes, "valid protobuf bodies decode"),
		want(d(ctUnary, "garbage") == no && d(ctUnary, "pb-truncated") == no, "garbage/truncated protobuf bodies do not decode"),
		want(d(ctJSON, "json") == yes && d(ctJSON, "json-err") == yes, "valid JSON bodies decode"),
		want(d(ctJSON, "json-truncated") == no && d(ctJSON, "json-array") == no && d(ctJSON, "json-wrong-type") == no && d(ctJSON, "empty") == no && d(ctJSON, "pb") == no, "invalid JSON bodies do not decode"),
		want(refStream("CS", body("frame2")).OK && refStream("BD", body("frame1")).OK && refStream("SS", body("frame1")).OK && refStream("CS", body("empty")).OK, "valid streams are OK"),
		want(!refStream("SS", body("frame2")).OK && !refStream("SS", body("empty")).OK, "server-stream needs exactly one message"),
		want(refStream("CS", body("frame1-err")).Code == 9 && refStream("SS", body("frame1-err")).Code == 9, "error-requesting message"),
		want(refStream("CS", body("frame-err-binmsg")).Msg == "fail: k\xff\xfe" && len(refStream("CS", body("frame-err-binmsg")).Data) == 0, "error with a non-UTF-8 status message before any data"),
		want(len(refStream("CS", body("frame-err-binmsg-after-data")).Data) == 1 && len(refStream("SS", body("frame-err-binmsg-after-data")).Data) == 2 && len(refStream("BD", body("frame1+frame-err-binmsg-after-data")).Data) == 2, "error with a non-UTF-8 status message after data"),
		want(refStream("BD", body("frame-err-text-after-data")).Msg == "fail: who" && refStream("SS", body("frame-err-text-after-data")).Code == 5, "error with a text status message after data"),
		want(selfCheckMessageCounts() == "", "number of reply messages by body: "+selfCheckMessageCounts()),
	)
	dm := func(codec, n string, m *gt.Message) bool {
		t, got := decodeRef(codec, body(n))
		return t == yes && proto.Equal(got, m)
	}
	errs = append(errs,
		want(dm(ctJSON, "json", msgOK) && dm(ctJSON, "json-same", msgSame) && dm(ctJSON, "json-long", msgLong) && dm(ctJSON, "json-short", msgShort), "JSON size variants decode to their messages"),
		want(dm(ctUnary, "pb", msgOK) && dm(ctUnary, "pb-same", msgSame) && dm(ctUnary, "pb-long", msgLong) && dm(ctUnary, "empty", msgShort), "protobuf size variants decode to their messages"),
		want(len(msgSame.Payload) == len(msgOK.Payload) && !proto.Equal(msgSame, msgOK) && len(msgLong.Payload) > len(msgOK.Payload) && len(msgShort.Payload) < len(msgOK.Payload), "size variants relate to the plain message as their names say"),
	)
	for _, n := range []string{"garbage", "frame-short", "frame-garbage", "frame-negative", "frame-maxint", "frame-over-limit", "frame-64k-short", "half-prefix", "frame1+half-prefix", "frame1+frame-garbage", "pb", "json"} {
		for _, k := range []string{"CS", "SS", "BD"} {
			r := refStream(k, body(n))
			errs = append(errs, want(!r.OK && r.Code == 0, "malformed stream body "+n+" for "+k))
		}
	}
	hd := func(n string) tri {
		for _, h := range hdrs {
			if h.Name == n {
				return headersDecode(h.H)
			}
		}
		return -1
	}
	errs = append(errs,
		want(hd("none") == yes && hd("valid") == yes && hd("bin-nonutf8") == yes && hd("timeout-8digits") == yes, "valid header sets"),
		want(hd("bad-bin") == no && hd("bad-bin-second-value") == no && hd("bad-bin+bad-timeout") == no, "undecodable header sets"),
		want(hd("unpadded-bin") == either && hd("timeout-word") == either && hd("timeout-no-unit") == either && hd("timeout-unit-only") == either && hd("timeout-negative") == either && hd("timeout-bad-unit") == either, "open header sets"),
	)
	errs = append(errs, selfCheckGenerated()...)
	errs = append(errs, selfCheckWriters()...)
	errs = append(errs, selfCheckDeliveries()...)
	errs = append(errs, selfCheckPrefaces()...)
	for _, e := range errs {
		if e != nil {
			return e
		}
	}
	return nil
}

// selfCheckGenerated: the generated header sets are what their names say.
func selfCheckGenerated() []error {
	var errs []error
	bad := func(format string, a ...interface{}) { errs = append(errs, fmt.Errorf("self-check: "+format, a...)) }
	names := map[string]bool{}
	for _, h := range hdrs {
		if names[h.Name] {
			bad("header set %s occurs twice", h.Name)
		}
		names[h.Name] = true
	}
	nOutcome, nBin, nOrder := 0, 0, 0
	for i, h := range hdrs {
		if h.Ext != (i >= nCoreHdrs) {
			bad("header set %s: generated sets must follow the hand-written ones", h.Name)
		}
		for _, sn := range h.Simpler {
			if !names[sn] {
				bad("header set %s: simpler set %s is not in the grammar", h.Name, sn)
			}
		}
		spec := specOfHeaders(h.H)
		switch {
		case strings.HasPrefix(h.Name, "outcome:"):
			nOutcome++
			if spec == nil || "outcome:"+spec.String() != h.Name || headersDecode(h.H) != yes || orderDependent(h.H) {
				bad("header set %s does not carry the directive it is named after", h.Name)
				continue
			}
			// the oracle's reading of the directive against the error value the handler returns
			err := spec.err()
			if (err != nil) != spec.failed() {
				bad("%s: handler error %v, oracle says failed=%v", h.Name, err, spec.failed())
			}
			code, exact := spec.expectation()
			if err != nil {
				gs, has := err.(interface{ GRPCStatus() *status.Status })
				own := has && gs.GRPCStatus() != nil
				if exact && !(own && int32(gs.GRPCStatus().Code()) == code && code != 0 && gs.GRPCStatus().Message() == spec.Msg && len(gs.GRPCStatus().Proto().Details) == spec.Details) {
					bad("%s: oracle prescribes a status the error value does not carry", h.Name)
				}
				if code == 0 && own && gs.GRPCStatus().Code() != 0 {
					bad("%s: the error value carries a non-OK status but the oracle prescribes none", h.Name)
				}
			}
			if (spec.startErr() != nil) != (spec.At == "start" && spec.failed()) || (spec.endErr() != nil) != (spec.At == "end" && spec.failed()) {
				bad("%s: start/end", h.Name)
			}
		case strings.HasPrefix(h.Name, "bin:"):
			nBin++
			want := yes
			if strings.Contains(h.Name, "i") && strings.ContainsAny(strings.TrimPrefix(h.Name, "bin:"), "i") {
				want = no
			}
			keys := strings.Count(h.Name, "=")
			if spec != nil || headersDecode(h.H) != want || orderDependent(h.H) != (keys > 1) || len(distinctKeys(h.H)) != keys {
				bad("header set %s is not what its name says", h.Name)
			}
			if orderDependent(h.H) {
				nOrder++
				// the orderRepeats orders are all the permutations of the keys, equally often
				seen := map[string]int{}
				for ord := 0; ord < orderRepeats; ord++ {
					oh := orderedHeaders(h.H, ord)
					if len(oh) != len(h.H) || headersDecode(oh) != want {
						bad("header set %s order %d changes the set", h.Name, ord)
					}
					seen[strings.Join(distinctKeys(oh), ",")]++
				}
				fact := map[int]int{2: 2, 3: 6}[keys]
				if len(seen) != fact {
					bad("header set %s: %d key orders in %d runs, want %d", h.Name, len(seen), orderRepeats, fact)
				}
				for _, c := range seen {
					if c != orderRepeats/fact {
						bad("header set %s: key orders are not used equally often", h.Name)
					}
				}
				// values under one key keep their order
				for ord := 0; ord < orderRepeats; ord++ {
					for _, k := range distinctKeys(h.H) {
						var a, b []string
						for _, kv := range h.H {
							if strings.ToLower(kv.K) == k {
								a = append(a, kv.V)
							}
						}
						for _, kv := range orderedHeaders(h.H, ord) {
							if strings.ToLower(kv.K) == k {
								b = append(b, kv.V)
							}
						}
						if strings.Join(a, " ") != strings.Join(b, " ") {
							bad("header set %s order %d reorders the values of %s", h.Name, ord, k)
						}
					}
				}
			}
		default:
			if h.Ext || spec != nil {
				bad("header set %s: unexpected", h.Name)
			}
		}
	}
	if nOutcome != 2*2*(3*2*2*2+5) || nBin != 14+36+8 || nOrder != 36+8 {
		bad("%d outcome sets, %d -bin sets (%d with several keys)", nOutcome, nBin, nOrder)
	}
	if b64ok(base64.URLEncoding, binInvalid) || b64ok(base64.StdEncoding, binInvalid) || b64ok(base64.RawURLEncoding, binInvalid) || b64ok(base64.RawStdEncoding, binInvalid) || !b64ok(base64.URLEncoding, binValid) || !b64ok(base64.StdEncoding, binValid) {
		bad("the two -bin values are not (in)valid base64 in every alphabet")
	}
	// calibration of the two oracles on synthetic replies (no library code involved):
	// a failed handler reported OK, a reply without trailer frame, and a correct one
	own := &outcomeSpec{At: "end", Type: "own", Code: 0, Msg: "", TrMD: false}
	trailerFrame := func(tr *httpgrpc.HttpTrailer) []byte { b := mustPB(tr); return frame(-int32(len(b)), b) }
	trOK := trailerFrame(&httpgrpc.HttpTrailer{Code: 0, Message: "boom"})
	trInternal := trailerFrame(&httpgrpc.HttpTrailer{Code: 13})
	data := framed(&gt.Message{Payload: msgOK.Payload, Count: msgOK.Count + 1}) // what BD answers to msgOK
	for _, tc := range []struct {
		name, clause string
		body         []byte
	}{
		{"trailer says OK", "handler-failed-reported-ok", cat(data, trOK)},
		{"zero-size last frame instead of a trailer", "stream-reply-malformed", cat(data, frame(0, nil))},
		{"no trailer at all", "stream-reply-malformed", data},
		{"two trailers", "stream-reply-malformed", cat(data, trInternal, trInternal)},
		{"non-OK trailer", "", cat(data, trInternal)},
	} {
		res := &result{}
		checkStream(res, &observation{Status: 200, Header: http.Header{}, Body: tc.body, Cnt: counters{handler: 1}}, "BD", nil, bodies[indexOfBody("frame1")].B, own)
		got := ""
		if len(res.Findings) > 0 {
			got = res.Findings[0].Clause
		}
		if got != tc.clause || res.Class != "stream-outcome-error:BD" {
			bad("synthetic reply %q judged %q (class %s), want %q", tc.name, got, res.Class, tc.clause)
		}
	}
	for _, tc := range []struct {
		name, clause string
		status       int
		hdr          string
	}{
		{"200 without status header", "handler-failed-reported-ok", 200, ""},
		{"500 with status 0", "handler-failed-reported-ok", 500, "0:"},
		{"500 with Internal", "", 500, "13:"},
	} {
		res := &result{}
		h := http.Header{}
		if tc.hdr != "" {
			h.Set("X-GRPC-Status", tc.hdr)
		}
		checkUnary(res, &observation{Status: tc.status, Header: h, Cnt: counters{handler: 1}}, ctUnary, bodies[indexOfBody("pb")].B, own)
		got := ""
		if len(res.Findings) > 0 {
			got = res.Findings[0].Clause
		}
		if got != tc.clause {
			bad("synthetic unary reply %q judged %q, want %q", tc.name, got, tc.clause)
		}
	}
	// a dispatched request with an undecodable -bin value among several is a violation whatever the rest
	for _, n := range []string{"bin:A=iv", "bin:A=vi", "bin:A=v,B=i", "bin:A=v,B=v,C=i"} {
		rq := &request{Method: "POST", Path: "/t.S/U", CT: ctUnary, CTPresent: true, Hdr: hdrs[indexOfHdr(n)].H, Body: bodies[indexOfBody("pb")].B}
		r1 := judge(map[string]string{"/t.S/U": "U"}, rq, &observation{Status: 200, Header: http.Header{}, Cnt: counters{handler: 1}})
		r2 := judge(map[string]string{"/t.S/U": "U"}, rq, &observation{Status: 400, Header: http.Header{}})
		if findClause(r1, "invalid-request-dispatched") == nil || len(r2.Findings) != 0 {
			bad("header set %s: dispatched => %d finding(s), refused with 400 => %d finding(s)", n, len(r1.Findings), len(r2.Findings))
		}
	}
	return errs
}

func main() {
	debug.SetMemoryLimit(3 << 30)
	if isSchedChild() {
		os.Exit(schedChildMain())
	}
	rep := vlib.NewReporter(prop)
	if err := selfCheck(); err != nil {
		fmt.Fprintln(os.Stderr, "INCONCLUSIVE:", err)
		os.Exit(2)
	}
	if err := selfCheckSched(); err != nil {
		fmt.Fprintln(os.Stderr, "INCONCLUSIVE:", err)
		os.Exit(2)
	}
	if exe, err := os.Executable(); err != nil {
		fmt.Fprintln(os.Stderr, "INCONCLUSIVE: cannot find my own binary:", err)
		os.Exit(2)
	} else {
		selfExe = exe
	}
	if p := common.Arg("replay"); p != "" {
		os.Exit(replay(p))
	}

	start := time.Now()
	jobs, grammarSize := fullJobs()
	exhaustive := rep.Tier == "thorough"
	enumerated := grammarSize
	if !exhaustive {
		jobs, enumerated = quickJobs()
	}
	results := runJobs(jobs)

	evals := 0
	classes := map[string]int{}
	notes := map[string]int{}
	nontrivial, orderDep := 0, 0
	samplesByClass := map[string]sample{}
	byWriter, wrapperUsed := map[string]int{}, map[string]int{}
	writerSamples := map[string]sample{}
	byDelivery := map[string]int{}
	byPreface := map[string]int{}
	for _, jr := range results {
		for k, v := range jr.byPreface {
			byPreface[k] += v
		}
		for k, v := range jr.byDelivery {
			byDelivery[k] += v
		}
		for k, v := range jr.byWriter {
			byWriter[k] += v
		}
		for k, v := range jr.wrapperUsed {
			wrapperUsed[k] += v
		}
		for k, s := range jr.writerSamples {
			if _, ok := writerSamples[k]; !ok {
				writerSamples[k] = s
			}
		}
		evals += jr.evals
		nontrivial += jr.nontrivial
		orderDep += jr.orderDependent
		for k, v := range jr.classes {
			classes[k] += v
		}
		for k, v := range jr.notes {
			notes[k] += v
		}
		for k, s := range jr.samples {
			if _, ok := samplesByClass[k]; !ok {
				samplesByClass[k] = s
			}
		}
		for _, v := range jr.viol {
			rep.Violation(v.FP, v.What, v.Replay)
		}
	}
	if evals != enumerated {
		fmt.Fprintf(os.Stderr, "INCONCLUSIVE: enumerated %d requests, expected %d\n", evals, enumerated)
		os.Exit(2)
	}
	// every writer of the grammar was met, and every wrapper was handed to library code
	for wi := 1; wi < len(writers); wi++ {
		wv := &writers[wi]
		if byWriter[wv.Name] == 0 || (wv.Wrap && wrapperUsed[wv.Name] == 0) {
			fmt.Fprintf(os.Stderr, "INCONCLUSIVE: ResponseWriter %s: %d requests, library code used the wrapper in %d\n", wv.Name, byWriter[wv.Name], wrapperUsed[wv.Name])
			os.Exit(2)
		}
	}

	// every delivery of the grammar reached the handler of every method kind
	// (unless something was reported: a tree that refuses a delivery is a finding, not a checker problem)
	nViol := 0
	for _, jr := range results {
		nViol += len(jr.viol)
	}
	for _, d := range delivs {
		for _, k := range kinds {
			if nViol == 0 && byDelivery[d.Name+" "+k] == 0 {
				fmt.Fprintf(os.Stderr, "INCONCLUSIVE: no request with body delivery %s was dispatched to the %s handler\n", d.Name, k)
				os.Exit(2)
			}
		}
	}

	// every announced size of the generated bodies reached the handler of every streaming kind
	prefaceByKind := map[string]int{}
	for _, k := range kinds[1:] {
		for _, v := range prefaceVs {
			c := byPreface[fmt.Sprintf("%s %d", k, v)]
			prefaceByKind[k] += c
			if nViol == 0 && c == 0 {
				fmt.Fprintf(os.Stderr, "INCONCLUSIVE: no request whose body announces a frame of size %d was dispatched to the %s handler\n", v, k)
				os.Exit(2)
			}
		}
	}

	// JSON == protobuf
	eq := runEquiv(rep)

	// several requests on one server: sequences and overlaps (sched.go)
	isolatedS := time.Since(start).Seconds()
	sc := runSched(rep)

	var classNames []string
	for k := range samplesByClass {
		classNames = append(classNames, k)
	}
	sort.Strings(classNames)
	var samples []interface{}
	for _, k := range classNames {
		s := samplesByClass[k]
		samples = append(samples, map[string]interface{}{"class": k, "request": describe(s.Case), "observed": s.Observed})
	}
	samples = append(samples, eq.samples...)
	if len(samples) > 40 {
		samples = samples[:40]
	}
	for wi := 1; wi < len(writers); wi++ {
		if wv := writers[wi]; wv.Place == placeMux && wv.Kind != "bare" && wv.Wrap {
			continue // one sample per capability set, plus the two simplest decorating-Mux cases
		}
		if s, ok := writerSamples[writers[wi].Name]; ok {
			samples = append(samples, map[string]interface{}{"class": "stream-ok:BD behind ResponseWriter " + writers[wi].Name, "request": describe(s.Case), "observed": s.Observed})
		}
	}
	samples = append(samples, sc.samples...)

	rule := "request grammar = cfg{srv, mux(HandleServices), srv+/api base+interceptors, mux+/api base+interceptors} x path{4 registered methods (one per kind), 14-15 unregistered/non-canonical} x method{POST,GET,HEAD,PUT,DELETE,OPTIONS,PATCH,post,CONNECT} x Content-Type{" + fmt.Sprint(len(cts)) + " strings} x header set{" + fmt.Sprint(len(hdrs)) + "} x body{" + fmt.Sprint(nCoreBodies) + " hand-written + " + fmt.Sprint(len(prefaces)) + " generated} x ResponseWriter{" + fmt.Sprint(len(writers)) + "} x body delivery{" + fmt.Sprint(len(delivs)) + "}; " +
		"each request is served by the real handler tree on a recorder (behind the ResponseWriter wrapper of the case) and judged by a reference function of the literal request. " +
		fmt.Sprintf("BODY DELIVERY (%d): how the transport announces the length of the request body and hands its bytes to the handler, i.e. r.ContentLength / r.TransferEncoding / r.Proto and the behaviour of r.Body.Read: announce{length: ContentLength == len(body); chunked: ContentLength == -1 with Transfer-Encoding chunked (HTTP/1.1 client whose body is not a byte slice, a streaming proxy); h2: ContentLength == -1, HTTP/2.0, no content-length} x reader{whole: all bytes in one Read, then (0, EOF); 1byte: one byte per Read; data+eof: the last bytes together with io.EOF} = 9, plus 3 deliveries whose ContentLength, TransferEncoding and Body are what net/http's own http.ReadRequest makes of the literal HTTP/1.1 message carrying the body with a Content-Length header, as one chunk, and as one-byte chunks (%s). The reference function never looks at the delivery: the verdict demanded is the one demanded for the same method, path, headers and body bytes. ", len(delivs), delivList()) +
		fmt.Sprintf("RESPONSE WRITERS (%d): what the http.ResponseWriter handed to the library can do. The plain httptest recorder; the recorder handed on untouched by a decorating Mux function given to HandleServices; and %d wrappers around the recorder, each a Go type of its own with exactly the named optional methods besides Header/Write/WriteHeader - %s - each in two placements: as an http middleware in front of the whole handler tree (*httpgrpc.Server resp. the ServeMux), and inside a Mux function given to HandleServices that decorates every handler it registers, as the package documentation suggests (only for the HandleServices configurations). The reply is read from the recorder behind the wrapper. Oracle: the same reference function as for every request (in particular: data frames followed by exactly one trailer frame), and, when that finds nothing, status, headers, body (streaming replies: frame by frame, trailers compared as messages) and application-code counters equal to those of the same request served on the plain recorder. ", len(writers), len(capKinds), capKindList()) +
		fmt.Sprintf("ANNOUNCED FRAME SIZES (%d generated bodies): a streaming request body is a sequence of frames, each a 4-byte big-endian signed size preface and that many bytes; the hand-written bodies announce only the payload's length, that length +2, its negation, 0, 65536, MaxInt32 and limit+1. The generated bodies are lead{0, 1 valid frames first} x v{%d announced sizes} x tail{nothing, the 9 bytes of a valid message} where v ranges over 0, +-(2^k-1), +-2^k, +-(2^k+1) for k = 0..31 as far as an int32 holds them, MaxInt32, MinInt32 and their two inner neighbours, +-(L-1), +-L, +-(L+1) around the message size limit L = 100 MiB, and +-(n-1), +-n, +-(n+1) around the length n of the tail. The reference function is the one of every streaming body (it never looks at the family): a frame whose preface is negative, above the limit or larger than what follows makes the request stream undecodable from there, so the caller must get 200, the data frames the handler had sent and exactly one trailer frame with a non-OK code, and the server must not panic; where the bytes happen to be a valid stream (v = n with the tail, v = 0 without) the handler's normal answer. For a unary method the same bytes are a protobuf body judged like any other. ", len(prefaces), len(prefaceVs)) +
		fmt.Sprintf("Header sets: %d hand-written ones + %d generated ones of two families. ", nCoreHdrs, len(hdrs)-nCoreHdrs) +
		fmt.Sprintf("(1) HANDLER OUTCOMES (%d sets): a header X-Outcome, plain metadata to the library, makes the handler of whatever kind is addressed finish with an error value of a given shape instead of the status.Err() the handlers otherwise fail with: at{start = before it reads the request, end = after it has read and answered everything, where it would return nil} x trailer metadata set by the handler{no,yes} x (type{status.Err(), value with its own GRPCStatus() method, the same wrapped with %%w} x code{OK,NotFound} x message{\"boom\",empty} x details{0,1} + {value whose GRPCStatus() is nil, errors.New(\"boom\"), errors.New(\"\"), context.DeadlineExceeded, wrapped context.Canceled}); the oracle: when the handler fails, the caller gets a non-OK status (unary) resp. the reply is the data frames the handler sent followed by exactly one trailer frame whose status is not OK (streams); code, message and details must be the status's own when the error is or has a non-OK status (only the code for a wrapped one). ", len(outcomeHdrs())) +
		fmt.Sprintf("(2) SEVERAL -bin VALUES (%d sets) over {valid base64, not base64}: every sequence of length 1..3 under one -bin key (14), two -bin keys with every sequence of length 1..2 each (36), three -bin keys with one value each (8); the oracle: 400 and no application code as soon as one value is not base64. http.Header is a map and Go randomises map iteration, so a request with more than one distinct -bin key is served %d times (a fixed number), the header map being filled in another order of its keys each time (all permutations in turn), and the first run judged wrong is the one reported; such a case still counts once in evaluations (order_dependent_cases of them). Verdicts on sequences under one key do not depend on map order. ", len(binHdrs()), orderRepeats)
	if exhaustive {
		rule += "Thorough tier, six disjoint blocks, each enumerated completely; in blocks A-E the body axis is the hand-written bodies: A = the full product of the six request axes over the hand-written header sets, on the plain recorder with the plain delivery; B = generated header sets x cfg x registered method x every Content-Type x every body, for POST, on the plain recorder; D = every other ResponseWriter x cfg x registered method x every Content-Type x hand-written header set x every body, for POST (i.e. writer x method kind x every handler outcome the bodies produce: 0, 1, 2, 3 messages then OK, 0, 1, 2 messages then an error, undecodable request streams, and the 415/400 refusals); E = every other body delivery x cfg x registered method x every Content-Type x hand-written header set x every body, for POST, on the plain recorder (i.e. delivery x method kind x codec x every valid, undecodable, truncated and empty body); C = the remaining two-axis sweeps around the plain valid request of each method kind, for every cfg: generated header set x path, generated header set x HTTP method, writer x path (404), writer x HTTP method (405), writer x generated header set (handler outcomes of every shape, several -bin values), delivery x path, delivery x HTTP method, delivery x generated header set, delivery x writer; F = generated body x cfg x registered method x every Content-Type x every body delivery, for POST without other headers on the plain recorder (i.e. announced size x position in the stream x tail x method kind x codec x delivery x configuration), except that the bodies for which the reference says the server has to buffer more than 64 KiB on the strength of the preface alone (64 KiB < v <= L) are crossed with cfg x registered method only. grammar_size is the size of A+B+C+D+E+F. "
	} else {
		rule += fmt.Sprintf("Quick tier: NOT the thorough tier's grammar (%d requests) but, around the plain valid request of each of the 4 method kinds, every single-axis sweep and every two-axis sweep over the eight axes, around cfg srv, and the sweeps that involve the writer axis once more around cfg mux, where the decorating-Mux placements exist (%d requests; pairwise-complete: every pair of values of any two axes, generated header sets and writers included, occurs in some request: writer x body gives writer x method kind x handler outcome {0, 1, 2, 3 messages then OK; 0, 1, 2 messages then an error; undecodable request}, writer x HTTP method / Content-Type / header set / path give the 405 / 415 / 400 / 404 paths; delivery x body and delivery x Content-Type give delivery x method kind x codec x {valid, undecodable, truncated, empty} body). In these sweeps the body axis is the hand-written bodies; every generated body (announced frame sizes) is tried against the plain valid request of each of the 4 method kinds and swept pairwise with cfg, Content-Type and body delivery (not with path, HTTP method, header set and ResponseWriter: an unregistered path and another HTTP method are refused without reading the body, the header sets act before the request stream is read (gatekeeping) or after it (handler outcome), and the reply to an undecodable stream with every header set and behind every writer is covered by the hand-written bodies), the bodies that make the server buffer more than 64 KiB only against the plain valid request of each kind. ", grammarSize, enumerated)
	}
	rule += "A request is non-trivial when it addresses a registered method, i.e. reaches the gatekeeping code of handleMethod/handleStream (requests to unregistered paths only exercise the mux) and, for a case with a ResponseWriter wrapper, library code made at least one call on the wrapper; distinct by (cfg,path,method,content type,header set,body,writer,delivery). " +
		fmt.Sprintf("Plus the JSON==protobuf comparison: message{%d} x JSON rendering{%d} x JSON content type{%d} x header set{%d} x cfg{%d} x body delivery{%d} (both requests of a pair delivered the same way), each", len(eqMsgs), len(eqRenderings), len(eqCTs), len(eqHdrs), len(cfgs), len(delivs)) +
		"  against the protobuf encoding of the same message (all enumerated in both tiers; counted in evaluations, and in distinct_nontrivial when both requests were dispatched). " +
		"Plus SEVERAL REQUESTS ON ONE SERVER (sequences and overlaps): k = 1..3 requests of a pool, served by one fresh server in one fresh process (GOMAXPROCS(1), collector off) under a word over S_i (start request i, run it until its park-th ResponseWriter call WriteHeader/Write/Flush blocks on a gate, or to its end) and F_i (open the gate, run it to its end) with S_0<S_1<.. and S_i<F_i: 1/3/15 words for k=1/2/3, the first being the plain sequence; the pool is crossed with itself, so every order occurs. " +
		"Pool = target kind{U,CS,SS,BD} x Content-Type{unary,stream,json,+charset variants,text/plain} with a body valid for that codec (every listed content type meets a kind that supports it and kinds that do not) + 20 requests differing on one other axis (sizes of the reply: same/longer/shorter, errors with details, undecodable bodies, GET, header sets including one handler-outcome directive and one sequence of -bin values, unknown method); overlapped pairs over 16 of them (JSON and protobuf unary calls of equal and different reply sizes, failing calls, a refused call, echoed metadata, one stream per kind), triples over 4 (3 JSON sizes + protobuf). Blocks enumerated completely: " + strings.Join(sc.blocks, "; ") + ". " +
		"Every reply of every case is judged by the same reference function as an isolated request (a request judged wrong alone is reported under its isolated fingerprint; a finding of a case that a simpler, already reported case explains - fewer requests with the word projected onto them, the same requests one after the other, first park point, first configuration - is not reported again). Each overlapped case is run in two processes and the outputs must be byte-identical, otherwise the run is INCONCLUSIVE. " +
		"Such a case counts in evaluations once; in distinct_nontrivial when it is a sequence of >= 2 requests that all address registered methods, or an overlapped word in which some request was measured parked on its gate while a step of another request ran (distinct by cfg, requests, park point, word)."
	if !exhaustive {
		rule += " Quick tier: the dimensions cfg and park point are not crossed with the full pools but swept over 4-request pools (blocks above); thorough crosses them and adds the sequences of 2 over every Content-Type string of the grammar."
	}

	fmt.Printf("C11: %d requests (+%d JSON/protobuf pairs) in %.1fs; grammar size %d; classes: %v; notes: %v\n", evals, eq.evals, isolatedS, grammarSize, classes, notes)
	fmt.Printf("C11: %d cases of several requests on one server (%d overlapped, each run twice; %d processes) in %.1fs; %v; %v\n", sc.cases, sc.overlappedCases, sc.childRuns, time.Since(start).Seconds()-isolatedS, sc.blocks, sc.classes)
	os.Exit(rep.Finish("exploration", map[string]interface{}{
		"evaluations":                            evals + eq.evals + sc.cases,
		"distinct_nontrivial":                    nontrivial + eq.nontrivial + sc.nontrivial,
		"sched_cases":                            sc.cases,
		"sched_processes":                        sc.childRuns,
		"sched_overlapped":                       sc.overlappedCases,
		"sched_nontrivial":                       sc.nontrivial,
		"sched_blocks":                           sc.blocks,
		"sched_shapes":                           sc.classes,
		"rule":                                   rule,
		"samples":                                samples,
		"exhaustive":                             exhaustive,
		"grammar_size":                           grammarSize,
		"requests":                               evals,
		"order_dependent_cases":                  orderDep,
		"order_repeats":                          orderRepeats,
		"response_writers":                       len(writers),
		"requests_by_writer":                     byWriter,
		"body_deliveries":                        len(delivs),
		"dispatched_by_delivery":                 byDelivery,
		"announced_sizes":                        len(prefaceVs),
		"generated_bodies":                       len(prefaces),
		"dispatched_with_generated_body_by_kind": prefaceByKind,
		"wrapper_used_by_writer":                 wrapperUsed,
		"json_pb_pairs":                          eq.evals,
		"classes":                                classes,
		"notes":                                  mergeNotes(notes, eq.notes),
	}, []string{
		"net/http's connection handling is not exercised: requests are built literally and served on httptest.ResponseRecorder (no network), directly or behind a wrapper that forwards to it; what a connection contributes to a request, the announcement of the body's length and the way Body.Read hands the bytes out, is the body-delivery axis (12 values, three of them net/http's own parse of a literal HTTP/1.1 message)",
		"body deliveries in which the transport itself fails are not in the grammar (a body shorter or longer than its announced Content-Length, malformed chunk framing, a connection that breaks while the body is read): there the handler gets a read error, and the statement promises nothing about a request that did not arrive; Read calls that return (0, nil) are not generated either",
		"the several-requests-on-one-server part uses the plain delivery (Content-Length, all bytes at once) throughout",
		"ResponseWriter wrappers never fail: Write returns no error, FlushError returns nil (after a write that really failed the statement promises nothing: the connection is gone); Hijack/Push stubs refuse; the wrappers are crossed with the isolated requests only, the JSON==protobuf comparison and the several-requests-on-one-server part use the plain resp. the gated recorder (both have Flush)",
		"the comparison with the plain recorder is not made for requests with several distinct -bin keys (map iteration order may make two runs of such a request differ by itself); behind every writer they are judged by the reference function in all 24 key orders like on the plain recorder",
		"overlapping requests: a slow peer is modelled by a ResponseWriter whose n-th call blocks before consuming anything; interleavings are those of two steps per request (up to the gate / from the gate to the end), i.e. a request is preempted only inside its ResponseWriter, not at arbitrary instructions (races inside the library between two running requests are not explored; there is no shared mutable state in the unchanged server for them to race on)",
		"several requests on one server: each case starts from a fresh process, so the state a case can depend on is the one its own requests create; histories longer than 3 requests are only met by the isolated sweep, where one server per configuration and worker serves all requests in enumeration order",
		"handlers are well-behaved (propagate receive/decode errors, echo only x-echo* request metadata into response headers and trailers); they fail with an error value of another shape only when the X-Outcome request header asks for it, and then either before reading the request or after having answered it completely (not in the middle of a stream)",
		"map iteration order cannot be controlled: for requests with several distinct -bin keys the verdict 'holds' means 'held in each of the 24 runs, one per insertion order of the keys'; a change whose effect depends on an iteration order that none of the 24 runs met would be missed on that request (the same sets are met in many requests, and every same-key sequence is deterministic)",
		"outcome directives are crossed with every other axis pairwise (quick) resp. with cfg x kind x Content-Type x body (thorough), but not with the several-requests-on-one-server part beyond two pool requests, nor with each other or with other header sets (trailer metadata is a parameter of the directive instead)",
		"Content-Type strings that name a supported type in a different spelling (case, parameters, malformed parameters), unpadded base64 in -bin headers and GRPC-Timeout values outside the wire grammar may be refused (415/400, no application code) or accepted: the statement does not settle them",
		"error details of a unary JSON request are accepted in either the documented encoding (base64 of a binary Any) or the request's codec (base64 of a JSON Any); the latter is counted under notes",
		"streaming handlers quote the payload of an error-requesting message in their status message and may send data frames before failing",
		"when the handler's trailer metadata or status message cannot be carried by HttpTrailer (an echoed value / a quoted payload that is not valid UTF-8), any non-OK trailer status is accepted besides the handler's own outcome (reporting an unencodable response as an error is C02's demand; the lost metadata is C03's); the reply must still end with exactly one trailer frame",
		"request frames announcing more than the 9 bytes of one small message are not sent with their full payload: what follows a preface is nothing or 9 bytes (hand-written bodies: up to 16 bytes); the server does allocate what a preface within the limit announces (up to 100 MiB per request, one request at a time per worker), and those heavy requests are crossed with method kind (quick) resp. cfg x method kind (thorough) only",
		"announced frame sizes are boundary values (powers of two +-1 over the whole int32 range, the type's extremes, the limit +-1, the payload length +-1), not all 2^32 values; the preface under test is the first or the second frame of the stream (RecvMsg of the unchanged server keeps no state between frames besides a counter)",
	}))
}

// selfCheckMessageCounts: under the reference, the bodies make the
// server-streaming handler send 0, 1, 2, 3 messages and succeed, and 0, 1, 2
// messages and fail; the bidi handler 0, 1, 2 and succeed; the client-streaming
// handler 0 or 1.
func selfCheckMessageCounts() string {
	type key struct {
		kind string
		n    int
		ok   bool
	}
	seen := map[key]bool{}
	for _, b := range bodies {
		for _, k := range []string{"CS", "SS", "BD"} {
			r := refStream(k, b.B)
			if r.OK || r.Code != 0 {
				seen[key{k, len(r.Data), r.OK}] = true
			}
		}
	}
	for _, w := range []key{{"SS", 0, true}, {"SS", 1, true}, {"SS", 2, true}, {"SS", 3, true}, {"SS", 0, false}, {"SS", 1, false}, {"SS", 2, false},
		{"BD", 0, true}, {"BD", 1, true}, {"BD", 2, true}, {"BD", 0, false}, {"BD", 1, false}, {"BD", 2, false}, {"CS", 1, true}, {"CS", 0, false}, {"CS", 1, false}} {
		if !seen[w] {
			return fmt.Sprintf("no body makes the %s handler send %d message(s) and finish ok=%v", w.kind, w.n, w.ok)
		}
	}
	return ""
}

func delivList() string {
	var out []string
	for _, d := range delivs {
		out = append(out, d.Name)
	}
	return strings.Join(out, ", ")
}

func capKindList() string {
	var out []string
	for _, k := range capKinds {
		out = append(out, k.Name)
	}
	return strings.Join(out, ", ")
}

func mergeNotes(a, b map[string]int) map[string]int {
	out := map[string]int{}
	for k, v := range a {
		out[k] += v
	}
	for k, v := range b {
		out[k] += v
	}
	return out
}

func replay(p string) int {
	var probe struct {
		Kind string `json:"kind"`
	}
	if err := common.LoadReplay(p, &probe); err != nil {
		fmt.Fprintln(os.Stderr, "INCONCLUSIVE: cannot read replay file:", err)
		return 2
	}
	if probe.Kind == "sched" {
		var c SchedCase
		common.LoadReplay(p, &c)
		return replaySched(p, &c)
	}
	if probe.Kind == "equiv" {
		var c EquivCase
		common.LoadReplay(p, &c)
		fs, obs := checkEquiv(newWorker(), &c)
		fmt.Println("replay:", obs)
		for _, f := range fs {
			fmt.Println("  ", f.Clause, f.Obs, "-", f.What)
		}
		if len(fs) > 0 {
			fmt.Printf("VIOLATION property=%s replay=%s\n", prop, p)
			return 1
		}
		return 0
	}
	var c Case
	common.LoadReplay(p, &c)
	cfg := cfgByName(c.Cfg)
	if cfg == nil {
		fmt.Fprintln(os.Stderr, "INCONCLUSIVE: unknown cfg in replay file:", c.Cfg)
		return 2
	}
	if wv := writerByName(c.Writer); c.Writer != "" && (wv == nil || (wv.Place == placeMux && !cfg.Mux)) {
		fmt.Fprintln(os.Stderr, "INCONCLUSIVE: unknown ResponseWriter in replay file (or one that does not exist for the cfg):", c.Writer)
		return 2
	}
	rq := c.request()
	r := checkRequest(newEnv(cfg), rq)
	fmt.Println("replay:", describe(&c))
	fmt.Println("  observed:", r.Obs.short(), "class:", r.Class)
	if rq.W != nil {
		fmt.Printf("  through the wrapper %s: %d calls, %d flushes\n", rq.W.Name, r.Obs.Probe.Calls, r.Obs.Probe.Flushes)
	}
	for _, f := range r.Findings {
		fmt.Println("  ", f.Clause, f.Obs, "-", f.What)
	}
	if len(r.Findings) > 0 {
		fmt.Printf("VIOLATION property=%s replay=%s\n", prop, p)
		return 1
	}
	return 0
}
