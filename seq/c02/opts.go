// The "call options" dimension: the same handler outcomes, seen by a caller
// that passes grpc.CallOptions. Enumerated:
//
//	transport {inproc, http, httpwire}
//	x kind {unary, cstream, sstream, bidi} x position
//	x handler outcome {nil, status NotFound with message and two details, plain error}
//	x response shape {one, three, big}  (a multi-field message: every prefix
//	           that ends between two fields is itself a valid encoding)
//	x option set { grpc.MaxCallRecvMsgSize(n): every n in 0..S+1 (S = encoded
//	           size of one response; for "big": 0, 1, the first and the last
//	           field boundary, S-1, S, S+1),
//	           grpc.MaxCallSendMsgSize(n): 0, 1, first field boundary, R-1, R, R+1
//	           (R = encoded size of one request),
//	           both together (below/below, at/at, boundary/at) }
//	x { alone, next to grpc.Header + grpc.Trailer + grpc.Peer }
//
// Oracle (from the statement, with grpc-go over bufconn as parity reference in
// the thorough tier): success may be reported only if the handler returned nil
// and the client holds exactly the handler's response(s). A limit that some
// message exceeds entitles the client to fail the call with any non-OK error
// (grpc-go: ResourceExhausted) after having delivered a prefix of the
// responses; a limit that no message exceeds must not change the outcome at
// all (exact status of the handler).
package main

import (
	"context"
	"fmt"
	"io"
	"runtime/debug"
	"strconv"
	"strings"
	"sync"
	"sync/atomic"
	"time"

	"google.golang.org/grpc"
	"google.golang.org/grpc/codes"
	"google.golang.org/grpc/metadata"
	"google.golang.org/grpc/peer"
	"google.golang.org/grpc/status"
	"google.golang.org/protobuf/proto"
	"google.golang.org/protobuf/types/known/structpb"

	"verif/seq/common"
)

type optSpec struct {
	Shape  string `json:"shape"`          // one | three | big
	Recv   *int   `json:"recv,omitempty"` // grpc.MaxCallRecvMsgSize
	Send   *int   `json:"send,omitempty"` // grpc.MaxCallSendMsgSize
	Extras bool   `json:"extras,omitempty"`
}

func (o optSpec) String() string {
	f := func(p *int) string {
		if p == nil {
			return "-"
		}
		return strconv.Itoa(*p)
	}
	return fmt.Sprintf("shape=%s,maxrecv=%s,maxsend=%s,hdr+tlr+peer=%v", o.Shape, f(o.Recv), f(o.Send), o.Extras)
}

var optShapes = []string{"one", "three", "big"}

func shapeLen(shape string) int {
	switch shape {
	case "one":
		return 1
	case "three":
		return 3
	}
	return 300
}

// listMsg builds the message: n string elements, all of the same encoded length.
func listMsg(tag string, n int) *structpb.ListValue {
	lv := &structpb.ListValue{}
	for j := 0; j < n; j++ {
		lv.Values = append(lv.Values, structpb.NewStringValue(fmt.Sprintf("%s-e%03d", tag, j)))
	}
	return lv
}

func optResp(shape string, i int) *structpb.ListValue {
	return listMsg(fmt.Sprintf("r%d", i), shapeLen(shape))
}
func optReq(i int) *structpb.ListValue { return listMsg(fmt.Sprintf("q%d", i), 2) }

func respSize(shape string) int { return proto.Size(optResp(shape, 0)) }
func reqSize() int              { return proto.Size(optReq(0)) }
func elemSize() int             { return proto.Size(listMsg("r0", 1)) }

func ip(n int) *int { return &n }

// option sets for one shape, simplest first
func optSets(shape string) []optSpec {
	S, R, E := respSize(shape), reqSize(), elemSize()
	var recv []int
	if shape == "big" {
		recv = []int{0, 1, E, S - E, S - 1, S, S + 1}
	} else {
		for n := 0; n <= S+1; n++ {
			recv = append(recv, n)
		}
	}
	send := []int{0, 1, proto.Size(listMsg("q0", 1)), R - 1, R, R + 1}
	var out []optSpec
	for _, x := range []bool{false, true} {
		for _, n := range recv {
			out = append(out, optSpec{Shape: shape, Recv: ip(n), Extras: x})
		}
		for _, n := range send {
			out = append(out, optSpec{Shape: shape, Send: ip(n), Extras: x})
		}
		out = append(out,
			optSpec{Shape: shape, Recv: ip(S - 1), Send: ip(R - 1), Extras: x},
			optSpec{Shape: shape, Recv: ip(S), Send: ip(R), Extras: x},
			optSpec{Shape: shape, Recv: ip(E), Send: ip(R), Extras: x})
	}
	return out
}

func optOutcomes() []outcomeSpec {
	return []outcomeSpec{{Class: "nil"}, {Class: "status", Code: 5, Msg: "colon", Details: []string{"struct", "unknown"}}, {Class: "plain"}}
}

func allOptCases(transport string) []caseSpec {
	var out []caseSpec
	for _, sh := range optShapes {
		for _, k := range kinds {
			for _, o := range optOutcomes() {
				for _, p := range positions(k) {
					if o.Class == "nil" && respUnary(k) && p == "before" {
						continue // same as "after": a successful handler produces its response
					}
					for _, os := range optSets(sh) {
						os := os
						out = append(out, caseSpec{Transport: transport, Kind: k, Outcome: o, Pos: p, MD: true, Opts: &os})
					}
				}
			}
		}
	}
	return out
}

// ---------------------------------------------------------------- handler side

type optRun struct {
	spec    caseSpec
	err     error
	pre     int
	started atomic.Bool
	done    chan struct{}
}

var (
	optSeq  atomic.Int64
	optRuns sync.Map // string -> *optRun
)

func optLookup(ctx context.Context) *optRun {
	md, _ := metadata.FromIncomingContext(ctx)
	if v := md.Get("c02-case"); len(v) == 1 {
		if r, ok := optRuns.Load(v[0]); ok {
			return r.(*optRun)
		}
	}
	return nil
}

func optUnary(ctx context.Context, dec func(interface{}) error) (interface{}, error) {
	r := optLookup(ctx)
	if r == nil {
		return nil, status.Error(codes.Internal, "checker: unknown case")
	}
	r.started.Store(true)
	defer close(r.done)
	var in structpb.ListValue
	if err := dec(&in); err != nil {
		return nil, err
	}
	grpc.SetHeader(ctx, metadata.Pairs("c02-h", "hv"))
	grpc.SetTrailer(ctx, metadata.Pairs("c02-t", "tv1"))
	if r.pre > 0 {
		return optResp(r.spec.Opts.Shape, 0), r.err
	}
	return nil, r.err
}

func optStream(clientStreams bool) common.StreamFn {
	return func(ss grpc.ServerStream) error {
		r := optLookup(ss.Context())
		if r == nil {
			return status.Error(codes.Internal, "checker: unknown case")
		}
		r.started.Store(true)
		defer close(r.done)
		for {
			var in structpb.ListValue
			e := ss.RecvMsg(&in)
			if e == io.EOF && clientStreams {
				break
			}
			if e != nil {
				return e
			}
			if !clientStreams {
				break
			}
		}
		ss.SetHeader(metadata.Pairs("c02-h", "hv"))
		ss.SetTrailer(metadata.Pairs("c02-t", "tv1"))
		for i := 0; i < r.pre; i++ {
			if e := ss.SendMsg(optResp(r.spec.Opts.Shape, i)); e != nil {
				return e
			}
		}
		return r.err
	}
}

func optService() *common.Svc {
	return &common.Svc{Name: "c02.O",
		Unary: map[string]common.UnaryFn{"U": optUnary},
		Streams: map[string]common.StreamDef{
			"CS": {Fn: optStream(true), ClientStreams: true},
			"SS": {Fn: optStream(false), ServerStreams: true},
			"BD": {Fn: optStream(true), ClientStreams: true, ServerStreams: true},
		}}
}

// ---------------------------------------------------------------- client side

type optObs struct {
	Success bool
	Err     error
	Msgs    []*structpb.ListValue
	Panic   string
}

func (o optObs) String() string {
	if o.Panic != "" {
		return "PANIC " + o.Panic
	}
	var ms []string
	for _, m := range o.Msgs {
		ms = append(ms, fmt.Sprintf("%d elements/%d bytes", len(m.Values), proto.Size(m)))
	}
	if o.Success {
		return fmt.Sprintf("success msgs=[%s]", strings.Join(ms, ","))
	}
	st := status.Convert(o.Err)
	return fmt.Sprintf("error %T %q -> code=%d(%s) message=%q details=%d msgs=[%s]", o.Err, o.Err.Error(), uint32(st.Code()), st.Code(), st.Message(), len(st.Proto().GetDetails()), strings.Join(ms, ","))
}

func optDrive(cc grpc.ClientConnInterface, c caseSpec, id string) (obs optObs) {
	defer func() {
		if p := recover(); p != nil {
			obs = optObs{Panic: fmt.Sprintf("%v\n%s", p, debug.Stack())}
		}
	}()
	ctx, cancel := context.WithCancel(metadata.AppendToOutgoingContext(context.Background(), "c02-case", id))
	defer cancel()
	var opts []grpc.CallOption
	var hdr, tlr metadata.MD
	var pr peer.Peer
	if c.Opts.Extras {
		opts = append(opts, grpc.Header(&hdr))
	}
	if c.Opts.Recv != nil {
		opts = append(opts, grpc.MaxCallRecvMsgSize(*c.Opts.Recv))
	}
	if c.Opts.Extras {
		opts = append(opts, grpc.Trailer(&tlr))
	}
	if c.Opts.Send != nil {
		opts = append(opts, grpc.MaxCallSendMsgSize(*c.Opts.Send))
	}
	if c.Opts.Extras {
		opts = append(opts, grpc.Peer(&pr))
	}
	if c.Kind == "unary" {
		var out structpb.ListValue
		if err := cc.Invoke(ctx, "/c02.O/U", optReq(0), &out, opts...); err != nil {
			return optObs{Err: err}
		}
		return optObs{Success: true, Msgs: []*structpb.ListValue{&out}}
	}
	var desc grpc.StreamDesc
	var method string
	nreq := 1
	switch c.Kind {
	case "cstream":
		desc, method, nreq = grpc.StreamDesc{StreamName: "CS", ClientStreams: true}, "/c02.O/CS", 2
	case "sstream":
		desc, method = grpc.StreamDesc{StreamName: "SS", ServerStreams: true}, "/c02.O/SS"
	case "bidi":
		desc, method, nreq = grpc.StreamDesc{StreamName: "BD", ClientStreams: true, ServerStreams: true}, "/c02.O/BD", 2
	}
	cs, err := cc.NewStream(ctx, &desc, method, opts...)
	if err != nil {
		return optObs{Err: err}
	}
	for i := 0; i < nreq; i++ {
		if err := cs.SendMsg(optReq(i)); err != nil {
			if err == io.EOF {
				break
			}
			return optObs{Err: err}
		}
	}
	if err := cs.CloseSend(); err != nil {
		return optObs{Err: err}
	}
	if respUnary(c.Kind) {
		var out structpb.ListValue
		if err := cs.RecvMsg(&out); err != nil {
			return optObs{Err: err}
		}
		return optObs{Success: true, Msgs: []*structpb.ListValue{&out}}
	}
	for n := 0; ; n++ {
		var out structpb.ListValue
		err := cs.RecvMsg(&out)
		if err == io.EOF {
			obs.Success = true
			return obs
		}
		if err != nil {
			obs.Err = err
			return obs
		}
		obs.Msgs = append(obs.Msgs, &out)
		if n > 16 {
			obs.Err = fmt.Errorf("checker: more than 16 response messages")
			return obs
		}
	}
}

var optConns = map[string]grpc.ClientConnInterface{}

// optConn: the transports of main.go with the option service registered next to c02.S.
func optConn(t *transports, name string) grpc.ClientConnInterface {
	if cc, ok := optConns[name]; ok {
		return cc
	}
	saved := t.conns
	t.conns = nil
	optSvcOverride = optService()
	cc := t.get(name)
	optSvcOverride = nil
	t.conns = saved
	optConns[name] = cc
	return cc
}

var optSvcOverride *common.Svc

func runOptCase(t *transports, c caseSpec) (*optRun, optObs) {
	r := &optRun{spec: c, err: c.Outcome.build(), pre: preCount(c.Kind, c.Pos), done: make(chan struct{})}
	if r.err == nil && respUnary(c.Kind) {
		r.pre = 1
	}
	id := strconv.FormatInt(optSeq.Add(1), 10)
	optRuns.Store(id, r)
	defer optRuns.Delete(id)
	cc := optConn(t, c.Transport)
	ch := make(chan optObs, 1)
	go func() { ch <- optDrive(cc, c, id) }()
	timer := time.NewTimer(hangGuard)
	defer timer.Stop()
	var obs optObs
	select {
	case obs = <-ch:
	case <-timer.C:
		inconclusive("hang guard: client did not finish within %v on case %s %s", hangGuard, c, c.Opts)
	}
	// the client's context is cancelled by now; a handler that was started ends
	if r.started.Load() {
		select {
		case <-r.done:
		case <-timer.C:
			inconclusive("hang guard: handler did not finish within %v on case %s %s (client saw: %s)", hangGuard, c, c.Opts, obs)
		}
	}
	return r, obs
}

// ---------------------------------------------------------------- oracle

func limClass(p *int, size int) string {
	switch {
	case p == nil:
		return "unset"
	case *p < size:
		return "below-size"
	case *p == size:
		return "at-size"
	}
	return "above-size"
}

func judgeOpt(r *optRun, obs optObs) verdict {
	c := r.spec
	o := c.Opts
	S, R := respSize(o.Shape), reqSize()
	// what the handler hands over (deterministic in the case)
	var want []*structpb.ListValue
	n := r.pre
	if c.Kind == "unary" && r.err != nil {
		n = 0 // a failing unary handler's response is not sent (a client-stream handler does send before it fails)
	}
	for i := 0; i < n; i++ {
		want = append(want, optResp(o.Shape, i))
	}
	exceeded := (o.Send != nil && R > *o.Send) || (o.Recv != nil && len(want) > 0 && S > *o.Recv)
	lc := fmt.Sprintf("maxrecv=%s|maxsend=%s", limClass(o.Recv, S), limClass(o.Send, R))
	mk := func(clause, tail, what string) verdict {
		return verdict{Clause: clause, FP: fmt.Sprintf("C02|%s|%s|%s|%s|%s", family(c.Transport), kindClass(c.Kind), clause, lc, tail),
			What: fmt.Sprintf("%s: case %s, call options %s (one response = %d bytes, one request = %d bytes); handler returns %v after handing over %d response(s); client: %s",
				what, c, o, S, R, errStr(r.err), len(want), obs)}
	}
	if obs.Panic != "" {
		return mk("opts-panic", c.Outcome.Class, "client-side library code panicked")
	}
	nEq := 0
	for nEq < len(obs.Msgs) && nEq < len(want) && proto.Equal(obs.Msgs[nEq], want[nEq]) {
		nEq++
	}
	if obs.Success {
		if r.err != nil {
			return mk("opts-success-on-failure", c.Outcome.Class, "handler failed but the client reports success")
		}
		if nEq != len(want) || len(obs.Msgs) != len(want) {
			how := "other"
			if len(obs.Msgs) == len(want) && nEq < len(want) && proto.Size(obs.Msgs[nEq]) < S {
				how = "shorter-message"
			} else if len(obs.Msgs) < len(want) {
				how = "fewer-messages"
			}
			return mk("opts-success-incomplete", how, "client reports success but does not hold exactly the handler's response")
		}
		return verdict{}
	}
	got := status.Convert(obs.Err)
	if got.Code() == codes.OK {
		return mk("opts-ok-code-on-failure", c.Outcome.Class, "the client's error carries code OK")
	}
	if nEq != len(obs.Msgs) {
		return mk("opts-msgs-not-prefix", c.Outcome.Class, "messages delivered before the error are not a prefix of those the handler sent")
	}
	if exceeded {
		return verdict{} // the caller's own limit refuses a message: any error is right
	}
	if r.err == nil {
		return mk("opts-failure-on-success", "nil", "no message exceeds the caller's limits and the handler returned nil, yet the client got an error")
	}
	wantSt := refStatus(r.err)
	if got.Code() != wantSt.Code {
		return mk("opts-code", c.Outcome.Class, fmt.Sprintf("code %d(%s), want %d(%s)", uint32(got.Code()), got.Code(), uint32(wantSt.Code), wantSt.Code))
	}
	if sanitise(got.Message()) != sanitise(wantSt.Message) {
		return mk("opts-message", c.Outcome.Class, fmt.Sprintf("message %q, want %q", got.Message(), wantSt.Message))
	}
	gd := got.Proto().GetDetails()
	same := len(gd) == len(wantSt.Details)
	for i := 0; same && i < len(gd); i++ {
		same = proto.Equal(gd[i], wantSt.Details[i])
	}
	if !same {
		return mk("opts-details", c.Outcome.Class, fmt.Sprintf("%d details, want %d (or contents differ)", len(gd), len(wantSt.Details)))
	}
	return verdict{}
}

// nontrivial: a limit is really in play (some message is at or over it) or the handler failed
func optNontrivialKey(r *optRun) string {
	c, o := r.spec, r.spec.Opts
	S, R := respSize(o.Shape), reqSize()
	if r.err == nil && (o.Recv == nil || *o.Recv > S) && (o.Send == nil || *o.Send > R) {
		return ""
	}
	return fmt.Sprintf("opts|%s|%s|%s|%s|%s", c.Transport, c.Kind, c.Outcome.Class, c.Pos, o)
}
