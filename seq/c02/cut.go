// The "cut short" dimension (HTTP only): genuine replies of the real server are
// recorded, then every proper prefix of the reply body is replayed to the real
// client (same status line and headers), ending cleanly (io.EOF) and abruptly
// (io.ErrUnexpectedEOF); plus the reply that never arrives (RoundTrip error).
// The client must never report success for such a reply, and what it delivered
// before the cut must be a prefix of what the handler sent.
package main

import (
	"bytes"
	"encoding/binary"
	"errors"
	"fmt"
	"io"
	"net/http"
	"net/url"
	"strconv"

	"github.com/fullstorydev/grpchan/httpgrpc"
	"google.golang.org/grpc"
	"google.golang.org/grpc/codes"
	"google.golang.org/grpc/status"
	"google.golang.org/protobuf/proto"

	"verif/seq/common"
)

type cutSpec struct {
	Off    int    `json:"off"`    // number of reply body bytes that arrive
	Ending string `json:"ending"` // clean | abrupt | lost-early | lost-late
}

// the recorded genuine replies
func cutScenarios() []caseSpec {
	fail := outcomeSpec{Class: "status", Code: 5, Msg: "colon", Details: []string{"struct", "unknown"}}
	ok := outcomeSpec{Class: "nil"}
	var out []caseSpec
	add := func(kind string, o outcomeSpec, pos string) {
		out = append(out, caseSpec{Transport: "http", Kind: kind, Outcome: o, Pos: pos, MD: true})
	}
	add("unary", ok, "after")
	add("unary", fail, "before")
	for _, k := range []string{"sstream", "bidi"} {
		for _, p := range []string{"before", "between", "after"} { // 0, 1, 2 responses
			add(k, ok, p)
			add(k, fail, p)
		}
	}
	add("cstream", ok, "after")
	add("cstream", fail, "before")
	add("cstream", fail, "after")
	return out
}

type recording struct {
	base   caseSpec
	code   int
	header http.Header
	body   []byte
	sent   []proto.Message
	ret    error
	full   observation
}

// record runs the base case on the real server and keeps the complete reply.
func record(base caseSpec) *recording {
	rec := &recording{base: base}
	srv := httpgrpc.NewServer()
	srv.RegisterService(theService().Desc(), common.Impl{})
	inner := guardRT(common.HandlerRT(srv))
	rt := common.RT(func(r *http.Request) (*http.Response, error) {
		resp, err := inner.RoundTrip(r)
		if err != nil {
			return nil, err
		}
		b, _ := io.ReadAll(resp.Body)
		resp.Body.Close()
		rec.code, rec.header, rec.body = resp.StatusCode, resp.Header.Clone(), b
		resp.Body = io.NopCloser(bytes.NewReader(b))
		return resp, nil
	})
	u, _ := url.Parse("http://c02.test/")
	rs, obs := runOn(&httpgrpc.Channel{Transport: rt, BaseURL: u}, base, true)
	rec.sent, rec.ret, rec.full = rs.sent, rs.ret, obs
	if rec.header == nil {
		inconclusive("cut: no reply recorded for %s (client: %s)", base, obs)
	}
	return rec
}

type cutBody struct {
	r   *bytes.Reader
	end error
}

func (b *cutBody) Read(p []byte) (int, error) {
	n, err := b.r.Read(p)
	if err == io.EOF {
		return n, b.end
	}
	return n, err
}
func (b *cutBody) Close() error { return nil }

// cutRT answers with the recorded status line and headers and the first off
// bytes of the recorded body. With a Content-Length header a real transport
// reports a short body itself, so a "clean" end before Content-Length bytes is
// delivered as io.ErrUnexpectedEOF, exactly what net/http's body reader does.
func cutRT(rec *recording, cut cutSpec) http.RoundTripper {
	return common.RT(func(r *http.Request) (*http.Response, error) {
		if cut.Ending == "lost-early" {
			return nil, errors.New("c02: connection reset before the request was sent")
		}
		if r.Body != nil {
			io.Copy(io.Discard, r.Body)
			r.Body.Close()
		}
		if cut.Ending == "lost-late" {
			return nil, errors.New("c02: connection reset while waiting for the reply")
		}
		end := io.EOF
		if cut.Ending == "abrupt" {
			end = io.ErrUnexpectedEOF
		}
		cl := int64(-1)
		if v := rec.header.Get("Content-Length"); v != "" {
			if n, err := strconv.ParseInt(v, 10, 64); err == nil {
				cl = n
				if int64(cut.Off) < n {
					end = io.ErrUnexpectedEOF
				}
			}
		}
		return &http.Response{StatusCode: rec.code, Status: fmt.Sprintf("%d %s", rec.code, http.StatusText(rec.code)),
			Proto: "HTTP/1.1", ProtoMajor: 1, ProtoMinor: 1, Header: rec.header.Clone(), ContentLength: cl,
			Body: &cutBody{r: bytes.NewReader(rec.body[:cut.Off]), end: end}, Request: r}, nil
	})
}

// cutClass names where in the reply the cut falls (never the offset itself).
func cutClass(rec *recording, cut cutSpec) string {
	switch cut.Ending {
	case "lost-early":
		return "roundtrip-error-before-request"
	case "lost-late":
		return "roundtrip-error-after-request"
	}
	e := "clean-eof"
	if cut.Ending == "abrupt" {
		e = "unexpected-eof"
	}
	if rec.code != 200 {
		return e + "-inside-http-error-body"
	}
	if rec.base.Kind == "unary" {
		return e + "-inside-unary-body"
	}
	// streams: walk the frames of the complete body
	b := rec.body
	for pos := 0; pos < len(b); {
		if cut.Off == pos {
			if pos == 0 {
				return e + "-empty-body"
			}
			return e + "-at-frame-boundary-before-trailer"
		}
		if pos+4 > len(b) {
			break
		}
		sz := int32(binary.BigEndian.Uint32(b[pos:]))
		what := "data"
		if sz < 0 {
			what, sz = "trailer", -sz
		}
		if cut.Off < pos+4 {
			return e + "-inside-" + what + "-size-preface"
		}
		if cut.Off < pos+4+int(sz) {
			return e + "-inside-" + what + "-frame"
		}
		pos += 4 + int(sz)
	}
	return e + "-unclassified"
}

func runCut(rec *recording, cut cutSpec) observation {
	u, _ := url.Parse("http://c02.test/")
	_, obs := runOn(&httpgrpc.Channel{Transport: cutRT(rec, cut), BaseURL: u}, rec.base, false)
	return obs
}

func isPrefix(got, sent []proto.Message) bool {
	if len(got) > len(sent) {
		return false
	}
	for i := range got {
		if !proto.Equal(got[i], sent[i]) {
			return false
		}
	}
	return true
}

func judgeCut(rec *recording, cut cutSpec, obs observation) verdict {
	kc, cc := kindClass(rec.base.Kind), cutClass(rec, cut)
	mk := func(clause, what string) verdict {
		return verdict{Clause: clause, FP: fmt.Sprintf("C02|http|%s|%s|%s", kc, clause, cc),
			What: fmt.Sprintf("%s: recorded reply of %s (handler returned %s after %d response(s); http %d, body %d bytes) cut to %d bytes, ending %s [%s]; client: %s",
				what, rec.base, errStr(rec.ret), len(rec.sent), rec.code, len(rec.body), cut.Off, cut.Ending, cc, obs)}
	}
	if obs.Panic != "" {
		return mk("truncated-panic", "client-side library code panicked on a truncated reply")
	}
	if obs.Success {
		return mk("truncated-success", "a reply that was cut short (or never arrived) is reported as success")
	}
	if status.Convert(obs.Err).Code() == codes.OK {
		return mk("truncated-ok-code", "the error reported for a truncated reply carries code OK")
	}
	if !isPrefix(obs.Msgs, rec.sent) {
		return mk("truncated-msgs-not-prefix", "messages delivered before the cut are not a prefix of those the handler sent")
	}
	return verdict{}
}

// allCuts enumerates every proper prefix x {clean, abrupt}, plus the two lost-reply cases.
func allCuts(rec *recording) []cutSpec {
	out := []cutSpec{{Ending: "lost-early"}, {Ending: "lost-late"}}
	for off := 0; off < len(rec.body); off++ {
		out = append(out, cutSpec{Off: off, Ending: "clean"}, cutSpec{Off: off, Ending: "abrupt"})
	}
	return out
}

// runOn drives one case against the given connection; withHandler says whether
// a handler is expected to run (and must be waited for).
func runOn(cc grpc.ClientConnInterface, c caseSpec, withHandler bool) (*runState, observation) {
	return runCaseOn(cc, c, withHandler)
}
