// C02: the client sees exactly the handler's final status; success only if the
// handler succeeded and the complete response arrived.
//
// Bounded-exhaustive enumeration of
//
//	transport {in-process, HTTP on a recorder, HTTP with the response pushed
//	           through net/http's own wire writer/parser}
//	x RPC kind {unary, client-stream, server-stream, bidi (half-duplex)}
//	x handler outcome {nil, every status (19 codes x 10 messages x 13 detail
//	           lists), plain error, context.Canceled, context.DeadlineExceeded,
//	           io.EOF, a wrapped status}
//	x position {before any response, between responses, after the last one}
//	x last response encodable / not
//
// through the real channels and servers, judged against refStatus (a small
// model of what a gRPC server does with a handler's error). In the thorough
// tier the same cases are also run against grpc-go itself over bufconn; a
// disagreement between grpc-go and the oracle is a checker error (exit 2).
package main

import (
	"bufio"
	"bytes"
	"context"
	"errors"
	"fmt"
	"io"
	"net"
	"net/http"
	"net/http/httptest"
	"net/url"
	"os"
	"runtime/debug"
	"sort"
	"strings"
	"sync/atomic"
	"time"
	"unicode/utf8"

	"github.com/fullstorydev/grpchan/grpchantesting"
	"github.com/fullstorydev/grpchan/httpgrpc"
	"github.com/fullstorydev/grpchan/inprocgrpc"
	spb "google.golang.org/genproto/googleapis/rpc/status"
	"google.golang.org/grpc"
	"google.golang.org/grpc/codes"
	"google.golang.org/grpc/credentials/insecure"
	"google.golang.org/grpc/grpclog"
	"google.golang.org/grpc/metadata"
	"google.golang.org/grpc/status"
	"google.golang.org/grpc/test/bufconn"
	"google.golang.org/protobuf/proto"
	"google.golang.org/protobuf/types/known/anypb"
	"google.golang.org/protobuf/types/known/structpb"
	"google.golang.org/protobuf/types/known/wrapperspb"

	"verif/seq/common"
	"verif/vlib"
)

// ---------------------------------------------------------------- grammar

var msgAlphabet = []struct{ ID, Text string }{
	{"empty", ""}, {"colon", "a:b"}, {"percent", "100%d"}, {"nonascii", "é"},
	{"crlf", "a\r\nb"}, {"trailsp", "x "}, {"badutf8", "\xff"},
	// well-formed percent-escapes and '+' (what URL / grpc-message style decoding would rewrite)
	{"pctenc", "50%25 of a%20b"}, {"pctreserved", "a%2Fb%3Ac%0A"}, {"plus", "a+b"},
}

func msgText(id string) string {
	for _, m := range msgAlphabet {
		if m.ID == id {
			return m.Text
		}
	}
	panic("unknown message id " + id)
}

var detailKinds = []string{"struct", "msg", "unknown"}

var detailAny = map[string]*anypb.Any{}

func init() {
	st, err := structpb.NewStruct(map[string]interface{}{"k": "v"})
	if err != nil {
		panic(err)
	}
	a, err := anypb.New(st)
	if err != nil {
		panic(err)
	}
	detailAny["struct"] = a
	a, err = anypb.New(&grpchantesting.Message{Payload: []byte("pay\x00load"), Count: 7})
	if err != nil {
		panic(err)
	}
	detailAny["msg"] = a
	detailAny["unknown"] = &anypb.Any{TypeUrl: "type.googleapis.com/verif.c02.NoSuchType", Value: []byte{0x08, 0x01, 0x12, 0x01, 0xff}}
}

type outcomeSpec struct {
	Class   string   `json:"class"` // nil | status | plain | canceled | deadline | eof | wrapped
	Code    uint32   `json:"code,omitempty"`
	Msg     string   `json:"msg,omitempty"` // id in msgAlphabet
	Details []string `json:"details,omitempty"`
}

func (o outcomeSpec) String() string {
	switch o.Class {
	case "status", "wrapped":
		return fmt.Sprintf("%s(code=%d,msg=%s,details=%s)", o.Class, o.Code, o.Msg, strings.Join(o.Details, "+"))
	}
	return o.Class
}

func (o outcomeSpec) statusErr() error {
	p := &spb.Status{Code: int32(o.Code), Message: msgText(o.Msg)}
	for _, d := range o.Details {
		p.Details = append(p.Details, detailAny[d])
	}
	return status.FromProto(p).Err() // nil for code 0, exactly like status.Error(codes.OK, ...)
}

func (o outcomeSpec) build() error {
	switch o.Class {
	case "nil":
		return nil
	case "status":
		return o.statusErr()
	case "plain":
		return errors.New("boom: plain failure")
	case "canceled":
		return context.Canceled
	case "deadline":
		return context.DeadlineExceeded
	case "eof":
		return io.EOF
	case "wrapped":
		return fmt.Errorf("wrap: %w", o.statusErr())
	}
	panic("unknown outcome class " + o.Class)
}

type caseSpec struct {
	Transport string      `json:"transport"` // inproc | http | httpwire | grpcgo
	Kind      string      `json:"kind"`      // unary | cstream | sstream | bidi
	Outcome   outcomeSpec `json:"outcome"`
	Pos       string      `json:"pos"` // before | between | after
	BadResp   bool        `json:"bad_resp"`
	MD        bool        `json:"md,omitempty"`   // handler also sets header and trailer metadata
	Cut       *cutSpec    `json:"cut,omitempty"`  // replay the recorded reply of this case cut short (see cut.go)
	Opts      *optSpec    `json:"opts,omitempty"` // the caller passes these call options (see opts.go)
}

func (c caseSpec) String() string {
	return fmt.Sprintf("%s/%s/%s/pos=%s/bad=%v", c.Transport, c.Kind, c.Outcome, c.Pos, c.BadResp)
}

var kinds = []string{"unary", "cstream", "sstream", "bidi"}

func respUnary(kind string) bool { return kind == "unary" || kind == "cstream" }
func reqStream(kind string) bool { return kind == "cstream" || kind == "bidi" }

func kindClass(kind string) string {
	if kind == "bidi" {
		return "sstream"
	}
	return kind
}

func positions(kind string) []string {
	if respUnary(kind) {
		return []string{"before", "after"}
	}
	return []string{"before", "between", "after"}
}

// number of response messages the handler hands over before returning
func preCount(kind, pos string) int {
	switch pos {
	case "before":
		return 0
	case "between":
		return 1
	}
	if respUnary(kind) {
		return 1
	}
	return 2
}

func allOutcomes() []outcomeSpec {
	out := []outcomeSpec{{Class: "nil"}, {Class: "plain"}, {Class: "canceled"}, {Class: "deadline"}, {Class: "eof"},
		{Class: "wrapped", Code: 5, Msg: "colon"}, {Class: "wrapped", Code: 9, Msg: "nonascii", Details: []string{"struct", "unknown"}}}
	var dl [][]string
	dl = append(dl, nil)
	for _, a := range detailKinds {
		dl = append(dl, []string{a})
	}
	for _, a := range detailKinds {
		for _, b := range detailKinds {
			dl = append(dl, []string{a, b})
		}
	}
	var cl []uint32
	for c := uint32(0); c <= 17; c++ {
		cl = append(cl, c)
	}
	cl = append(cl, 99)
	// simplest first: no details, then one, then two; inside that by message, then code
	for _, d := range dl {
		for _, m := range msgAlphabet {
			for _, c := range cl {
				out = append(out, outcomeSpec{Class: "status", Code: c, Msg: m.ID, Details: d})
			}
		}
	}
	return out
}

func allCases(transport string) []caseSpec {
	var out []caseSpec
	for _, k := range kinds {
		for _, o := range allOutcomes() {
			for _, p := range positions(k) {
				out = append(out, caseSpec{Transport: transport, Kind: k, Outcome: o, Pos: p})
				if preCount(k, p) > 0 {
					out = append(out, caseSpec{Transport: transport, Kind: k, Outcome: o, Pos: p, BadResp: true})
				}
			}
		}
	}
	return out
}

// ---------------------------------------------------------------- handler side

type runState struct {
	spec caseSpec
	err  error // what the script returns after the responses
	pre  int

	// written by the handler goroutine, read by the driver after <-done
	ret     error
	sent    []proto.Message
	sendErr error
	recvErr error
	recvd   int
	done    chan struct{}

	handlerPanic atomic.Value // string
}

var cur atomic.Pointer[runState]

func newRunState(c caseSpec) *runState {
	rs := &runState{spec: c, err: c.Outcome.build(), pre: preCount(c.Kind, c.Pos), done: make(chan struct{})}
	if rs.err == nil && respUnary(c.Kind) {
		// a handler that succeeds must produce its single response
		rs.pre = 1
	}
	return rs
}

func (rs *runState) respMsg(i int) *wrapperspb.StringValue {
	if rs.spec.BadResp && i == rs.pre-1 {
		return wrapperspb.String(fmt.Sprintf("r%d\xff", i)) // invalid UTF-8 in a proto3 string: cannot be marshalled
	}
	return wrapperspb.String(fmt.Sprintf("r%d", i))
}

func unaryHandler(ctx context.Context, dec func(interface{}) error) (resp interface{}, err error) {
	rs := cur.Load()
	defer func() {
		rs.ret = err
		if err == nil && resp != nil {
			rs.sent = append(rs.sent, resp.(proto.Message))
		}
		close(rs.done)
	}()
	var in wrapperspb.StringValue
	if err := dec(&in); err != nil {
		rs.recvErr = err
		return nil, err
	}
	rs.recvd++
	if rs.spec.MD {
		grpc.SetHeader(ctx, metadata.Pairs("c02-h", "hv"))
		grpc.SetTrailer(ctx, metadata.Pairs("c02-t", "tv1", "c02-t", "tv2"))
	}
	if rs.pre > 0 {
		return rs.respMsg(0), rs.err
	}
	return nil, rs.err
}

func streamHandler(clientStreams bool) common.StreamFn {
	return func(ss grpc.ServerStream) (err error) {
		rs := cur.Load()
		defer func() {
			rs.ret = err
			close(rs.done)
		}()
		// half-duplex: take the whole request first
		for {
			var in wrapperspb.StringValue
			e := ss.RecvMsg(&in)
			if e == io.EOF && clientStreams {
				break
			}
			if e != nil {
				rs.recvErr = e
				return e
			}
			rs.recvd++
			if !clientStreams {
				break
			}
		}
		if rs.spec.MD {
			ss.SetHeader(metadata.Pairs("c02-h", "hv"))
			ss.SetTrailer(metadata.Pairs("c02-t", "tv1", "c02-t", "tv2")) // one key: the trailer frame's bytes are deterministic
		}
		for i := 0; i < rs.pre; i++ {
			m := rs.respMsg(i)
			if e := ss.SendMsg(m); e != nil {
				rs.sendErr = e
				return e // what every generated-code handler does
			}
			rs.sent = append(rs.sent, m)
		}
		return rs.err
	}
}

func theService() *common.Svc {
	return &common.Svc{Name: "c02.S",
		Unary: map[string]common.UnaryFn{"U": unaryHandler},
		Streams: map[string]common.StreamDef{
			"CS": {Fn: streamHandler(true), ClientStreams: true},
			"SS": {Fn: streamHandler(false), ServerStreams: true},
			"BD": {Fn: streamHandler(true), ClientStreams: true, ServerStreams: true},
		}}
}

// ---------------------------------------------------------------- transports

// guardRT turns a panic below it (server code runs synchronously under
// HandlerRT) into an error and remembers it.
func guardRT(inner http.RoundTripper) http.RoundTripper {
	return common.RT(func(r *http.Request) (resp *http.Response, err error) {
		defer func() {
			if p := recover(); p != nil {
				if rs := cur.Load(); rs != nil {
					rs.handlerPanic.Store(fmt.Sprintf("%v\n%s", p, debug.Stack()))
				}
				resp, err = nil, fmt.Errorf("server side panicked: %v", p)
			}
		}()
		return inner.RoundTrip(r)
	})
}

// wireRT sends the recorded response through net/http's own serializer and
// parser (http.Response.Write, http.ReadResponse): the exact header
// sanitising a real HTTP/1.1 server and client apply, without a socket.
func wireRT(inner http.RoundTripper) http.RoundTripper {
	return common.RT(func(r *http.Request) (*http.Response, error) {
		resp, err := inner.RoundTrip(r)
		if err != nil {
			return nil, err
		}
		if resp.ContentLength < 0 {
			resp.TransferEncoding = []string{"chunked"}
		}
		var buf bytes.Buffer
		if err := resp.Write(&buf); err != nil {
			return nil, fmt.Errorf("wire: write: %w", err)
		}
		out, err := http.ReadResponse(bufio.NewReader(&buf), r)
		if err != nil {
			return nil, fmt.Errorf("wire: read: %w", err)
		}
		return out, nil
	})
}

type transports struct {
	conns map[string]grpc.ClientConnInterface
	stop  []func()
}

func (t *transports) get(name string) grpc.ClientConnInterface {
	if cc, ok := t.conns[name]; ok {
		return cc
	}
	svc := theService()
	if optSvcOverride != nil {
		svc = optSvcOverride
	}
	var cc grpc.ClientConnInterface
	switch name {
	case "inproc":
		ch := &inprocgrpc.Channel{}
		ch.RegisterService(svc.Desc(), common.Impl{})
		cc = ch
	case "http", "httpwire":
		srv := httpgrpc.NewServer()
		srv.RegisterService(svc.Desc(), common.Impl{})
		u, _ := url.Parse("http://c02.test/")
		rt := guardRT(common.HandlerRT(srv))
		if name == "httpwire" {
			rt = wireRT(rt)
		}
		cc = &httpgrpc.Channel{Transport: rt, BaseURL: u}
	case "httploop":
		srv := httpgrpc.NewServer()
		srv.RegisterService(svc.Desc(), common.Impl{})
		ts := httptest.NewServer(srv)
		u, _ := url.Parse(ts.URL)
		tr := &http.Transport{}
		cc = &httpgrpc.Channel{Transport: tr, BaseURL: u}
		t.stop = append(t.stop, func() { tr.CloseIdleConnections(); ts.Close() })
	case "grpcgo":
		lis := bufconn.Listen(1 << 20)
		gs := grpc.NewServer()
		gs.RegisterService(svc.Desc(), common.Impl{})
		go gs.Serve(lis)
		conn, err := grpc.Dial("passthrough:///c02", grpc.WithContextDialer(func(ctx context.Context, _ string) (net.Conn, error) { return lis.DialContext(ctx) }),
			grpc.WithTransportCredentials(insecure.NewCredentials()))
		if err != nil {
			inconclusive("grpc.Dial over bufconn: %v", err)
		}
		cc = conn
		t.stop = append(t.stop, func() { conn.Close(); gs.Stop() })
	default:
		panic("unknown transport " + name)
	}
	if t.conns == nil {
		t.conns = map[string]grpc.ClientConnInterface{}
	}
	t.conns[name] = cc
	return cc
}

func (t *transports) close() {
	for _, f := range t.stop {
		f()
	}
}

func encodes(transport string) bool { return transport != "inproc" }

func family(transport string) string {
	if strings.HasPrefix(transport, "http") {
		return "http"
	}
	return transport
}

// ---------------------------------------------------------------- client side

type observation struct {
	Success bool
	Err     error
	Msgs    []proto.Message
	Panic   string
}

func (o observation) String() string {
	if o.Panic != "" {
		return "PANIC " + o.Panic
	}
	var ms []string
	for _, m := range o.Msgs {
		ms = append(ms, fmt.Sprintf("%q", m.(*wrapperspb.StringValue).Value))
	}
	if o.Success {
		return fmt.Sprintf("success msgs=[%s] err=%v", strings.Join(ms, ","), o.Err)
	}
	st := status.Convert(o.Err)
	return fmt.Sprintf("error %T %q -> code=%d(%s) message=%q details=%d msgs=[%s]", o.Err, o.Err.Error(), uint32(st.Code()), st.Code(), st.Message(), len(st.Proto().GetDetails()), strings.Join(ms, ","))
}

func drive(cc grpc.ClientConnInterface, kind string) (obs observation) {
	defer func() {
		if p := recover(); p != nil {
			obs = observation{Panic: fmt.Sprintf("%v\n%s", p, debug.Stack())}
		}
	}()
	ctx, cancel := context.WithCancel(context.Background())
	defer cancel()
	if kind == "unary" {
		var out wrapperspb.StringValue
		err := cc.Invoke(ctx, "/c02.S/U", wrapperspb.String("req0"), &out)
		if err == nil {
			return observation{Success: true, Msgs: []proto.Message{&out}}
		}
		return observation{Err: err}
	}
	var desc grpc.StreamDesc
	var method string
	nreq := 1
	switch kind {
	case "cstream":
		desc, method, nreq = grpc.StreamDesc{StreamName: "CS", ClientStreams: true}, "/c02.S/CS", 2
	case "sstream":
		desc, method = grpc.StreamDesc{StreamName: "SS", ServerStreams: true}, "/c02.S/SS"
	case "bidi":
		desc, method, nreq = grpc.StreamDesc{StreamName: "BD", ClientStreams: true, ServerStreams: true}, "/c02.S/BD", 2
	}
	cs, err := cc.NewStream(ctx, &desc, method)
	if err != nil {
		return observation{Err: err}
	}
	for i := 0; i < nreq; i++ {
		if err := cs.SendMsg(wrapperspb.String(fmt.Sprintf("req%d", i))); err != nil {
			if err == io.EOF {
				break // the stream is over; RecvMsg tells why
			}
			return observation{Err: err}
		}
	}
	if err := cs.CloseSend(); err != nil {
		return observation{Err: err}
	}
	if respUnary(kind) {
		// exactly what generated CloseAndRecv does
		var out wrapperspb.StringValue
		if err := cs.RecvMsg(&out); err != nil {
			return observation{Err: err}
		}
		return observation{Success: true, Msgs: []proto.Message{&out}}
	}
	for n := 0; ; n++ {
		var out wrapperspb.StringValue
		err := cs.RecvMsg(&out)
		if err == io.EOF {
			obs.Success = true
			obs.Err = err
			return obs
		}
		if err != nil {
			obs.Err = err
			return obs
		}
		obs.Msgs = append(obs.Msgs, &out)
		if n > 16 {
			obs.Err = fmt.Errorf("checker: more than 16 response messages")
			return obs
		}
	}
}

// ---------------------------------------------------------------- oracle

type refSt struct {
	Code    codes.Code
	Message string
	Details []*anypb.Any
}

type statusCarrier interface{ GRPCStatus() *status.Status }

// refStatus is the model: what a gRPC server makes of the error a handler returns.
func refStatus(err error) refSt {
	if err == nil {
		return refSt{Code: codes.OK}
	}
	if sc, ok := err.(statusCarrier); ok && sc.GRPCStatus() != nil {
		p := sc.GRPCStatus().Proto()
		return refSt{Code: codes.Code(p.GetCode()), Message: p.GetMessage(), Details: p.GetDetails()}
	}
	var sc statusCarrier
	if errors.As(err, &sc) && sc.GRPCStatus() != nil {
		p := sc.GRPCStatus().Proto()
		return refSt{Code: codes.Code(p.GetCode()), Message: err.Error(), Details: p.GetDetails()}
	}
	switch {
	case errors.Is(err, context.DeadlineExceeded):
		return refSt{Code: codes.DeadlineExceeded, Message: err.Error()}
	case errors.Is(err, context.Canceled):
		return refSt{Code: codes.Canceled, Message: err.Error()}
	}
	return refSt{Code: codes.Unknown, Message: err.Error()}
}

// sanitise is what grpc-go does to a status message on the wire: every byte
// that is not part of valid UTF-8 becomes U+FFFD.
func sanitise(s string) string {
	if utf8.ValidString(s) {
		return s
	}
	var b strings.Builder
	for len(s) > 0 {
		r, sz := utf8.DecodeRuneInString(s)
		if r == utf8.RuneError && sz == 1 {
			b.WriteString("\uFFFD")
		} else {
			b.WriteString(s[:sz])
		}
		s = s[sz:]
	}
	return b.String()
}

func sameMsgs(a, b []proto.Message) bool {
	if len(a) != len(b) {
		return false
	}
	for i := range a {
		if !proto.Equal(a[i], b[i]) {
			return false
		}
	}
	return true
}

func hasBad(ms []proto.Message) bool {
	for _, m := range ms {
		if !utf8.ValidString(m.(*wrapperspb.StringValue).Value) {
			return true
		}
	}
	return false
}

type verdict struct {
	Clause string // "" = holds
	FP     string
	What   string
}

func outcomeClassOf(rs *runState) string {
	switch {
	case rs.sendErr != nil:
		return "send-error"
	case rs.recvErr != nil:
		return "recv-error"
	}
	return rs.spec.Outcome.Class
}

// judge compares what the client saw with what the handler did.
func judge(rs *runState, obs observation) verdict {
	c := rs.spec
	fam, kc := family(c.Transport), kindClass(c.Kind)
	mk := func(clause, tail, what string) verdict {
		return verdict{Clause: clause, FP: fmt.Sprintf("C02|%s|%s|%s|%s", fam, kc, clause, tail),
			What: fmt.Sprintf("%s: case %s; handler returned %v after handing over %d response(s); client: %s", what, c, errStr(rs.ret), len(rs.sent), obs)}
	}
	if obs.Panic != "" {
		return mk("panic", "client|"+outcomeClassOf(rs), "client-side library code panicked")
	}
	if p, _ := rs.handlerPanic.Load().(string); p != "" {
		return mk("panic", "server|"+outcomeClassOf(rs), "server-side library code panicked: "+p)
	}
	posClass := "no-response-yet"
	if len(rs.sent) > 0 {
		posClass = "after-response"
	}
	if rs.ret == nil {
		if obs.Success {
			if !sameMsgs(obs.Msgs, rs.sent) {
				return mk("success-incomplete", fmt.Sprintf("sent=%d|got=%d|bad=%v", len(rs.sent), len(obs.Msgs), hasBad(rs.sent)), "client reports success but did not receive exactly the handler's response")
			}
			return verdict{}
		}
		if encodes(c.Transport) && hasBad(rs.sent) {
			return verdict{} // the response could not be encoded: any error is right
		}
		return mk("failure-on-success", fmt.Sprintf("sent=%d|bad=%v", len(rs.sent), hasBad(rs.sent)), "handler returned nil and the response is deliverable, yet the client got an error")
	}
	want := refStatus(rs.ret)
	uncarriable := encodes(c.Transport) && !utf8.ValidString(want.Message)
	if obs.Success {
		oc := "error"
		switch {
		case rs.sendErr != nil:
			oc = "unencodable-response"
		case rs.recvErr != nil:
			oc = "recv-error"
		case rs.ret == io.EOF:
			oc = "eof"
		case uncarriable:
			oc = "uncarriable-status"
		}
		return mk("success-on-failure", oc+"|"+posClass, "handler failed but the client reports success")
	}
	got := status.Convert(obs.Err)
	if got.Code() == codes.OK {
		return mk("ok-code-on-failure", outcomeClassOf(rs), "handler failed but the client's error carries code OK")
	}
	if uncarriable {
		return verdict{} // cannot be carried verbatim: non-OK is all that is required
	}
	if rs.sendErr != nil && encodes(c.Transport) {
		// The handler merely passed on the transport's own complaint about a
		// response it could not encode; the statement asks for "an error" then.
		return verdict{}
	}
	tail := outcomeClassOf(rs)
	if got.Code() != want.Code {
		if tail == "status" {
			tail = fmt.Sprintf("status:code=%d", c.Outcome.Code)
		}
		return mk("code", tail, fmt.Sprintf("code %d(%s), want %d(%s)", uint32(got.Code()), got.Code(), uint32(want.Code), want.Code))
	}
	if sanitise(got.Message()) != sanitise(want.Message) {
		if tail == "status" {
			tail = "status:msg=" + c.Outcome.Msg
		}
		return mk("message", tail, fmt.Sprintf("message %q, want %q", got.Message(), want.Message))
	}
	gd := got.Proto().GetDetails()
	same := len(gd) == len(want.Details)
	for i := 0; same && i < len(gd); i++ {
		same = proto.Equal(gd[i], want.Details[i])
	}
	if !same {
		if tail == "status" || tail == "wrapped" {
			tail += ":details=" + strings.Join(c.Outcome.Details, "+")
		}
		return mk("details", tail, fmt.Sprintf("%d details, want %d (or contents differ)", len(gd), len(want.Details)))
	}
	return verdict{}
}

func errStr(err error) string {
	if err == nil {
		return "nil"
	}
	return fmt.Sprintf("%T(%q)", err, err.Error())
}

// ---------------------------------------------------------------- running

func inconclusive(f string, a ...interface{}) {
	fmt.Fprintf(os.Stderr, "INCONCLUSIVE: "+f+"\n", a...)
	os.Exit(2)
}

const hangGuard = 30 * time.Second

// runCase runs one case on the real code. It never returns on a hang (exit 2).
func runCase(t *transports, c caseSpec) (*runState, observation) {
	return runCaseOn(t.get(c.Transport), c, true)
}

func runCaseOn(cc grpc.ClientConnInterface, c caseSpec, withHandler bool) (*runState, observation) {
	rs := newRunState(c)
	cur.Store(rs)
	ch := make(chan observation, 1)
	go func() { ch <- drive(cc, c.Kind) }()
	timer := time.NewTimer(hangGuard)
	defer timer.Stop()
	var obs observation
	select {
	case obs = <-ch:
	case <-timer.C:
		inconclusive("hang guard: client did not finish within %v on case %s", hangGuard, c)
	}
	if p, _ := rs.handlerPanic.Load().(string); p != "" || !withHandler {
		return rs, obs
	}
	select {
	case <-rs.done:
	case <-timer.C:
		inconclusive("hang guard: handler did not finish within %v on case %s (client saw: %s)", hangGuard, c, obs)
	}
	return rs, obs
}

// canonical key of the case as far as the mechanism can tell it apart
func nontrivialKey(rs *runState) string {
	if rs.ret == nil && !hasBad(rs.sent) {
		return ""
	}
	c := rs.spec
	return fmt.Sprintf("%s|%s|%s|pre=%d|bad=%v", c.Transport, c.Kind, c.Outcome, rs.pre, c.BadResp)
}

func main() {
	debug.SetMemoryLimit(2 << 30)
	grpclog.SetLoggerV2(grpclog.NewLoggerV2(io.Discard, io.Discard, io.Discard))
	rep := vlib.NewReporter("C02")
	t := &transports{}

	if p := common.Arg("replay"); p != "" {
		var c caseSpec
		if err := common.LoadReplay(p, &c); err != nil {
			inconclusive("replay file: %v", err)
		}
		if c.Cut != nil {
			cut := *c.Cut
			c.Cut = nil
			rec := record(c)
			obs := runCut(rec, cut)
			v := judgeCut(rec, cut, obs)
			fmt.Printf("replay: recorded reply of %s: http %d, %d body bytes, handler returned %s after %d response(s)\n  cut: %d bytes arrive, ending %s [%s]\n  client observed: %s\n  verdict: %q %s\n",
				c, rec.code, len(rec.body), errStr(rec.ret), len(rec.sent), cut.Off, cut.Ending, cutClass(rec, cut), obs, v.Clause, v.FP)
			if v.Clause != "" {
				fmt.Printf("VIOLATION property=C02 replay=%s\n", p)
				os.Exit(1)
			}
			os.Exit(0)
		}
		if c.Opts != nil {
			r, obs := runOptCase(t, c)
			v := judgeOpt(r, obs)
			fmt.Printf("replay: case %s\n  call options: %s (one response = %d bytes, one request = %d bytes)\n  handler returns: %s after handing over %d response(s)\n  client observed: %s\n  verdict: %q %s\n",
				c, c.Opts, respSize(c.Opts.Shape), reqSize(), errStr(r.err), r.pre, obs, v.Clause, v.FP)
			t.close()
			if v.Clause != "" {
				fmt.Printf("VIOLATION property=C02 replay=%s\n", p)
				os.Exit(1)
			}
			os.Exit(0)
		}
		rs, obs := runCase(t, c)
		v := judge(rs, obs)
		ref := refStatus(rs.ret)
		fmt.Printf("replay: case %s\n  handler returned: %s (responses handed over: %d)\n  reference status: code=%d(%s) message=%q details=%d\n  client observed: %s\n  verdict: %q %s\n",
			c, errStr(rs.ret), len(rs.sent), uint32(ref.Code), ref.Code, ref.Message, len(ref.Details), obs, v.Clause, v.FP)
		t.close()
		if v.Clause != "" {
			fmt.Printf("VIOLATION property=C02 replay=%s\n", p)
			os.Exit(1)
		}
		os.Exit(0)
	}

	thorough := rep.Tier == "thorough"
	evals := 0
	distinct := map[string]bool{}
	perTransport := map[string]int{}
	clauseCount := map[string]int64{}
	var samples []interface{}
	sampleWanted := map[string]bool{}
	sampleN := map[string]int{}

	// thorough: first make sure the oracle agrees with grpc-go on every handler outcome
	parity := 0
	if thorough {
		for _, c := range allCases("grpcgo") {
			rs, obs := runCase(t, c)
			parity++
			if v := judge(rs, obs); v.Clause != "" {
				t.close()
				inconclusive("oracle disagrees with grpc-go (checker error, not a violation): %s\n  %s", v.FP, v.What)
			}
		}
	}

	for _, tr := range []string{"inproc", "http", "httpwire"} {
		for _, c := range allCases(tr) {
			rs, obs := runCase(t, c)
			evals++
			perTransport[tr]++
			if k := nontrivialKey(rs); k != "" {
				distinct[k] = true
			}
			v := judge(rs, obs)
			sk := tr + "|" + c.Kind + "|" + c.Outcome.Class + "|" + v.Clause
			if !sampleWanted[sk] && sampleN[tr] < 8 && c.Pos != "before" && (c.Outcome.Class != "status" || (c.Outcome.Code == 5 && c.Outcome.Msg == "crlf")) {
				sampleWanted[sk] = true
				sampleN[tr]++
				samples = append(samples, map[string]interface{}{"case": c.String(), "handler_returned": errStr(rs.ret), "client": obs.String(), "verdict": v.Clause})
			}
			if v.Clause != "" {
				clauseCount[v.FP]++
				rep.Violation(v.FP, v.What, c)
			}
		}
	}

	// call options: the caller's own size limits (at, below, above the message sizes), alone and next to Header/Trailer/Peer
	optEvals, optParity := 0, 0
	optClasses := map[string]int{}
	if thorough {
		for _, c := range allOptCases("grpcgo") {
			r, obs := runOptCase(t, c)
			optParity++
			if v := judgeOpt(r, obs); v.Clause != "" {
				t.close()
				inconclusive("call-option oracle disagrees with grpc-go (checker error, not a violation): %s\n  %s", v.FP, v.What)
			}
		}
	}
	for _, tr := range []string{"inproc", "http", "httpwire"} {
		for _, c := range allOptCases(tr) {
			r, obs := runOptCase(t, c)
			evals++
			optEvals++
			perTransport[tr]++
			if k := optNontrivialKey(r); k != "" {
				distinct[k] = true
			}
			S, R := respSize(c.Opts.Shape), reqSize()
			oc := "failure"
			if obs.Success {
				oc = "success"
			}
			optClasses[fmt.Sprintf("%s|maxrecv=%s|maxsend=%s|%s", family(tr), limClass(c.Opts.Recv, S), limClass(c.Opts.Send, R), oc)]++
			v := judgeOpt(r, obs)
			sk := "opts|" + tr + "|" + c.Kind + "|" + limClass(c.Opts.Recv, S)
			if !sampleWanted[sk] && sampleN["opts"] < 8 && c.Opts.Shape == "three" && c.Opts.Recv != nil && c.Pos == "after" {
				sampleWanted[sk] = true
				sampleN["opts"]++
				samples = append(samples, map[string]interface{}{"case": c.String(), "call_options": c.Opts.String(), "client": obs.String(), "verdict": v.Clause})
			}
			if v.Clause != "" {
				clauseCount[v.FP]++
				rep.Violation(v.FP, v.What, c)
			}
		}
	}

	// cut-short replies (HTTP): every proper prefix of recorded genuine replies, clean and abrupt, plus lost replies
	cutEvals := 0
	cutClasses := map[string]int{}
	for _, base := range cutScenarios() {
		rec := record(base)
		// the replay harness must reproduce the genuine exchange when nothing is cut
		if whole := runCut(rec, cutSpec{Off: len(rec.body), Ending: "clean"}); whole.String() != rec.full.String() {
			t.close()
			inconclusive("cut: replaying the complete recorded reply of %s differs from the genuine exchange (checker error)\n  genuine: %s\n  replay:  %s", base, rec.full, whole)
		}
		for _, cut := range allCuts(rec) {
			obs := runCut(rec, cut)
			evals++
			cutEvals++
			cc := cutClass(rec, cut)
			cutClasses[kindClass(base.Kind)+"|"+cc]++
			distinct[fmt.Sprintf("cut|%s|%d|%s", base, cut.Off, cut.Ending)] = true
			v := judgeCut(rec, cut, obs)
			sk := "cut|" + base.Kind + "|" + cc
			if !sampleWanted[sk] && sampleN["cut"] < 10 && base.Outcome.Class == "status" && cut.Ending != "abrupt" {
				sampleWanted[sk] = true
				sampleN["cut"]++
				samples = append(samples, map[string]interface{}{"case": base.String(), "cut": cut, "cut_class": cc, "client": obs.String(), "verdict": v.Clause})
			}
			if v.Clause != "" {
				clauseCount[v.FP]++
				cc := base
				cc.Cut = &cutSpec{Off: cut.Off, Ending: cut.Ending}
				rep.Violation(v.FP, v.What, cc)
			}
		}
	}

	// thorough: the wire model (Response.Write / ReadResponse) against a real loopback net/http server
	loop := 0
	if thorough {
		for _, m := range msgAlphabet {
			for _, d := range [][]string{nil, {"struct", "unknown"}} {
				for _, k := range kinds {
					base := caseSpec{Kind: k, Outcome: outcomeSpec{Class: "status", Code: 5, Msg: m.ID, Details: d}, Pos: "before"}
					a, b := base, base
					a.Transport, b.Transport = "httpwire", "httploop"
					_, oa := runCase(t, a)
					_, ob := runCase(t, b)
					loop++
					if oa.String() != ob.String() {
						t.close()
						inconclusive("wire model differs from a real loopback net/http exchange (checker error): case %s\n  model: %s\n  real:  %s", base, oa, ob)
					}
				}
			}
		}
	}
	t.close()

	var fps []string
	for fp, n := range clauseCount {
		fps = append(fps, fmt.Sprintf("%s x%d", fp, n))
	}
	sort.Strings(fps)
	cov := map[string]interface{}{
		"evaluations":         evals,
		"distinct_nontrivial": len(distinct),
		"rule": "total enumeration of transport {inproc, http (recorder), httpwire (recorder + net/http wire writer/parser)} x kind {unary, cstream, sstream, bidi half-duplex} x outcome {nil, plain, context.Canceled, context.DeadlineExceeded, io.EOF, 2 wrapped statuses, status: 19 codes (0..17, 99) x 10 messages x 13 ordered detail lists of length 0..2} x position {before, [between,] after} x last response encodable/not (only where a response precedes the return). " +
			"A case is non-trivial when the handler really returned a non-nil error or handed over an unencodable response, i.e. the error/trailer path of the transport ran; distinct by (transport, kind, outcome, responses handed over, encodable). " +
			"Cut dimension (HTTP client): for 19 recorded genuine replies (unary ok/error; sstream and bidi with 0..2 responses, cstream; handler ok / NotFound with 2 details; header and trailer metadata) every proper prefix of the reply body x {clean io.EOF, io.ErrUnexpectedEOF} plus RoundTrip error before/after the request; every such case is non-trivial (it runs the client's truncation handling), distinct by (scenario, offset, ending). " +
			"Call-option dimension (all three transports): kind x position x outcome {nil, NotFound with 2 details, plain error} x response shape {1, 3, 300 equal-sized elements of a repeated field} x {grpc.MaxCallRecvMsgSize(n) for every n in 0..S+1 (300 elements: 0, 1, first/last element boundary, S-1, S, S+1), grpc.MaxCallSendMsgSize(n) for n in {0, 1, element boundary, R-1, R, R+1}, three pairs of both} x {alone, next to grpc.Header+grpc.Trailer+grpc.Peer}; non-trivial when some limit is at or below a message size or the handler failed, distinct by (transport, kind, outcome class, position, option set).",
		"cut_cases":              cutEvals,
		"call_option_cases":      optEvals,
		"call_option_classes":    optClasses,
		"cut_classes":            cutClasses,
		"per_transport":          perTransport,
		"samples":                samples,
		"exhaustive":             true,
		"violating_fingerprints": fps,
	}
	if thorough {
		cov["grpcgo_parity_cases"] = parity
		cov["loopback_parity_cases"] = loop
		cov["grpcgo_call_option_parity_cases"] = optParity
	}
	os.Exit(rep.Finish("exploration", cov, []string{
		"client contexts are never cancelled and carry no deadline; cancellation races are C04's subject",
		"HTTP runs on common.HandlerRT (handler on a recorder, response complete when RoundTrip returns); the httpwire flavour additionally serialises the response with http.Response.Write and parses it with http.ReadResponse, validated in the thorough tier against a real loopback net/http server",
		"handlers follow the generated-code convention of returning the error of a failed SendMsg/RecvMsg",
		"for a status whose message is not valid UTF-8 on an encoding transport only 'non-OK' is demanded",
		"call options: a size limit that some request/response message exceeds entitles the client to fail the call with any non-OK error (grpc-go: ResourceExhausted) but never to report success without the complete response; a limit that no message exceeds must leave the outcome exactly the handler's status. Sizes are proto.Size of the message, as in grpc-go",
		"cut replies: no cut is exempted. A unary OK reply carries Content-Length, so a real transport reports a short body itself; the canned body reader models that by ending with io.ErrUnexpectedEOF whenever fewer than Content-Length bytes arrive (only a unary reply without Content-Length cut inside the protobuf body would be undetectable at the HTTP layer, and the server never produces one). For a non-200 reply the status comes from the headers and the body text is irrelevant: the client must still report non-OK.",
	}))
}
