# sourced by every script in /verif
export GOFLAGS=-mod=mod GOPROXY=off GOSUMDB=off GOTOOLCHAIN=local CGO_ENABLED=0
export VERIF_ROOT=/verif
export VERIF_REPO=${VERIF_REPO:-/repo}
