#!/bin/bash
# usage: build_e1.sh <work dir>  -- builds <work>/e1 (instrumented) and <work>/e1native (plain) from $VERIF_REPO
set -e
. /verif/env.sh
D=$1
/verif/scripts/shadow.sh "$D" >&2
cd /verif/e1
sed "s#=> /repo#=> $D/repo#" go.mod > "$D/e1.mod"
cp go.sum "$D/e1.sum"
go build -trimpath -modfile="$D/e1.mod" -o "$D/e1" . >&2
sed "s#=> /repo#=> $VERIF_REPO#" go.mod > "$D/e1n.mod"
cp go.sum "$D/e1n.sum"
go build -trimpath -modfile="$D/e1n.mod" -o "$D/e1native" . >&2
