#!/bin/bash
# scripts/regress_seeds.sh <seed dir name> ...   (e.g. C01-m4 C05-m12; default: all)
# Re-runs the quick check of each seed's property against /repo + its patch (scratch worktree, removed afterwards)
# and records the verdict under "regression" in seeded/<seed>/meta.json. Prints one line per seed.
. /verif/env.sh
cd /verif
[ $# -eq 0 ] && set -- $(ls seeded | grep -E '^C[0-9]+-m[0-9]+$')
HEADV=$(git -C /verif rev-parse --short HEAD)
# (the schedule-engine checks get a smaller per-scenario budget here: a regression over some 250 trees; a seed
# that is only reported with the full budget shows up as missed and is re-run with REGRESS_BUDGET=20)
export VERIF_SCEN_BUDGET_S=${REGRESS_BUDGET:-6}
for X in "$@"; do
  ID=${X%%-*}
  W=/tmp/rg-$X-$$
  git -C /repo worktree add --detach $W HEAD >/dev/null 2>&1 || { echo "$X worktree failed"; continue; }
  if ! ( cd $W && { git apply /verif/seeded/$X/patch.diff 2>/dev/null || git apply --3way /verif/seeded/$X/patch.diff 2>/dev/null; } ); then echo "$X patch does not apply"; git -C /repo worktree remove --force $W; continue; fi
  L=/var/tmp/regress/$X.log; mkdir -p /var/tmp/regress
  VERIF_REPO=$W timeout 3000 ./run.sh $ID --tier quick > $L 2>&1; RC=$?
  NV=$(grep -c '^VIOLATION' $L)
  python3 - "$X" "$RC" "$NV" "$HEADV" <<'PY'
import json,sys,re
X,RC,NV,H=sys.argv[1:]
p='/verif/seeded/%s/meta.json'%X
m=json.load(open(p))
log=open('/var/tmp/regress/%s.log'%X,errors='replace').read()
m['regression']={"verif_commit":H,"tier":"quick","scenario_budget_s":int(__import__('os').environ.get('VERIF_SCEN_BUDGET_S','20')),"exit":int(RC),"violations":int(NV),"fingerprints":re.findall(r'fingerprint: (.*)',log)[:4]}
json.dump(m,open(p,'w'),indent=1)
PY
  echo "$X exit=$RC violations=$NV"
  git -C /repo worktree remove --force $W >/dev/null 2>&1; rm -rf $W /var/tmp/verif-evidence-alt/$(basename $W)
done
