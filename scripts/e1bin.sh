#!/bin/bash
# prints the directory holding e1 / e1native / rewrites.json built from the current tree
# (content-addressed: rebuilt whenever the repository or the harness sources change)
set -e
. /verif/env.sh
H=$(/verif/scripts/treehash.sh)
C=${VERIF_CACHE:-/var/tmp/verif-cache}
mkdir -p "$C"
if [ ! -x "$C/$H/e1" ]; then
  W=$(mktemp -d "$C/build.XXXXXX")
  trap 'rm -rf "$W"' EXIT
  (cd /verif/instr && go build -o "$W/instr" . && mkdir -p /verif/bin && mv "$W/instr" /verif/bin/instr)
  if ! /verif/scripts/build_e1.sh "$W" 2>"$W/build.log"; then
    cat "$W/build.log" >&2
    echo "INCONCLUSIVE: instrumented build failed" >&2
    exit 2
  fi
  rm -rf "$W/repo"
  mkdir -p "$C/$H"
  mv "$W/e1" "$W/e1native" "$W/rewrites.json" "$C/$H/"
  # keep the sixteen most recent builds, and any build still in use
  for d in $(ls -1dt "$C"/*/ 2>/dev/null | grep -v -e build. -e /seq/ | tail -n +17); do
    # never remove a build that a (long) run is still executing
    pgrep -f "${d%/}/e1" >/dev/null 2>&1 || rm -rf "$d"
  done
fi
echo "$C/$H"
