#!/usr/bin/env python3
"""Regenerates /verif/MANIFEST.json from the table below (run after adding a check)."""
import json, os

E1 = "E1 schedmc"
E2 = "E2 seqmc"

# id -> (engine, category, technique, level text, level note, design ref)
CHECKS = {
 "C01": (E1, "model_checking", "stateless DFS over all schedules of the instrumented sources (controlled scheduler, happens-before state caching) + bounded-exhaustive content sweep",
         "every schedule / select choice of 1-2 RPC scenarios with 0..2 (thorough 0..3) messages per direction on both transports, with a prefix monitor at every receive return; all message shapes of a stated pool under the default schedule",
         "sequentially consistent interleavings at sync-operation granularity, plus tracked accesses to the harness's own message objects (application overwrite / scribble, cloner, codec) where a scenario says so; HTTP scenarios run over the memhttp model of net/http (bound to reality by native loopback conformance runs) with its environment options (early-response rule or full duplex, writer without Flush, coalescing reads, server-side request deadline)", "6/C01 and 11.2"),
 "C02": (E1, "model_checking", "bounded-exhaustive enumeration of handler outcomes and of every truncation point of recorded replies against a reference status function validated against grpc-go (E2 part) + stateless DFS over all schedules and cancellation instants of error-at-position scripts (E1 part)",
         "E2 part: every member of transport x kind x handler outcome (19 codes x 10 messages x 13 detail lists + plain/context/EOF/wrapped errors) x position x encodability, and every proper prefix of 19 recorded replies with clean and abrupt endings, through the real client and server; E1 part: success only if the handler returned nil and the response is complete, under every interleaving and cancellation placement",
         "HTTP exchange of the E2 part runs on a recorder / serialised http.Response; E1 part as C01", "6/C02"),
 "C03": (E1, "model_checking", "stateless DFS over all schedules of header/trailer orderings on the instrumented sources + exhaustive metadata-encoding sweep",
         "every schedule of every handler order of SetHeader/SendHeader/SendMsg/SetTrailer/return against every client order of Header/RecvMsg/Trailer, with and without a canceller; every metadata map of a stated grammar incl. all 256 byte values in -bin keys",
         "as C01", "6/C03"),
 "C04": (E1, "model_checking", "stateless DFS with the canceller / deadline timers as schedulable tasks (every placement of the cancellation instant)",
         "every placement of the cancel / deadline instant relative to every synchronisation step of unary, server-, client-streaming and bidi calls on both transports, judged against the no-cancel reference result of the same script",
         "as C01; deadline timers may fire at any point (virtual clock)", "6/C04"),
 "C05": (E1, "model_checking", "stateless DFS with deadlock / blocked-set / leaked-task detection at quiescence",
         "every interleaving of bounded client and handler scripts (early return, CloseSend racing SendMsg, operations after completion, concurrent sender and receiver) on both transports; no panic, nothing blocked once the handler returned or the context ended, no library task left",
         "as C01; net/http's early-response rule is modelled with both alternatives (discard to EOF / give up beyond 256 KB)", "6/C05"),
 "C06": (E1, "model_checking", "vector-clock happens-before check of every cloner read over all schedules + exhaustive in-place-mutation disjointness sweep",
         "every read the library makes of a caller's message is ordered (vector clocks) before the call returned to the caller, over all schedules incl. cancellation; request/response objects share no mutable memory for every message shape x cloner configuration x kind",
         "as C01; reads and writes of library-internal plain memory below sync-operation granularity are outside the model (accesses to the application's own messages are tracked)", "6/C06 and 11.2"),
 "C07": (E2, "fault_enumeration", "exhaustive fault enumeration: hostile length prefixes and every truncation offset of recorded bodies",
         "every hostile frame sequence of a stated grammar and every byte offset of every recorded request/response body, with clean and abrupt endings, fed to the real client and server decoders; panics, over-allocation, fabricated messages and unreported truncation are violations",
         "bodies are replayed through canned RoundTrippers / recorders; allocation measured via runtime.MemStats in a child process", "6/C07"),
 "C08": (E1, "model_checking", "stateless DFS over all timings of extra / missing responses + crafted request bodies",
         "handlers emitting 0..3 responses on unary and client-streaming methods under every schedule (in-process peek logic, HTTP second select), clients sending 0..2 request frames to single-request HTTP methods",
         "as C01", "6/C08"),
 "C09": (E1, "model_checking", "bounded-exhaustive enumeration of GRPC-Timeout strings, caller durations, credentials delays and caller metadata with bracketing oracles (E2 part) + stateless DFS over all schedules of calls with different deadlines in flight at once, on a virtual clock that stands still (E1 part)",
         "E2 part: every header string of a stated grammar through the real server, every caller duration through the real client and end to end, judged by instants bracketing the call (no tolerances); E1 part: 2-3 requests with deadlines from {1h, 5s, none} served concurrently (optionally after a first request has completed) straight into the HTTP server, exhaustively, plus the same pairs through the whole client / memhttp / server stack under bounded preemptions: each handler's context has exactly its own caller's time left",
         "wall clock is read only to bracket (E2 part); E1 part as C01, timers never fire", "6/C09"),
 "C10": (E2, "exploration", "exhaustive enumeration of caller context layerings",
         "all 2^6 subsets of context layers x 2 stacking orders x nesting x deadline x kind x interceptors, oracle evaluated inside the handler; thorough cross-checks the oracle against grpc-go over bufconn",
         "none beyond the enumeration bounds", "6/C10"),
 "C11": (E2, "exploration", "bounded-exhaustive enumeration of HTTP requests against a reference function of the request",
         "quick: every single- and two-axis sweep around each valid request (pairwise complete); thorough: the full product of 4.8M requests (method x path x content type x headers x body x 4 server configurations) on recorders",
         "net/http's mux and recorder are trusted", "6/C11"),
 "C12": (E2, "exploration", "bounded-exhaustive enumeration of method-name strings, registered sets and base paths",
         "every method string of 1..4 (thorough 1..5) segments over a 9-symbol alphabet x Invoke/NewStream x 3 registered sets x in-process / Server / HandleServices x 6 (14) base paths, per-method invocation counters",
         "HTTP goes through HandlerRT (no sockets)", "6/C12"),
 "C13": (E2, "exploration", "exhaustive enumeration of credential / scheme / option configurations incl. real TLS on loopback",
         "full product of transport {in-process, http recorder, http loopback, https loopback} x kind x credentials x caller metadata x call options with a counting RoundTripper; thorough cross-checks the oracle against grpc-go",
         "TLS clause uses the real stack over loopback", "6/C13"),
 "C14": (E2, "exploration", "total enumeration of the status-code mapping in both directions",
         "every gRPC code 0..17, 99, 2^31-1 x request context state x renderer through the real server and then the real client; every HTTP status 100..599 x 5 header shapes through the real client; the documented table is parsed from the current tree",
         "recorder / canned RoundTripper instead of sockets", "6/C14"),
 "C15": (E2, "model_checking", "explicit-state BFS over real registry objects against a map model",
         "breadth-first search over all operation sequences (fresh carrier + shortest-path replay + one op) on HandlerMap, inprocgrpc.Channel and httpgrpc.Server until the reachable state set is exhausted; every model path is replayed against the real objects; GetServiceInfo compared with a real grpc.Server",
         "state key = carrier + sorted registered names (soundness cross-checked by uncached replay of all sequences up to the bound)", "6/C15"),
 "C16": (E2, "exploration", "bounded-exhaustive enumeration of descriptors, decorations and interceptor behaviours",
         "63 descriptor shapes x 3 carriers x 2 decoration forms x depth 1..2 x 5 behaviours per interceptor x handler outcome; event-log oracle",
         "none beyond the enumeration bounds", "6/C16"),
 "C17": (E2, "exploration", "exhaustive enumeration of client wrapper stacks over four base channels",
         "all 34,952 configurations of depth 0..3 x per-layer interceptor behaviour x base {stub, real grpc.ClientConn on bufconn, in-process, HTTP} x outcome",
         "none beyond the enumeration bounds", "6/C17"),
 "C18": (E1, "model_checking", "bounded-exhaustive enumeration of messages x adapters x pairings with an in-place-mutation disjointness oracle (E2 part) + stateless DFS over all schedules of concurrent use of the shared adapters on the instrumented sources, package-level synchronisation state reset per execution (E1 part)",
         "E2 part: 54 messages over 14 types (each also dynamic) x 4 adapters x Clone / Copy into empty and pre-populated destinations x type pairings; the checker first calibrates its own mutator and reference functions; E1 part: every unordered pair (thorough: two operations per task, three tasks) of adapter x Clone/Copy x {generated, dynamic} x {Message, HttpTrailer} operations run concurrently, each result judged on its own",
         "protobuf-go reflection is trusted to reach all mutable memory; the adapters of the unchanged tree contain no synchronisation operation, so the E1 part has one schedule per scenario there (unsynchronised sharing is the business of the auxiliary race pass)", "6/C18"),
 "C19": (E2, "exploration", "bounded-exhaustive enumeration of synthetic CodeGeneratorRequests, AST + go/types oracle, byte-exact regeneration",
         "every method-kind sequence up to length 3 (thorough: options, type sources, service pairs, length 5/6 masks; 76k requests) fed to the plugin built from the tree; emitted files type-checked against a synthesised companion and inspected by AST; checked-in stubs regenerated",
         "go/types and the gc export data of the tree's dependencies are trusted", "6/C19"),
 "C20": (E1, "model_checking", "stateless DFS with a backpressure invariant evaluated at every completed send",
         "every schedule of N=1..4 attempted sends against k receives per direction and stream kind, with pending header frames and release by receive / finish / cancel; completedSends <= startedPeerReceives + 1 at every send completion, blocked sender at quiescence",
         "as C01 (in-process only)", "6/C20"),
}

def main():
    here = os.path.dirname(os.path.abspath(__file__))
    root = os.path.dirname(here)
    props = [json.loads(l) for l in open(os.path.join(root, "properties.jsonl"))]
    status = json.load(open(os.path.join(here, "claimed.json")))
    claimed = status["claimed"]
    na = status.get("not_applicable", {})
    checks = []
    for p in props:
        i = p["id"]
        if i not in claimed:
            continue
        eng, cat, tech, text, note, ref = CHECKS[i]
        checks.append({
            "property_id": i,
            "quick_cmd": "./run.sh %s --tier quick" % i,
            "thorough_cmd": "./run.sh %s --tier thorough" % i,
            "evidence_file": "/verif/evidence/%s.json" % i,
            "replay_cmd_template": "./run.sh %s --replay {path}" % i,
            "engine": eng,
            "level_claimed": {"category": cat, "text": text, "design_ref": "DESIGN.md section " + ref},
            "level_note": note,
            "technique": tech,
        })
    m = {
        "version": 1,
        "setup_cmd": "./setup.sh",
        "hooks": {
            "guard": "verif",
            "enable": "no hook commits exist: every E1 check instruments a shadow copy of /repo's working tree at check time (scripts/e1bin.sh: rsync + instr source rewriting), E2 checks build against /repo directly",
            "baseline_off_cmd": "cd /repo && GOFLAGS=-mod=mod GOPROXY=off GOSUMDB=off go test -vet=off -count=1 -timeout 25m ./...",
            "source_commits": [],
            "add_only": True,
        },
        "engines": [
            {"name": E1, "path": "/verif/mc + /verif/instr + /verif/e1",
             "serves_properties": [i for i in claimed if CHECKS[i][0] == E1],
             "kind_free_text": "controlled cooperative scheduler + source-to-source instrumenter + stateless DFS with happens-before state caching and iterative preemption bounding, on the real sources"},
            {"name": E2, "path": "/verif/seq",
             "serves_properties": [i for i in claimed if CHECKS[i][0] == E2],
             "kind_free_text": "bounded-exhaustive enumeration / explicit-state BFS of inputs, configurations, fault points and operation sequences on the real uninstrumented packages"},
        ],
        "checks": checks,
        "not_applicable": [{"property_id": p["id"], "reason": na.get(p["id"], "check not built yet (work in progress)")} for p in props if p["id"] not in claimed],
        "notes": "Fixes of genuine defects are 'fix:' commits in /repo; known_findings.jsonl lists open findings and documents fixed ones. See DESIGN.md.",
    }
    json.dump(m, open(os.path.join(root, "MANIFEST.json"), "w"), indent=1)
    print("claimed:", claimed)

main()
