#!/bin/bash
# usage: shadow.sh <dest dir>   -- instrumented shadow copy of $VERIF_REPO in <dest>/repo
set -e
. /verif/env.sh
D=$1
mkdir -p "$D/repo"
rsync -a --exclude .git --exclude '*_test.go' "$VERIF_REPO"/ "$D/repo"/
cd "$D/repo"
go mod edit -require=verif/mc@v0.0.0 -replace=verif/mc=/verif/mc
/verif/bin/instr -dir "$D/repo" -report "$D/rewrites.json" . ./inprocgrpc ./httpgrpc ./internal
