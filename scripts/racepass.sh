#!/bin/bash
# scripts/racepass.sh [ID ...]   -- AUXILIARY, not a deciding step (DESIGN.md section 3.4):
# the same scenario bodies run free on real goroutines against the uninstrumented tree under the
# Go race detector, which sees the unsynchronised accesses a cooperative scheduler cannot.
# Writes /verif/evidence/aux/race-<ID>.txt; exit 0 = no race reported, 3 = races reported.
. /verif/env.sh
export CGO_ENABLED=1
IDS=${@:-C01 C02 C03 C04 C05 C06 C08 C20}
W=$(mktemp -d); trap 'rm -rf $W' EXIT
sed "s#=> /repo#=> $VERIF_REPO#" /verif/e1/go.mod > $W/e1r.mod; cp /verif/e1/go.sum $W/e1r.sum
( cd /verif/e1 && go build -race -modfile=$W/e1r.mod -o $W/e1race . ) || { echo "INCONCLUSIVE: race build failed" >&2; exit 2; }
mkdir -p /verif/evidence/aux
rc=0
for id in $IDS; do
  $W/e1race native $id ${VERIF_TIER:-quick} ${RACE_RUNS:-30} > $W/out 2> $W/err
  n=$(grep -c 'WARNING: DATA RACE' $W/err)
  { echo "race pass $id tree=$VERIF_REPO runs/scenario=${RACE_RUNS:-30} races=$n"; grep -A30 'WARNING: DATA RACE' $W/err | head -200; } > /verif/evidence/aux/race-$id.txt
  echo "race pass $id: $n data race report(s)"
  [ $n -gt 0 ] && rc=3
done
exit $rc
