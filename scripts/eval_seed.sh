#!/bin/bash
# scripts/eval_seed.sh <ID> <mN> [tier]
# Confirms a seeded change (from /tmp/seed-out/<ID>/<mN>/) in a scratch worktree of /repo:
#   demo passes without the change, repository tests pass with it, demo fails with it;
# then runs the property's check against the changed tree and records everything in
# /verif/seeded/<ID>-<mN>/ (patch.diff, demonstration, meta.json).
. /verif/env.sh
ID=$1; M=$2; TIER=${3:-quick}
SRC=/tmp/seed-out/$ID/$M
[ -f $SRC/patch.diff ] || { echo "no $SRC/patch.diff"; exit 2; }
W=/tmp/eval-$ID-$M
git -C /repo worktree remove --force $W >/dev/null 2>&1; rm -rf $W
git -C /repo worktree add --detach $W ${SEED_BASE:-HEAD} >/dev/null 2>&1 || { echo "worktree failed"; exit 2; }
OUT=/verif/seeded/$ID-$M
mkdir -p $OUT
cp $SRC/patch.diff $OUT/
DEMODIR=$(python3 -c "import json;print(json.load(open('$SRC/meta.json')).get('demo_dir','.'))" 2>/dev/null)
DEMOCMD=$(python3 -c "import json;print(json.load(open('$SRC/meta.json')).get('demo_cmd',''))" 2>/dev/null)
DEMODIR=${DEMODIR#./}; DEMODIR=${DEMODIR%/}
[ -z "$DEMODIR" ] && DEMODIR=.
for f in $SRC/*; do case $(basename $f) in patch.diff|meta.json) ;; *) cp $f $OUT/; cp $f $W/$DEMODIR/ 2>/dev/null;; esac; done
cd $W
run_demo() { ( cd $W && timeout 600 bash -c "$DEMOCMD" ) > $OUT/demo_$1.log 2>&1; echo $?; }
D0=$(run_demo without)
git apply $OUT/patch.diff 2> $OUT/apply.log || git apply --3way $OUT/patch.diff 2>> $OUT/apply.log || { echo "patch does not apply"; D0=applyfail; }
BUILD=0; go build ./... > $OUT/build.log 2>&1 || BUILD=1
D1=$(run_demo with)
# the repository's own tests, without the demo files
for f in $SRC/*; do case $(basename $f) in patch.diff|meta.json) ;; *) rm -f $W/$DEMODIR/$(basename $f);; esac; done
T1=0; go test -vet=off -count=1 ./... > $OUT/repo_tests.log 2>&1 || T1=1
if [ $T1 -ne 0 ]; then T1b=0; go test -vet=off -count=1 ./... > $OUT/repo_tests2.log 2>&1 || T1b=1; [ $T1b -eq 0 ] && T1=flaky-then-pass; fi
cd /verif
VERIF_REPO=$W timeout 3000 ./run.sh $ID --tier $TIER > $OUT/check_$TIER.log 2>&1; RC=$?
NV=$(grep -c '^VIOLATION' $OUT/check_$TIER.log)
python3 - "$ID" "$M" "$TIER" "$D0" "$D1" "$BUILD" "$T1" "$RC" "$NV" <<'EOF'
import json,sys,re
ID,M,TIER,D0,D1,BUILD,T1,RC,NV=sys.argv[1:]
src='/tmp/seed-out/%s/%s/meta.json'%(ID,M)
try: meta=json.load(open(src))
except Exception: meta={}
out='/verif/seeded/%s-%s'%(ID,M)
log=open(out+'/check_%s.log'%TIER,errors='replace').read()
fps=re.findall(r'fingerprint: (.*)',log)
try: old=json.load(open(out+'/meta.json'))
except Exception: old={}
res=old.get('confirmation',{})
res.update({"demo_without_change_exit":D0,"demo_with_change_exit":D1,"build_with_change":"ok" if BUILD=="0" else "FAILS","repo_tests_with_change":"pass" if T1=="0" else T1})
chk=old.get('check_results',{})
chk[TIER]={"cmd":"VERIF_REPO=<scratch worktree with the change> ./run.sh %s --tier %s"%(ID,TIER),"exit":int(RC),"violations":int(NV),"fingerprints":fps[:12],
  "inconclusive": [l for l in log.splitlines() if 'INCONCLUSIVE' in l][:3]}
meta.update({"property":ID,"seed":M,"confirmation":res,"check_results":chk,
  "confirmed": (D0=="0" and D1 not in ("0","applyfail") and BUILD=="0" and T1 in ("0","flaky-then-pass")),
  "detected": int(NV)>0})
json.dump(meta,open(out+'/meta.json','w'),indent=1)
print(ID,M,TIER,"confirmed=%s"%meta["confirmed"],"demo(without/with)=%s/%s"%(D0,D1),"tests=%s"%T1,"check_exit=%s violations=%s"%(RC,NV))
for f in fps[:3]: print("   ",f[:200])
EOF
git -C /repo worktree remove --force $W >/dev/null 2>&1; rm -rf $W
