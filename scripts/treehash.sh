#!/bin/bash
# content hash of the repository working tree + the verification sources that go into a build
. /verif/env.sh
( cd "$VERIF_REPO" && find . -name .git -prune -o -type f \( -name '*.go' -o -name go.mod -o -name go.sum -o -name '*.proto' \) -print0 | sort -z | xargs -0 sha1sum
  cd /verif && find mc e1 instr vlib scripts -type f \( -name '*.go' -o -name go.mod -o -name '*.sh' \) -print0 2>/dev/null | sort -z | xargs -0 sha1sum ) | sha1sum | cut -c1-16
