#!/bin/bash
# scripts/try_seed.sh <ID>-<mN> [<check ID>] [tier]  -- runs a check against /repo + seeded/<ID>-<mN>/patch.diff (scratch worktree, removed afterwards)
. /verif/env.sh
X=$1; ID=${2:-${X%%-*}}; TIER=${3:-quick}
W=/tmp/try-$X-$$
git -C /repo worktree add --detach $W HEAD >/dev/null 2>&1 || { echo "worktree failed"; exit 2; }
( cd $W && { git apply /verif/seeded/$X/patch.diff 2>/dev/null || git apply --3way /verif/seeded/$X/patch.diff; } ) || { echo "patch does not apply"; git -C /repo worktree remove --force $W; exit 2; }
cd /verif
VERIF_REPO=$W timeout 3000 ./run.sh $ID --tier $TIER > /var/tmp/qlogs/try-$X-$ID.log 2>&1; RC=$?
echo "$X check=$ID tier=$TIER exit=$RC violations=$(grep -c '^VIOLATION' /var/tmp/qlogs/try-$X-$ID.log)"
grep 'fingerprint:' /var/tmp/qlogs/try-$X-$ID.log | head -${SHOW:-4} | cut -c1-260
grep INCONCLUSIVE /var/tmp/qlogs/try-$X-$ID.log | head -3
git -C /repo worktree remove --force $W >/dev/null 2>&1; rm -rf $W /var/tmp/verif-evidence-alt/$(basename $W)
exit $RC
