#!/bin/bash
# scripts/run_part.sh <ID> [--tier t] [--replay f]: runs only the E2 content part seq/<id>e2 of a two-part property
cd /verif
. ./env.sh
ID=$1; shift
TIER=${VERIF_TIER:-quick}; EXTRA=()
while [ $# -gt 0 ]; do case "$1" in --tier) TIER=$2; shift 2;; --tier=*) TIER=${1#--tier=}; shift;; *) EXTRA+=("$1"); shift;; esac; done
export VERIF_TIER=$TIER VERIF_PART=e2
lid=$(echo $ID | tr A-Z a-z)e2; [ -d seq/$lid ] || lid=$(echo $ID | tr A-Z a-z)
B=${VERIF_CACHE:-/var/tmp/verif-cache}/seq; mkdir -p $B
MF=""
if [ "$VERIF_REPO" != /repo ]; then
  sed "s#=> /repo#=> $VERIF_REPO#" seq/go.mod > $B/alt.$$.mod; cp seq/go.sum $B/alt.$$.sum; MF="-modfile=$B/alt.$$.mod"
fi
( cd seq && go build $MF -o $B/seq-$lid.$$ ./$lid ) || { rm -f $B/alt.$$.*; echo "INCONCLUSIVE: build failed" >&2; exit 2; }
rm -f $B/alt.$$.*
$B/seq-$lid.$$ --tier $TIER "${EXTRA[@]}"; rc=$?
rm -f $B/seq-$lid.$$
exit $rc
