#!/bin/bash
# scripts/eval_batch.sh <ID>-<mN> ...   -- evaluates seeded changes one after the other, removes the authors' worktrees
cd /verif
for x in "$@"; do
  ID=${x%%-*}; M=${x#*-}
  scripts/eval_seed.sh $ID $M ${TIER:-quick} 2>&1 | tail -4
  git -C /repo worktree remove --force /tmp/seed-wt/$x >/dev/null 2>&1; rm -rf /tmp/seed-wt/$x
done
