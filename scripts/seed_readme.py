#!/usr/bin/env python3
"""Writes /verif/seeded/README.md from the meta.json files produced by scripts/eval_seed.sh."""
import json, glob, os

rows = []
for f in sorted(glob.glob('/verif/seeded/*/meta.json')):
    m = json.load(open(f))
    d = os.path.basename(os.path.dirname(f))
    res = m.get('check_results', {})
    best = None
    for tier in ('quick', 'thorough'):
        r = res.get(tier)
        if r and r.get('exit') == 1 and r.get('violations', 0) > 0:
            best = (tier, r)
            break
    other = m.get('detected_by_other_checks', [])
    rg = m.get('regression')
    if rg:
        # the latest re-run of the property's (current) quick check against /repo + this change
        if rg.get('exit') == 1 and rg.get('violations', 0) > 0:
            best = ('quick, re-run at %s' % rg.get('verif_commit', '?'), {'fingerprints': rg.get('fingerprints')})
        else:
            best = None
            res = {'quick': {'exit': rg.get('exit')}}
    if best:
        det = "**yes** (%s): `%s`" % (best[0], (best[1]['fingerprints'] or ['?'])[0][:110])
    elif other:
        det = "by " + ", ".join(other)
    elif m.get('note'):
        det = "not reported on the current tree (exit %s): %s" % (res.get('quick', {}).get('exit'), str(m['note']).replace('\n', ' ')[:220])
    else:
        r = res.get('quick', {})
        det = "no (exit %s)" % r.get('exit')
    rows.append((d, m.get('property', ''), 'yes' if m.get('confirmed') else 'NO', det,
                 (m.get('summary', '') or '').replace('\n', ' ')[:160], (m.get('needs', '') or '').replace('\n', ' ')[:140]))

out = ["# Seeded changes", "",
       "Each directory holds a change to fullstorydev/grpchan written by an independent sub-agent that saw only the",
       "property text (never /verif): `patch.diff`, the agent's demonstration (fails with the change, passes without),",
       "and `meta.json` (what it breaks, what it needs to manifest, and what `scripts/eval_seed.sh` observed: demo",
       "without/with the change, the repository's own tests with the change, and the property's check run against the",
       "changed tree with `VERIF_REPO=<scratch worktree> ./run.sh <ID>`). None of these changes is in /repo.",
       "`scripts/regress_seeds.sh` re-runs every change against the current checks (field `regression` of meta.json;",
       "the schedule-engine checks with a 6 s per-scenario budget there instead of 20 s); the table shows that latest run.", "",
       "| seed | property | confirmed | detected by the property's check | change | needs |", "|---|---|---|---|---|---|"]
for r in rows:
    out.append("| %s | %s | %s | %s | %s | %s |" % r)
n = len(rows)
k = sum(1 for r in rows if r[3].startswith("**yes**"))
out += ["", "%d of %d confirmed seeded changes are reported by the check of the property they break." % (k, n), ""]
open('/verif/seeded/README.md', 'w').write("\n".join(out))
print("%d/%d detected" % (k, n))
