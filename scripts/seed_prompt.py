#!/usr/bin/env python3
# scripts/seed_prompt.py <ID> <mN> [hint...]  -- prints the brief for an independent seeding agent and prepares
# its scratch worktree (/tmp/seed-wt/<ID>-<mN>) and output directory (/tmp/seed-out/<ID>/<mN>).
# The brief contains the text of the property and one-line descriptions of earlier seeded changes
# (so that the new one differs), nothing about how /verif decides the property.
import json, glob, os, subprocess, sys

pid, m = sys.argv[1], sys.argv[2]
hint = ' '.join(sys.argv[3:])
prop = None
for l in open('/verif/properties.jsonl'):
    p = json.loads(l)
    if p['id'] == pid:
        prop = p
wt = f'/tmp/seed-wt/{pid}-{m}'
out = f'/tmp/seed-out/{pid}/{m}'
os.makedirs(out, exist_ok=True)
os.makedirs('/tmp/seed-wt', exist_ok=True)
if not os.path.isdir(wt):
    subprocess.run(['git', '-C', '/repo', 'worktree', 'add', '--detach', wt, 'HEAD'], check=True,
                   stdout=subprocess.DEVNULL, stderr=subprocess.DEVNULL)
earlier = []
for d in sorted(glob.glob(f'/verif/seeded/{pid}-m*')):
    try:
        mm = json.load(open(d + '/meta.json'))
    except Exception:
        continue
    s = (mm.get('summary') or '').replace('\n', ' ')
    earlier.append(f"- {', '.join(mm.get('files_touched') or [])}: {s[:260]}")
print(f"""You are helping to evaluate a verification effort for the Go library fullstorydev/grpchan (alternate gRPC transports: an HTTP/1.1 wire protocol in httpgrpc/, an in-process channel in inprocgrpc/, helpers in the root package and internal/, a protoc plugin in cmd/protoc-gen-grpchan).

Your scratch git worktree of the repository is {wt} . Work ONLY there (never in /repo, never look at or into /verif). Other agents work in sibling worktrees of the same repository at the same time: do NOT use `git stash` (the stash is shared by all worktrees) -- use `git diff > file` / `git apply -R file` / `git checkout -- .` to switch between the changed and unchanged tree. The sandbox has no network; every shell call needs
  export GOFLAGS=-mod=mod GOPROXY=off GOSUMDB=off GOTOOLCHAIN=local

This is the property the library is supposed to have:

  {prop['id']}: {prop['title']}
  {prop['statement']}

Task: write ONE realistic change to the library (the kind of change a well-meaning contributor could make: an optimisation, a refactoring, a 'simplification', a new fast path, a tidy-up of locking or of an error branch) that BREAKS this property while
  (a) everything still compiles (go build ./... && go vet is not required), and
  (b) the repository's own test suite still passes with the change:  go test -vet=off -count=1 ./...   (run it at least twice; it must pass every time), and
  (c) the breakage needs something specific to manifest - {hint or "a particular interleaving of goroutines, a cancellation/deadline or fault landing at a particular point, a multi-step sequence of operations, an unusual input, or two cooperating edits that each look fine alone"} - so that ordinary use (and the existing tests) does not expose it at once.
Do not write a change that merely deletes a check or that a reviewer would reject at a glance; do not touch *_test.go files or generated .pb.go files in the change; keep it small (typically 5-40 changed lines).

Earlier changes already collected for this property (yours must use a DIFFERENT site or mechanism, and preferably a different dimension of the input / schedule space):
{chr(10).join(earlier) if earlier else '(none)'}

Also write a demonstration: a Go test file (package-internal or external, your choice) that FAILS with your change and PASSES without it, deterministically if at all possible (if it needs a race, loop until the failure shows and bound the loop; say how often it fails). The demonstration must show a violation of the property as stated above, judged by what a user of the library observes - not merely that the code differs.

Verify all of it yourself in the worktree: demonstration passes on the unchanged worktree; with the change applied go build ./... works, the full test suite passes (twice), the demonstration fails.

Deliverables, all in {out}/ :
  patch.diff   - `git diff` of the library change only (no demo file in it), applicable with `git apply` at the root of a clean worktree
  <demo>_test.go (one or more files) - the demonstration; it is copied into the directory named by demo_dir before running demo_cmd
  meta.json    - {{"summary": "<what the change does, 2-4 sentences>", "breaks": "<which clause of the property, and how>", "needs": "<what exactly is needed for it to manifest>", "files_touched": [...], "demo_dir": "<directory relative to the repository root where the demo file(s) go, e.g. inprocgrpc>", "demo_cmd": "<command run at the repository root, e.g. go test -vet=off -count=1 -run TestXxx ./inprocgrpc/>", "verified": {{"tests_pass_with_change": true, "demo_fails_with_change": true, "demo_passes_without_change": true}}}}

When you are done leave the worktree clean of build output (the patch may stay applied or not, it does not matter). Your final message: three lines - what the change is, what it needs to manifest, and whether all three verifications succeeded.""")
