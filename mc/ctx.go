package mc

import (
	"context"
	"time"
)

// The context shim mirrors go1.23's context package: WithCancel on a parent
// that is not (transitively, through Value) one of our own cancel contexts
// starts a propagation goroutine -- here a controlled task -- exactly where the
// standard library does. grpchan's noValuesContext hits that path.

type Context = context.Context
type CancelFunc = context.CancelFunc

var (
	Canceled         = context.Canceled
	DeadlineExceeded = context.DeadlineExceeded
)

var shimKey int

type cancelCtx struct {
	parent   context.Context
	id       uint64
	done     chan struct{}
	err      error
	cst      Stamp // stamp of the cancel event
	children map[*cancelCtx]struct{}
	view     *Chan[struct{}]

	hasDeadline bool
	deadline    time.Time
	timerTask   *Task
}

func (c *cancelCtx) Deadline() (time.Time, bool) {
	if c.hasDeadline {
		return c.deadline, true
	}
	return c.parent.Deadline()
}

func (c *cancelCtx) Done() <-chan struct{} { return c.done }

// Err is a visible read of the cancellation state.
func (c *cancelCtx) Err() error {
	s := S
	if s == nil || s.aborting {
		return c.err
	}
	t := s.running
	if c.err == nil {
		s.yield(t, opSimple{"ctx.Err"})
	}
	if c.err != nil {
		t.tick(kErr, c.id, 1)
		t.observe(&c.cst)
	} else {
		t.tick(kErr, c.id, 0)
	}
	return c.err
}

func (c *cancelCtx) Value(key interface{}) interface{} {
	if key == &shimKey {
		return c
	}
	return c.parent.Value(key)
}

func (c *cancelCtx) String() string { return "mc.cancelCtx" }

// cancel marks c and its registered descendants cancelled. It runs inside one
// scheduling step of the calling task.
func (c *cancelCtx) cancel(removeFromParent bool, err error, st *Stamp) {
	if c.err != nil {
		return
	}
	c.err = err
	c.cst = *st
	close(c.done)
	for ch := range c.children {
		ch.cancel(false, err, st)
	}
	c.children = nil
	if removeFromParent {
		if p, ok := parentCancelCtx(c.parent); ok && p.children != nil {
			delete(p.children, c)
		}
	}
}

func parentCancelCtx(parent context.Context) (*cancelCtx, bool) {
	done := parent.Done()
	if done == nil {
		return nil, false
	}
	p, ok := parent.Value(&shimKey).(*cancelCtx)
	if !ok {
		return nil, false
	}
	if (<-chan struct{})(p.done) != done {
		return nil, false
	}
	return p, true
}

// readParentErr reads a (possibly foreign) parent's error without yielding.
func parentErrNoYield(parent context.Context) error {
	if d := parent.Done(); d != nil {
		select {
		case <-d:
			if c := S.doneMap[d]; c != nil {
				return c.err
			}
			return parent.Err()
		default:
		}
	}
	return nil
}

func newCancelCtx(s *Sched, t *Task, parent context.Context) *cancelCtx {
	if parent == nil {
		panic("cannot create context from nil parent")
	}
	c := &cancelCtx{parent: parent, id: t.newObjID(), done: make(chan struct{})}
	s.doneMap[c.done] = c
	return c
}

func (c *cancelCtx) propagate(s *Sched, t *Task) {
	parent := c.parent
	done := parent.Done()
	if done == nil {
		return // parent is never cancelled
	}
	pc := s.doneMap[done]
	if pc == nil {
		panic("mc: parent context's Done channel is not controlled (a std cancel context leaked into the harness)")
	}
	if pc.err == nil {
		// the check below reads the parent's cancellation state
		s.yield(t, opSimple{"WithCancel(check parent)"})
	}
	if pc.err != nil {
		t.tick(kErr, pc.id, 1)
		t.observe(&pc.cst)
		c.cancel(false, pc.err, &t.st)
		return
	}
	t.tick(kErr, pc.id, 0)
	if p, ok := parentCancelCtx(parent); ok {
		if p.children == nil {
			p.children = map[*cancelCtx]struct{}{}
		}
		p.children[c] = struct{}{}
		return
	}
	// foreign parent (its Value hides our key): propagation task, as the
	// standard library starts a goroutine here
	pv := Wrap(done)
	cv := Wrap(c.done)
	pt := s.spawn(t, "ctx-propagate", true, func() {
		pr := &RecvC[struct{}]{C: pv}
		cr := &RecvC[struct{}]{C: cv}
		if Select(false, pr, cr) == 0 {
			s2, me := cur()
			// waking up and cancelling the child are two things: the goroutine is made
			// runnable by the parent's cancellation, the child is cancelled when it runs
			s2.yield(me, opSimple{"propagate-cancel"})
			me.tick(kCancel, c.id, 0)
			c.cancel(false, pc.err, &me.st)
		}
	})
	_ = pt
}

// WithCancel replaces context.WithCancel.
func WithCancel(parent context.Context) (context.Context, context.CancelFunc) {
	if S == nil {
		return context.WithCancel(parent)
	}
	s, t := cur()
	c := newCancelCtx(s, t, parent)
	c.propagate(s, t)
	return c, func() { c.userCancel(context.Canceled) }
}

func (c *cancelCtx) userCancel(err error) {
	s := S
	if s == nil || s.aborting {
		return
	}
	if c.err != nil {
		return
	}
	t := s.running
	s.yield(t, opSimple{"cancel"})
	if c.err != nil {
		return
	}
	t.tick(kCancel, c.id, 0)
	c.cancel(true, err, &t.st)
}

// TimeBase is virtual time zero.
var TimeBase = time.Date(2030, 1, 1, 0, 0, 0, 0, time.UTC)

func TimeNow() time.Time {
	if S == nil {
		return time.Now()
	}
	return TimeBase.Add(S.vnow)
}
func TimeUntil(t time.Time) time.Duration {
	if S == nil {
		return time.Until(t)
	}
	return t.Sub(TimeNow())
}
func TimeSince(t time.Time) time.Duration {
	if S == nil {
		return time.Since(t)
	}
	return TimeNow().Sub(t)
}

// TimeSleep advances the virtual clock.
func TimeSleep(d time.Duration) {
	s, t := cur()
	s.yield(t, opSimple{"sleep"})
	t.tick(kTimer, 0, 0)
	if d > 0 {
		s.vnow += d
	}
}

type opTimer struct{ c *cancelCtx }

func (o opTimer) enabled(s *Sched, t *Task, out []Alt) []Alt {
	// fire (case 0) while the context is live; stop (case 1) once it is done
	if o.c.err == nil {
		if s.timers {
			out = append(out, Alt{T: t, Case: 0})
		}
	} else {
		out = append(out, Alt{T: t, Case: 1})
	}
	return out
}
func (o opTimer) String() string { return "timer" }

// WithDeadline replaces context.WithDeadline. The deadline timer is a task that
// may fire at any point while the context is live ("every placement of the
// deadline instant"); firing advances the virtual clock to the deadline.
func WithDeadline(parent context.Context, d time.Time) (context.Context, context.CancelFunc) {
	if S == nil {
		return context.WithDeadline(parent, d)
	}
	if cur, ok := parent.Deadline(); ok && cur.Before(d) {
		return WithCancel(parent)
	}
	s, t := cur()
	c := newCancelCtx(s, t, parent)
	c.hasDeadline, c.deadline = true, d
	c.propagate(s, t)
	if TimeUntil(d) <= 0 {
		if c.err == nil {
			t.tick(kCancel, c.id, 1)
			c.cancel(true, context.DeadlineExceeded, &t.st)
		}
		return c, func() { c.userCancel(context.Canceled) }
	}
	if c.err == nil {
		c.timerTask = s.spawn(t, "timer", true, func() {
			s2, me := cur()
			a := s2.yield(me, opTimer{c})
			if a.Case == 0 && c.err == nil {
				me.tick(kTimer, c.id, 0)
				if off := d.Sub(TimeBase); off > s2.vnow {
					s2.vnow = off
				}
				c.cancel(true, context.DeadlineExceeded, &me.st)
			} else {
				me.tick(kTimer, c.id, 1)
				me.observe(&c.cst)
			}
		})
		c.timerTask.timer = true
	}
	return c, func() { c.userCancel(context.Canceled) }
}

// WithTimeout replaces context.WithTimeout.
func WithTimeout(parent context.Context, d time.Duration) (context.Context, context.CancelFunc) {
	if S == nil {
		return context.WithTimeout(parent, d)
	}
	return WithDeadline(parent, TimeNow().Add(d))
}

// Pass-throughs (pure).
func Background() context.Context { return context.Background() }
func TODO() context.Context       { return context.TODO() }
func WithValue(parent context.Context, key, val interface{}) context.Context {
	return context.WithValue(parent, key, val)
}
func Cause(c context.Context) error { return c.Err() }

// CtxErrNoYield reads a context's error without a scheduling point (oracles).
func CtxErrNoYield(ctx context.Context) error {
	if S == nil {
		return ctx.Err()
	}
	return parentErrNoYield(ctx)
}

// AfterFunc replaces context.AfterFunc: f runs in a task of its own once ctx is done, unless stop was called
// first (stop reports whether it prevented the call).
func AfterFunc(ctx context.Context, f func()) (stop func() bool) {
	if S == nil {
		return context.AfterFunc(ctx, f)
	}
	state := 0 // 0 waiting, 1 started, 2 stopped
	if ctx.Done() == nil {
		return func() bool {
			if state == 0 {
				state = 2
				return true
			}
			return false
		}
	}
	stopped := NewChan[struct{}]()
	GoNamed("afterfunc", func() {
		if Select(false, RecvCase(Wrap(ctx.Done())), RecvCase(stopped)) == 0 && state == 0 {
			state = 1
			f()
		}
	})
	return func() bool {
		if state == 0 {
			state = 2
			CloseIfOpen(stopped)
			return true
		}
		return false
	}
}

// SetQuiet switches exploration off (on) for the part of an execution that follows: while quiet, every
// decision takes the default alternative (the running task carries on), no branch is opened and states are
// neither recorded nor pruned. A harness uses it to bring the system into a non-initial state along ONE
// schedule -- a first call run to completion -- before the part it wants explored begins.
func SetQuiet(on bool) { S.quiet = on }

// SetTimers enables or disables firing of deadline timers in this execution.
func SetTimers(on bool) { S.timers = on }

// MarkTimerFree makes the deadline timer of ctx (created by WithDeadline /
// WithTimeout in this execution) an environment event: it may fire anywhere
// without counting as a preemption.
func MarkTimerFree(ctx context.Context) {
	if c, ok := ctx.(*cancelCtx); ok && c.timerTask != nil {
		c.timerTask.Free = true
	}
}
