package mc

import "io"

// Pipe is an atomic model of io.Pipe (go1.23 src/io/pipe.go): a Write offers
// its bytes and blocks until readers have consumed all of them or the pipe is
// closed; a Read blocks until an offer or a close; once closed, reads fail even
// if an offer is pending (the reader checks done first); a write that was fully
// consumed succeeds even if the pipe is closed right after. A zero-length Write
// still needs one Read to pick it up. Every operation is one or two scheduling
// points instead of the five to seven of a literal port.
type pipe struct {
	id      uint64
	st      Stamp
	wlocked bool
	offer   []byte
	offered bool
	closed  bool
	rerr    error
	werr    error
}

type opCond struct {
	d    string
	cond func() bool
}

func (o opCond) enabled(s *Sched, t *Task, out []Alt) []Alt {
	if o.cond() {
		out = append(out, Alt{T: t})
	}
	return out
}
func (o opCond) String() string { return o.d }

func (p *pipe) touch(t *Task, kind int) {
	t.tick(kChan, p.id, kind)
	t.observe(&p.st)
	p.st = t.st
}

func (p *pipe) readCloseError() error {
	if p.rerr == nil && p.werr != nil {
		return p.werr
	}
	return io.ErrClosedPipe
}

func (p *pipe) writeCloseError() error {
	if p.werr == nil && p.rerr != nil {
		return p.rerr
	}
	return io.ErrClosedPipe
}

func (p *pipe) read(b []byte) (int, error) {
	s, t := cur()
	s.yield(t, opCond{"pipe.Read", func() bool { return p.offered || p.closed }})
	p.touch(t, 1)
	if p.closed {
		return 0, p.readCloseError()
	}
	n := copy(b, p.offer)
	p.offer = p.offer[n:]
	if len(p.offer) == 0 {
		p.offered = false
	}
	return n, nil
}

func (p *pipe) write(b []byte) (int, error) {
	s, t := cur()
	s.yield(t, opCond{"pipe.Write(begin)", func() bool { return !p.wlocked }})
	p.touch(t, 2)
	if p.closed {
		return 0, p.writeCloseError()
	}
	total := len(b)
	p.wlocked = true
	p.offer, p.offered = b, true
	s.yield(t, opCond{"pipe.Write(wait)", func() bool { return !p.offered || p.closed }})
	p.touch(t, 3)
	p.wlocked = false
	if !p.offered {
		return total, nil
	}
	n := total - len(p.offer)
	p.offer, p.offered = nil, false
	return n, p.writeCloseError()
}

func (p *pipe) close(isWriter bool, err error) error {
	s, t := cur()
	if s.aborting {
		return nil
	}
	s.yield(t, opSimple{"pipe.Close"})
	p.touch(t, 4)
	if isWriter {
		if err == nil {
			err = io.EOF
		}
		if p.werr == nil {
			p.werr = err
		}
	} else {
		if err == nil {
			err = io.ErrClosedPipe
		}
		if p.rerr == nil {
			p.rerr = err
		}
	}
	p.closed = true
	return nil
}

type PipeReader struct{ p *pipe }

func (r *PipeReader) Read(data []byte) (n int, err error) { return r.p.read(data) }
func (r *PipeReader) Close() error                        { return r.CloseWithError(nil) }
func (r *PipeReader) CloseWithError(err error) error      { return r.p.close(false, err) }

type PipeWriter struct{ p *pipe }

func (w *PipeWriter) Write(data []byte) (n int, err error) { return w.p.write(data) }
func (w *PipeWriter) Close() error                         { return w.CloseWithError(nil) }
func (w *PipeWriter) CloseWithError(err error) error       { return w.p.close(true, err) }

// Pipe replaces io.Pipe.
func Pipe() (*PipeReader, *PipeWriter) {
	_, t := cur()
	p := &pipe{id: t.newObjID()}
	return &PipeReader{p}, &PipeWriter{p}
}

// SetFinalizer replaces runtime.SetFinalizer: recorded, never run (GC is not modelled).
func SetFinalizer(obj interface{}, fn interface{}) {
	if S != nil {
		S.Finalizers++
	}
}
