package mc

import "io"

// Pipe is a port of io.Pipe (go1.23 src/io/pipe.go) onto controlled
// primitives: same blocking behaviour, same errors.

type onceError struct {
	Mutex
	err error
}

func (a *onceError) Store(err error) {
	a.Lock()
	defer a.Unlock()
	if a.err != nil {
		return
	}
	a.err = err
}
func (a *onceError) Load() error {
	a.Lock()
	defer a.Unlock()
	return a.err
}

type pipe struct {
	wrMu Mutex
	wrCh *Chan[[]byte]
	rdCh *Chan[int]

	once Once
	done *Chan[struct{}]
	rerr onceError
	werr onceError
}

func (p *pipe) read(b []byte) (n int, err error) {
	if Select(true, RecvCase(p.done)) == 0 {
		return 0, p.readCloseError()
	}
	wr := RecvCase(p.wrCh)
	switch Select(false, wr, RecvCase(p.done)) {
	case 0:
		bw := wr.Val
		nr := copy(b, bw)
		Send(p.rdCh, nr)
		return nr, nil
	default:
		return 0, p.readCloseError()
	}
}

func (p *pipe) closeRead(err error) error {
	if err == nil {
		err = io.ErrClosedPipe
	}
	p.rerr.Store(err)
	p.once.Do(func() { Close(p.done) })
	return nil
}

func (p *pipe) write(b []byte) (n int, err error) {
	if Select(true, RecvCase(p.done)) == 0 {
		return 0, p.writeCloseError()
	}
	p.wrMu.Lock()
	defer p.wrMu.Unlock()
	for once := true; once || len(b) > 0; once = false {
		switch Select(false, SendCase(p.wrCh, b), RecvCase(p.done)) {
		case 0:
			nw := Recv(p.rdCh)
			b = b[nw:]
			n += nw
		default:
			return n, p.writeCloseError()
		}
	}
	return n, nil
}

func (p *pipe) closeWrite(err error) error {
	if err == nil {
		err = io.EOF
	}
	p.werr.Store(err)
	p.once.Do(func() { Close(p.done) })
	return nil
}

func (p *pipe) readCloseError() error {
	rerr := p.rerr.Load()
	if werr := p.werr.Load(); rerr == nil && werr != nil {
		return werr
	}
	return io.ErrClosedPipe
}

func (p *pipe) writeCloseError() error {
	werr := p.werr.Load()
	if rerr := p.rerr.Load(); werr == nil && rerr != nil {
		return rerr
	}
	return io.ErrClosedPipe
}

type PipeReader struct{ pipe }

func (r *PipeReader) Read(data []byte) (n int, err error) { return r.pipe.read(data) }
func (r *PipeReader) Close() error                        { return r.CloseWithError(nil) }
func (r *PipeReader) CloseWithError(err error) error      { return r.pipe.closeRead(err) }

type PipeWriter struct{ r PipeReader }

func (w *PipeWriter) Write(data []byte) (n int, err error) { return w.r.pipe.write(data) }
func (w *PipeWriter) Close() error                         { return w.CloseWithError(nil) }
func (w *PipeWriter) CloseWithError(err error) error       { return w.r.pipe.closeWrite(err) }

// Pipe replaces io.Pipe.
func Pipe() (*PipeReader, *PipeWriter) {
	pw := &PipeWriter{r: PipeReader{pipe: pipe{
		wrCh: NewChan[[]byte]().SetLabel("pipe.wr"),
		rdCh: NewChan[int]().SetLabel("pipe.rd"),
		done: NewChan[struct{}]().SetLabel("pipe.done"),
	}}}
	return &pw.r, pw
}

// SetFinalizer replaces runtime.SetFinalizer: recorded, never run (GC is not modelled).
func SetFinalizer(obj interface{}, fn interface{}) {
	if S != nil {
		S.Finalizers++
	}
}
