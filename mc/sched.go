// Package mc is a cooperative, fully controlled scheduler for Go code whose
// synchronisation primitives have been rewritten (by ../instr) to the
// equivalents in this package. Exactly one task (a real goroutine) runs at any
// time; every visible operation (channel op, select, lock acquire, context
// cancel / Err, WaitGroup.Wait, pipe op, environment choice) parks the task and
// lets the explorer decide which enabled alternative happens next.
package mc

import (
	"fmt"
	"runtime"
	"runtime/debug"
	"sort"
	"strings"
	"sync"
	"sync/atomic"
	"time"
	"unsafe"
)

// MaxTasks bounds the number of tasks of one execution (vector clock width).
const MaxTasks = 24

// VC is a vector clock indexed by task creation index.
type VC [MaxTasks]uint32

// Leq reports a <= b componentwise (a happens-before-or-equals b).
func (a *VC) Leq(b *VC) bool {
	for i := range a {
		if a[i] > b[i] {
			return false
		}
	}
	return true
}

func (a *VC) merge(b *VC) {
	for i := range a {
		if b[i] > a[i] {
			a[i] = b[i]
		}
	}
}

// Stamp is what an operation leaves on an object: the happens-before hash of
// the writer's causal past and its vector clock.
type Stamp struct {
	H uint64
	V VC
}

func mix(a, b uint64) uint64 {
	x := a ^ (b + 0x9e3779b97f4a7c15 + (a << 6) + (a >> 2))
	x ^= x >> 30
	x *= 0xbf58476d1ce4e5b9
	x ^= x >> 27
	x *= 0x94d049bb133111eb
	x ^= x >> 31
	return x
}

func hashString(s string) uint64 {
	h := uint64(14695981039346656037)
	for i := 0; i < len(s); i++ {
		h ^= uint64(s[i])
		h *= 1099511628211
	}
	return h
}

// Alt is one enabled alternative of one task.
type Alt struct {
	T       *Task
	Case    int   // select case index, -1 for default
	Partner *Task // rendezvous partner (unbuffered channels), else nil
	PCase   int
	resumed bool
	abort   bool
}

type op interface {
	// enabled appends t's currently enabled alternatives.
	enabled(s *Sched, t *Task, out []Alt) []Alt
	String() string
}

// Task is one controlled goroutine.
type Task struct {
	s        *Sched
	Path     string // canonical id: parent path + "." + spawn index
	Name     string
	Idx      int  // creation index within this execution (not canonical)
	Lib      bool // spawned by instrumented library code (mc.Go) rather than by the harness
	wake     chan Alt
	pend     op
	finished bool
	st       Stamp
	nspawn   int
	nobj     int
	// Where is a label the harness sets around API calls so that blocked-set
	// reports can say which call a task is stuck in.
	Where string
	timer bool
	// Free marks an environment task (canceller, timer, network event): switching
	// to it is not counted as a preemption, and it does not become the task whose
	// continuation is the default.
	Free bool
}

// Stamp returns a copy of the task's current stamp.
func (t *Task) Stamp() Stamp { return t.st }

func (t *Task) tick(kind uint64, obj uint64, alt int) {
	t.st.V[t.Idx]++
	t.st.H = mix(mix(t.st.H, kind<<8|uint64(uint8(alt))), obj)
}

// observe folds the stamp another operation left on an object.
func (t *Task) observe(o *Stamp) {
	t.st.H = mix(t.st.H, o.H^0x5bd1e995)
	t.st.V.merge(&o.V)
}

func (t *Task) newObjID() uint64 {
	t.nobj++
	return mix(hashString(t.Path), uint64(t.nobj))
}

// Step is one scheduling decision, recorded for traces and replay.
type Step struct {
	Task   string `json:"task"`
	Name   string `json:"name,omitempty"`
	Op     string `json:"op"`
	Case   int    `json:"case"`
	NAlts  int    `json:"nalts"`
	Choice int    `json:"choice"`
}

// PanicInfo describes a panic that escaped a task.
type PanicInfo struct {
	Task  string
	Name  string
	Value string
	Stack string
}

// BlockedInfo describes a task that is still parked at quiescence.
type BlockedInfo struct {
	Task  string
	Name  string
	Lib   bool
	Op    string
	Where string
	timer bool
	// Free marks an environment task (canceller, timer, network event): switching
	// to it is not counted as a preemption, and it does not become the task whose
	// continuation is the default.
	Free bool
}

// Sched is the scheduler of one execution.
type Sched struct {
	tasks     []*Task
	sorted    []*Task
	running   *Task // the task holding the baton
	main      *Task // the last non-free task that ran: its continuation is the default, leaving it is a preemption
	ctl       chan struct{}
	endCh     chan bool
	altBuf    []Alt
	maxSteps  int
	parkClock int
	aborting  bool
	wg        sync.WaitGroup
	progress  atomic.Uint64 // scheduling steps taken (read by the watchdog)

	Trace   []Step
	Choices []uint8
	steps   int
	vnow    time.Duration
	doneMap map[<-chan struct{}]*cancelCtx
	timers  bool
	quiet   bool // decisions take the default alternative and open no branches (SetQuiet)

	Panics []PanicInfo
	// User is the harness's per-execution observation record.
	User interface{}

	decide     func(s *Sched, alts []Alt) int
	KeepTrace  bool
	err        error
	preempts   int
	Finalizers int
	addrSt     map[unsafe.Pointer]*addrState
}

// S is the scheduler of the execution currently in progress (nil outside one).
var S *Sched

func cur() (*Sched, *Task) {
	s := S
	if s == nil {
		panic("mc: controlled operation outside an execution")
	}
	return s, s.running
}

// Active reports whether a controlled execution is in progress.
func Active() bool { return S != nil }

// Self returns the running task.
func Self() *Task { _, t := cur(); return t }

// Now returns the virtual time offset.
func (s *Sched) Now() time.Duration { return s.vnow }

func (s *Sched) newTask(parent *Task, name string, lib bool) *Task {
	if len(s.tasks) >= MaxTasks {
		panic("mc: too many tasks")
	}
	t := &Task{s: s, Name: name, Idx: len(s.tasks), Lib: lib, wake: make(chan Alt, 1)}
	if parent == nil {
		t.Path = "0"
	} else {
		t.Path = fmt.Sprintf("%s.%d", parent.Path, parent.nspawn)
		parent.nspawn++
		parent.tick(kSpawn, 0, 0)
		t.st = parent.st // spawn happens-before everything in the child
	}
	t.st.H = mix(t.st.H, hashString(t.Path))
	t.pend = opStart{}
	s.tasks = append(s.tasks, t)
	// keep canonical order
	i := sort.Search(len(s.sorted), func(i int) bool { return s.sorted[i].Path > t.Path })
	s.sorted = append(s.sorted, nil)
	copy(s.sorted[i+1:], s.sorted[i:])
	s.sorted[i] = t
	return t
}

type opStart struct{}

func (opStart) enabled(s *Sched, t *Task, out []Alt) []Alt { return append(out, Alt{T: t}) }
func (opStart) String() string                             { return "start" }

const (
	kSpawn uint64 = iota + 1
	kStart
	kLock
	kUnlock
	kRLock
	kRUnlock
	kWait
	kWGDone
	kChan
	kClose
	kCancel
	kErr
	kChoose
	kTimer
	kYield
	kPark
)

func (s *Sched) spawn(parent *Task, name string, lib bool, fn func()) *Task {
	t := s.newTask(parent, name, lib)
	s.wg.Add(1)
	go t.run(fn)
	return t
}

func (t *Task) run(fn func()) {
	s := t.s
	defer func() {
		r := recover() // nil for a normal return and for Goexit (abort)
		if r != nil && !s.aborting {
			s.Panics = append(s.Panics, PanicInfo{Task: t.Path, Name: t.Name, Value: fmt.Sprint(r), Stack: trimStack(string(debug.Stack()))})
		}
		t.finished = true
		t.pend = nil
		s.wg.Done()
		if s.aborting {
			s.ctl <- struct{}{}
			return
		}
		// hand the baton on: the finishing task picks the next one itself
		a, st := s.pick()
		if st == pickOK {
			a.T.wake <- a
		} else {
			s.endCh <- st == pickComplete
		}
	}()
	a := <-t.wake
	if a.abort {
		runtime.Goexit()
	}
	t.pend = nil
	t.tick(kStart, 0, 0)
	fn()
}

func trimStack(st string) string {
	lines := strings.Split(st, "\n")
	var out []string
	for _, l := range lines {
		if strings.Contains(l, "runtime/debug") || strings.Contains(l, "runtime/panic") {
			continue
		}
		out = append(out, l)
		if len(out) > 40 {
			break
		}
	}
	return strings.Join(out, "\n")
}

// yield parks the running task on o and returns the alternative chosen for it.
// The yielding task runs the scheduling decision itself: when it is chosen
// again (the common case) no goroutine switch happens at all; otherwise it
// wakes the chosen task directly.
func (s *Sched) yield(t *Task, o op) Alt {
	if s.aborting {
		runtime.Goexit()
	}
	if t != s.running {
		panic("mc: yield from a task that is not running")
	}
	t.pend = o
	a, st := s.pick()
	if st != pickOK {
		s.endCh <- st == pickComplete
	} else if a.T == t {
		t.pend = nil
		return a
	} else {
		a.T.wake <- a
	}
	a = <-t.wake
	if a.abort {
		runtime.Goexit()
	}
	t.pend = nil
	return a
}

// Go starts a controlled task on behalf of instrumented library code.
func Go(fn func()) {
	s, t := cur()
	if s.aborting {
		return
	}
	s.spawn(t, "", true, fn)
}

// GoNamed starts a harness task.
func GoNamed(name string, fn func()) *Task {
	s, t := cur()
	if s.aborting {
		runtime.Goexit()
	}
	return s.spawn(t, name, false, fn)
}

// Choose is an environment choice with n alternatives, all enabled.
func Choose(n int, label string) int {
	s, t := cur()
	a := s.yield(t, opChoose{n, label})
	t.tick(kChoose, hashString(label), a.Case)
	return a.Case
}

type opChoose struct {
	n     int
	label string
}

func (o opChoose) enabled(s *Sched, t *Task, out []Alt) []Alt {
	for i := 0; i < o.n; i++ {
		out = append(out, Alt{T: t, Case: i})
	}
	return out
}
func (o opChoose) String() string { return "choose:" + o.label }

// Yield is a plain scheduling point (used by harness monitors).
func Yield(label string) {
	s, t := cur()
	s.yield(t, opChoose{1, label})
	t.tick(kYield, hashString(label), 0)
}

func (s *Sched) enabledAlts(buf []Alt) []Alt {
	buf = buf[:0]
	var woken *Task
	wokenAt, wokenFrom, wokenTo := 0, 0, 0
	one := func(t *Task) {
		n0 := len(buf)
		buf = t.pend.enabled(s, t, buf)
		if o, ok := t.pend.(*opSelect); ok && !o.hasDefault {
			switch {
			case len(buf) == n0:
				if o.parkedAt == 0 && !rendezvousPending(s, t, o) {
					s.parkClock++
					o.parkedAt = s.parkClock
					t.tick(kPark, 0, 0) // going to sleep is an observation ("nothing ready yet")
				}
			case o.parkedAt > 0 && (woken == nil || o.parkedAt < wokenAt):
				woken, wokenAt, wokenFrom, wokenTo = t, o.parkedAt, n0, len(buf)
			}
		}
	}
	// running task first
	if r := s.main; r != nil && !r.finished && r.pend != nil {
		one(r)
	}
	for _, t := range s.sorted {
		if t == s.main || t.finished || t.pend == nil {
			continue
		}
		one(t)
	}
	if woken != nil {
		// a sleeping select that has been made ready is committed to that case now
		_ = wokenTo
		k := 0
		for i := range buf {
			if buf[i].T == woken && i >= wokenFrom {
				buf[k] = buf[i]
				k++
			}
		}
		buf = buf[:k]
	}
	return buf
}

// rendezvousPending reports whether a case of o could complete by rendezvous with a
// partner that is enumerated from the other side (a send whose receiver is waiting).
func rendezvousPending(s *Sched, t *Task, o *opSelect) bool {
	for _, c := range o.cases {
		if c.isSend() && hasPartner(s, t, o, c) {
			return true
		}
	}
	return false
}

// Key returns the happens-before state key of the current cut.
func (s *Sched) Key() [2]uint64 {
	var a, b uint64 = 0x243f6a8885a308d3, 0x13198a2e03707344
	for _, t := range s.sorted {
		h := t.st.H
		if t.finished {
			h = mix(h, 0xf1)
		}
		a = mix(a, h)
		b = mix(b^0xa4093822299f31d0, h+0x082efa98ec4e6c89)
	}
	return [2]uint64{a, b}
}

// ErrDiverged etc. are checker errors (exit 2), not verdicts.
type CheckerError struct{ Msg string }

func (e *CheckerError) Error() string { return e.Msg }

const watchdog = 20 * time.Second
const watchdogTicks = 6

// loop runs the execution to quiescence (or until decide prunes it).
// It returns true when the execution ran to quiescence.
type pickStatus int

const (
	pickOK       pickStatus = iota
	pickComplete            // quiescent (or a task panicked): the execution is over
	pickStopped             // pruned by the explorer, or a checker error
)

// pick makes one scheduling decision. It runs on the goroutine of whichever
// task just parked or finished (exactly one task runs at any time).
func (s *Sched) pick() (Alt, pickStatus) {
	if len(s.Panics) > 0 {
		return Alt{}, pickComplete
	}
	s.altBuf = s.enabledAlts(s.altBuf)
	buf := s.altBuf
	if len(buf) == 0 {
		return Alt{}, pickComplete
	}
	if s.steps >= s.maxSteps {
		s.err = &CheckerError{fmt.Sprintf("step horizon %d reached (livelock or unbounded script)", s.maxSteps)}
		return Alt{}, pickStopped
	}
	// Purely local steps (a task starting, a task resuming after a rendezvous
	// another task performed) commute with everything: take them at once.
	// A single enabled alternative is no decision either.
	c := -1
	for i := range buf {
		switch buf[i].T.pend.(type) {
		case opStart, opResume:
			c = i
		}
		if c >= 0 {
			break
		}
	}
	forced := c >= 0
	if c < 0 && len(buf) == 1 {
		c, forced = 0, true
	}
	if !forced {
		c = s.decide(s, buf)
		if c < 0 {
			return Alt{}, pickStopped
		}
		if c >= len(buf) {
			s.err = &CheckerError{fmt.Sprintf("replay divergence: choice %d of %d at step %d", c, len(buf), s.steps)}
			return Alt{}, pickStopped
		}
	}
	a := buf[c]
	// preemption accounting: switching away from a still-enabled running task
	if !forced && s.main != nil && a.T != s.main && !a.T.Free && len(buf) > 0 && buf[0].T == s.main {
		s.preempts++
	}
	if len(buf) > 255 {
		s.err = &CheckerError{"more than 255 alternatives"}
		return Alt{}, pickStopped
	}
	if !forced {
		s.Choices = append(s.Choices, uint8(c))
	}
	if s.KeepTrace {
		s.Trace = append(s.Trace, Step{Task: a.T.Path, Name: a.T.Name, Op: a.T.pend.String(), Case: a.Case, NAlts: len(buf), Choice: c})
	}
	s.steps++
	s.progress.Add(1)
	s.running = a.T
	if !a.T.Free {
		s.main = a.T
	}
	return a, pickOK
}

// loop starts the execution and waits until it is over (quiescence, a panic,
// pruning or an error). It returns true when the execution ran to quiescence.
func (s *Sched) loop(maxSteps int) (complete bool) {
	s.maxSteps = maxSteps
	a, st := s.pick()
	if st != pickOK {
		return st == pickComplete
	}
	a.T.wake <- a
	// The watchdog looks at progress, not at elapsed time: it fires only when no
	// scheduling step was taken during watchdogTicks consecutive intervals, so a
	// loaded machine cannot trip it while a natively blocked task still does.
	timer := time.NewTicker(watchdog)
	defer timer.Stop()
	last, idle := s.progress.Load(), 0
	for {
		select {
		case c := <-s.endCh:
			return c
		case <-timer.C:
			if p := s.progress.Load(); p != last {
				last, idle = p, 0
				continue
			}
			if idle++; idle < watchdogTicks {
				continue
			}
			bufst := make([]byte, 1<<16)
			n := runtime.Stack(bufst, true)
			s.err = &CheckerError{"watchdog: no scheduling step for " + (watchdog * watchdogTicks).String() + " (a task blocked natively?)\n" + string(bufst[:n])}
			return false
		}
	}
}

func (s *Sched) abortAll() {
	s.aborting = true
	// one at a time, so that deferred functions of the code under test never
	// run concurrently with each other
	for i := 0; i < len(s.tasks); i++ {
		t := s.tasks[i]
		if t.finished {
			continue
		}
		t.wake <- Alt{abort: true}
		select {
		case <-s.ctl:
		case <-time.After(watchdog * watchdogTicks):
			if s.err == nil {
				s.err = &CheckerError{"abort: task " + t.Path + " did not exit"}
			}
			return
		}
	}
	s.wg.Wait()
}

// Blocked lists unfinished tasks (call at quiescence).
func (s *Sched) Blocked() []BlockedInfo {
	var out []BlockedInfo
	for _, t := range s.sorted {
		if t.finished || t.timer {
			continue
		}
		opd := "?"
		if t.pend != nil {
			opd = t.pend.String()
		}
		out = append(out, BlockedInfo{Task: t.Path, Name: t.Name, Lib: t.Lib, Op: opd, Where: t.Where})
	}
	return out
}

// Tasks returns all tasks in canonical order.
func (s *Sched) Tasks() []*Task { return s.sorted }

// Finished reports whether the task has returned.
func (t *Task) Finished() bool { return t.finished }

// Preemptions returns the number of preemptions so far in this execution.
func (s *Sched) Preemptions() int { return s.preempts }

// Steps returns the number of scheduling decisions so far.
func (s *Sched) Steps() int { return s.steps }
