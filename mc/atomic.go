package mc

import (
	"sync/atomic"
	"time"
	"unsafe"
)

// Shims for sync/atomic, sync.Cond, sync.Map and timers, so that a changed
// tree that starts using them can still be explored: every atomic operation is
// a scheduling point, chained per address.

func (s *Sched) atomicPoint(addr unsafe.Pointer, kind int) {
	t := s.running
	s.yield(t, opSimple{"atomic"})
	if s.addrSt == nil {
		s.addrSt = map[unsafe.Pointer]*addrState{}
	}
	st := s.addrSt[addr]
	if st == nil {
		// the identity of the location is that of its first access (task path + that task's own count of
		// objects), so that it does not depend on the incidental global order in which unrelated locations
		// were first touched -- otherwise equivalent interleavings would never hash to the same state
		st = &addrState{id: t.newObjID()}
		s.addrSt[addr] = st
	}
	t.tick(kLock, st.id, kind)
	t.observe(&st.st)
	st.st = t.st
}

type addrState struct {
	id uint64
	st Stamp
}

func atomicPoint(addr unsafe.Pointer, kind int) {
	if s := S; s != nil && !s.aborting {
		s.atomicPoint(addr, kind)
	}
}

func AtomicAddInt32(a *int32, d int32) int32 {
	atomicPoint(unsafe.Pointer(a), 1)
	return atomic.AddInt32(a, d)
}
func AtomicAddInt64(a *int64, d int64) int64 {
	atomicPoint(unsafe.Pointer(a), 1)
	return atomic.AddInt64(a, d)
}
func AtomicAddUint32(a *uint32, d uint32) uint32 {
	atomicPoint(unsafe.Pointer(a), 1)
	return atomic.AddUint32(a, d)
}
func AtomicAddUint64(a *uint64, d uint64) uint64 {
	atomicPoint(unsafe.Pointer(a), 1)
	return atomic.AddUint64(a, d)
}
func AtomicLoadInt32(a *int32) int32 { atomicPoint(unsafe.Pointer(a), 2); return atomic.LoadInt32(a) }
func AtomicLoadInt64(a *int64) int64 { atomicPoint(unsafe.Pointer(a), 2); return atomic.LoadInt64(a) }
func AtomicLoadUint32(a *uint32) uint32 {
	atomicPoint(unsafe.Pointer(a), 2)
	return atomic.LoadUint32(a)
}
func AtomicLoadUint64(a *uint64) uint64 {
	atomicPoint(unsafe.Pointer(a), 2)
	return atomic.LoadUint64(a)
}
func AtomicStoreInt32(a *int32, v int32) { atomicPoint(unsafe.Pointer(a), 3); atomic.StoreInt32(a, v) }
func AtomicStoreInt64(a *int64, v int64) { atomicPoint(unsafe.Pointer(a), 3); atomic.StoreInt64(a, v) }
func AtomicStoreUint32(a *uint32, v uint32) {
	atomicPoint(unsafe.Pointer(a), 3)
	atomic.StoreUint32(a, v)
}
func AtomicStoreUint64(a *uint64, v uint64) {
	atomicPoint(unsafe.Pointer(a), 3)
	atomic.StoreUint64(a, v)
}
func AtomicSwapInt32(a *int32, v int32) int32 {
	atomicPoint(unsafe.Pointer(a), 4)
	return atomic.SwapInt32(a, v)
}
func AtomicSwapInt64(a *int64, v int64) int64 {
	atomicPoint(unsafe.Pointer(a), 4)
	return atomic.SwapInt64(a, v)
}
func AtomicCompareAndSwapInt32(a *int32, o, n int32) bool {
	atomicPoint(unsafe.Pointer(a), 5)
	return atomic.CompareAndSwapInt32(a, o, n)
}
func AtomicCompareAndSwapInt64(a *int64, o, n int64) bool {
	atomicPoint(unsafe.Pointer(a), 5)
	return atomic.CompareAndSwapInt64(a, o, n)
}
func AtomicCompareAndSwapUint32(a *uint32, o, n uint32) bool {
	atomicPoint(unsafe.Pointer(a), 5)
	return atomic.CompareAndSwapUint32(a, o, n)
}

// AtomicBool / AtomicInt32 / AtomicInt64 / AtomicValue replace the atomic.* types.
type AtomicBool struct{ v int32 }

func (b *AtomicBool) Load() bool { return AtomicLoadInt32(&b.v) != 0 }
func (b *AtomicBool) Store(x bool) {
	var n int32
	if x {
		n = 1
	}
	AtomicStoreInt32(&b.v, n)
}
func (b *AtomicBool) Swap(x bool) bool {
	var n int32
	if x {
		n = 1
	}
	return AtomicSwapInt32(&b.v, n) != 0
}
func (b *AtomicBool) CompareAndSwap(o, n bool) bool {
	var oi, ni int32
	if o {
		oi = 1
	}
	if n {
		ni = 1
	}
	return AtomicCompareAndSwapInt32(&b.v, oi, ni)
}

type AtomicInt32 struct{ v int32 }

func (a *AtomicInt32) Load() int32                    { return AtomicLoadInt32(&a.v) }
func (a *AtomicInt32) Store(x int32)                  { AtomicStoreInt32(&a.v, x) }
func (a *AtomicInt32) Add(d int32) int32              { return AtomicAddInt32(&a.v, d) }
func (a *AtomicInt32) Swap(x int32) int32             { return AtomicSwapInt32(&a.v, x) }
func (a *AtomicInt32) CompareAndSwap(o, n int32) bool { return AtomicCompareAndSwapInt32(&a.v, o, n) }

type AtomicInt64 struct{ v int64 }

func (a *AtomicInt64) Load() int64                    { return AtomicLoadInt64(&a.v) }
func (a *AtomicInt64) Store(x int64)                  { AtomicStoreInt64(&a.v, x) }
func (a *AtomicInt64) Add(d int64) int64              { return AtomicAddInt64(&a.v, d) }
func (a *AtomicInt64) Swap(x int64) int64             { return AtomicSwapInt64(&a.v, x) }
func (a *AtomicInt64) CompareAndSwap(o, n int64) bool { return AtomicCompareAndSwapInt64(&a.v, o, n) }

type AtomicUint32 struct{ v uint32 }

func (a *AtomicUint32) Load() uint32        { return AtomicLoadUint32(&a.v) }
func (a *AtomicUint32) Store(x uint32)      { AtomicStoreUint32(&a.v, x) }
func (a *AtomicUint32) Add(d uint32) uint32 { return AtomicAddUint32(&a.v, d) }
func (a *AtomicUint32) CompareAndSwap(o, n uint32) bool {
	return AtomicCompareAndSwapUint32(&a.v, o, n)
}

type AtomicValue struct {
	k int32
	v interface{}
}

func (a *AtomicValue) Load() interface{}   { atomicPoint(unsafe.Pointer(&a.k), 2); return a.v }
func (a *AtomicValue) Store(x interface{}) { atomicPoint(unsafe.Pointer(&a.k), 3); a.v = x }

// SyncMap replaces sync.Map (every method is a scheduling point).
type SyncMap struct {
	k int32
	m map[interface{}]interface{}
}

func (m *SyncMap) pt(kind int) {
	atomicPoint(unsafe.Pointer(&m.k), kind)
	if m.m == nil {
		m.m = map[interface{}]interface{}{}
	}
}
func (m *SyncMap) Load(k interface{}) (interface{}, bool) { m.pt(2); v, ok := m.m[k]; return v, ok }
func (m *SyncMap) Store(k, v interface{})                 { m.pt(3); m.m[k] = v }
func (m *SyncMap) Delete(k interface{})                   { m.pt(3); delete(m.m, k) }
func (m *SyncMap) LoadOrStore(k, v interface{}) (interface{}, bool) {
	m.pt(5)
	if old, ok := m.m[k]; ok {
		return old, true
	}
	m.m[k] = v
	return v, false
}
func (m *SyncMap) LoadAndDelete(k interface{}) (interface{}, bool) {
	m.pt(5)
	v, ok := m.m[k]
	delete(m.m, k)
	return v, ok
}
func (m *SyncMap) Range(f func(k, v interface{}) bool) {
	m.pt(2)
	for k, v := range m.m {
		if !f(k, v) {
			return
		}
	}
}

// Locker is sync.Locker.
type Locker interface {
	Lock()
	Unlock()
}

// Cond replaces sync.Cond.
type Cond struct {
	L       Locker
	waiters []*condWaiter
	k       int32
}

type condWaiter struct{ woken bool }

func NewCond(l Locker) *Cond { return &Cond{L: l} }

func (c *Cond) Wait() {
	s, t := cur()
	w := &condWaiter{}
	c.waiters = append(c.waiters, w)
	c.L.Unlock()
	s.yield(t, opCond{"Cond.Wait", func() bool { return w.woken }})
	t.tick(kWait, 0, 0)
	c.L.Lock()
}

func (c *Cond) Signal() {
	atomicPoint(unsafe.Pointer(&c.k), 3)
	if len(c.waiters) > 0 {
		c.waiters[0].woken = true
		c.waiters = c.waiters[1:]
	}
}

func (c *Cond) Broadcast() {
	atomicPoint(unsafe.Pointer(&c.k), 3)
	for _, w := range c.waiters {
		w.woken = true
	}
	c.waiters = nil
}

// Timer replaces *time.Timer; its channel fires at an arbitrary point once started.
type Timer struct {
	C       *Chan[time.Time]
	stopped *Chan[struct{}]
	fired   bool
	f       func()
}

func startTimer(d time.Duration, f func()) *Timer {
	s, t := cur()
	tm := &Timer{C: NewChan[time.Time](1), stopped: NewChan[struct{}](), f: f}
	at := TimeBase.Add(s.vnow + d)
	tk := s.spawn(t, "timer", true, func() {
		s2, me := cur()
		a := s2.yield(me, opTimerFire{tm})
		if a.Case != 0 {
			return
		}
		me.tick(kTimer, 0, 0)
		tm.fired = true
		if off := at.Sub(TimeBase); off > s2.vnow {
			s2.vnow = off
		}
		if tm.f != nil {
			tm.f()
			return
		}
		Select(true, SendCase(tm.C, at))
	})
	tk.timer = true
	return tm
}

type opTimerFire struct{ tm *Timer }

func (o opTimerFire) enabled(s *Sched, t *Task, out []Alt) []Alt {
	if o.tm.stopped.closed {
		return append(out, Alt{T: t, Case: 1})
	}
	if s.timers {
		out = append(out, Alt{T: t, Case: 0})
	}
	return out
}
func (o opTimerFire) String() string { return "timer.fire" }

func TimeNewTimer(d time.Duration) *Timer            { return startTimer(d, nil) }
func TimeAfter(d time.Duration) *Chan[time.Time]     { return startTimer(d, nil).C }
func TimeAfterFunc(d time.Duration, f func()) *Timer { return startTimer(d, f) }

// Stop prevents the timer from firing; it reports whether it stopped it.
func (t *Timer) Stop() bool {
	atomicPoint(unsafe.Pointer(t), 3)
	if t.fired || t.stopped.closed {
		return false
	}
	t.stopped.closed = true
	return true
}

// Pool replaces sync.Pool with its specification rather than its
// implementation: Get may hand back *any* object that was Put and not yet taken,
// or none of them (New is called, or nil returned) -- which one is a choice the
// explorer enumerates. Put and Get are scheduling points chained on the pool.
type Pool struct {
	New   func() interface{}
	items []interface{}
	k     byte
}

func (p *Pool) Get() interface{} {
	if S == nil || S.aborting {
		if n := len(p.items); n > 0 {
			x := p.items[n-1]
			p.items = p.items[:n-1]
			return x
		}
	} else {
		atomicPoint(unsafe.Pointer(&p.k), 4)
		if n := len(p.items); n > 0 {
			if c := Choose(n+1, "pool.Get"); c < n {
				x := p.items[c]
				p.items = append(p.items[:c:c], p.items[c+1:]...)
				return x
			}
		}
	}
	if p.New != nil {
		return p.New()
	}
	return nil
}

func (p *Pool) Put(x interface{}) {
	if x == nil {
		return
	}
	if S != nil && !S.aborting {
		atomicPoint(unsafe.Pointer(&p.k), 5)
	}
	p.items = append(p.items, x)
}

// Access is a tracked access to a piece of plain application memory (a message
// object the harness owns): a scheduling point chained per address, so that the
// two orders of conflicting accesses by different tasks are different states and
// both get explored. Untracked plain memory is invisible to happens-before
// caching: executions that differ only in the order of two unsynchronised
// accesses count as the same state.
func Access(addr unsafe.Pointer, write bool) {
	k := 2
	if write {
		k = 3
	}
	atomicPoint(addr, k)
}
