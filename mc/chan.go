package mc

import (
	"fmt"
	"runtime"
)

// chanCore is the non-generic part of a channel.
type chanCore struct {
	id     uint64
	capn   int
	n      int
	closed bool
	st     Stamp
	wrap   *cancelCtx // non-nil: close-only view of a context's Done channel
	label  string

	// capn > 1: sends and receives on a non-empty, non-full buffer commute, so
	// they are chained separately (senders among themselves, receivers among
	// themselves, each item to its receiver, a send to the receive that freed
	// its slot, close to everything)
	sst, rst, cst Stamp
	nsent, nrecv  int
	rstamps       []Stamp
}

func (k *chanCore) split() bool { return k.capn > 1 }

// Chan is the controlled replacement of a native Go channel.
type Chan[T any] struct {
	chanCore
	buf    []T
	stamps []Stamp // capn > 1: stamp of each buffered item
}

// NewChan replaces make(chan T, n).
func NewChan[T any](n ...int) *Chan[T] {
	c := &Chan[T]{}
	if len(n) > 0 {
		c.capn = n[0]
	}
	if S != nil {
		_, t := cur()
		c.id = t.newObjID()
	} else {
		// made outside an execution: a package-level channel of the code under test, (re)created by the
		// per-execution reset of package-level state in a fixed order
		preExecObjs++
		c.id = mix(0x9e3779b97f4a7c15, preExecObjs)
	}
	return c
}

// preExecObjs counts the objects made outside an execution since the last reset (Explorer.runOne).
var preExecObjs uint64

// Len / Cap replace len(c) / cap(c).
func (c *Chan[T]) Len() int {
	if c == nil {
		return 0
	}
	return c.n
}
func (c *Chan[T]) Cap() int {
	if c == nil {
		return 0
	}
	return c.capn
}

// SetLabel names the channel in traces.
func (c *Chan[T]) SetLabel(l string) *Chan[T] { c.label = l; return c }

// Case is one arm of a Select.
type Case interface {
	core() *chanCore
	isSend() bool
	// take transfers a value directly from the sender's case (rendezvous).
	take(from Case)
	complete(t *Task)
}

// RecvC is a receive arm; after Select picks it, Val/Ok hold the result.
type RecvC[T any] struct {
	C   *Chan[T]
	Val T
	Ok  bool
}

// SendC is a send arm.
type SendC[T any] struct {
	C *Chan[T]
	V T
}

func RecvCase[T any](c *Chan[T]) *RecvC[T]      { return &RecvC[T]{C: c} }
func SendCase[T any](c *Chan[T], v T) *SendC[T] { return &SendC[T]{C: c, V: v} }

func (r *RecvC[T]) core() *chanCore {
	if r.C == nil {
		return nil
	}
	return &r.C.chanCore
}
func (r *RecvC[T]) isSend() bool { return false }
func (r *RecvC[T]) take(from Case) {
	s := from.(*SendC[T])
	r.Val, r.Ok = s.V, true
}
func (r *RecvC[T]) complete(t *Task) {
	c := r.C
	if c.wrap != nil {
		// closed Done channel: a read of the cancellation
		t.tick(kChan, c.wrap.id, 0)
		t.observe(&c.wrap.cst)
		var z T
		r.Val, r.Ok = z, false
		return
	}
	t.tick(kChan, c.id, 0)
	if c.split() {
		t.observe(&c.rst)
		if c.n > 0 {
			r.Val, r.Ok = c.buf[0], true
			t.observe(&c.stamps[0])
			var z T
			c.buf[0] = z
			c.buf = c.buf[1:]
			c.stamps = c.stamps[1:]
			c.n--
			c.nrecv++
			if c.capn < 1024 {
				c.rstamps = append(c.rstamps, t.st)
			}
		} else if c.closed {
			t.observe(&c.cst)
			var z T
			r.Val, r.Ok = z, false
		} else {
			panic("mc: receive completed on an empty open channel")
		}
		c.rst = t.st
		return
	}
	t.observe(&c.st)
	if c.n > 0 {
		r.Val, r.Ok = c.buf[0], true
		var z T
		c.buf[0] = z
		c.buf = c.buf[1:]
		c.n--
	} else if c.closed {
		var z T
		r.Val, r.Ok = z, false
	} else {
		panic("mc: receive completed on an empty open channel")
	}
	c.st = t.st
}

func (s *SendC[T]) core() *chanCore {
	if s.C == nil {
		return nil
	}
	return &s.C.chanCore
}
func (s *SendC[T]) isSend() bool   { return true }
func (s *SendC[T]) take(from Case) { panic("mc: take on send case") }
func (s *SendC[T]) complete(t *Task) {
	c := s.C
	t.tick(kChan, c.id, 1)
	if c.split() {
		t.observe(&c.sst)
		if c.closed {
			t.observe(&c.cst)
			c.sst = t.st
			panic("send on closed channel")
		}
		if c.n >= c.capn {
			panic("mc: send completed on a full channel")
		}
		if c.nsent >= c.capn && c.capn < 1024 {
			t.observe(&c.rstamps[c.nsent-c.capn])
		}
		c.nsent++
		c.buf = append(c.buf, s.V)
		c.stamps = append(c.stamps, t.st)
		c.n++
		c.sst = t.st
		return
	}
	t.observe(&c.st)
	if c.closed {
		c.st = t.st
		panic("send on closed channel")
	}
	if c.n >= c.capn {
		panic("mc: send completed on a full channel")
	}
	c.buf = append(c.buf, s.V)
	c.n++
	c.st = t.st
}

type opSelect struct {
	cases      []Case
	hasDefault bool
	pri        bool // prioritised: only the first ready case (in source order) is enabled
	desc       string
	// parkedAt > 0: at an earlier decision point no case was ready, i.e. the
	// goroutine really went to sleep on this select. Go commits a sleeping select
	// to the first case another goroutine makes ready (the waker dequeues it), so
	// such a select is resumed before anything else happens (sched.go, enabledAlts).
	parkedAt int
}

func caseReady(s *Sched, t *Task, c Case) bool {
	k := c.core()
	if k == nil {
		return false
	}
	if k.wrap != nil {
		return !c.isSend() && k.wrap.err != nil
	}
	if c.isSend() {
		return k.closed || k.n < k.capn
	}
	return k.n > 0 || k.closed
}

// A rendezvous on an unbuffered channel needs one side to be asleep on it: a
// goroutine executing its select finds a case ready only if the partner is
// already parked in the channel's wait queue. Two selects that have both merely
// been reached (each with some other case ready, so neither went to sleep) cannot
// pair up.
func mayPair(a, b *opSelect) bool { return a.parkedAt > 0 || b.parkedAt > 0 }

// partners appends the rendezvous alternatives of receive case ci of task t.
func partners(s *Sched, t *Task, o *opSelect, ci int, k *chanCore, out []Alt) []Alt {
	for _, p := range s.sorted {
		if p == t || p.finished {
			continue
		}
		ps, ok := p.pend.(*opSelect)
		if !ok || !mayPair(o, ps) {
			continue
		}
		for pj, pc := range ps.cases {
			if pc.isSend() && pc.core() == k {
				out = append(out, Alt{T: t, Case: ci, Partner: p, PCase: pj})
			}
		}
	}
	return out
}

// hasPartner reports whether case c of task t could complete by rendezvous.
func hasPartner(s *Sched, t *Task, o *opSelect, c Case) bool {
	k := c.core()
	if k == nil || k.wrap != nil || k.capn != 0 || k.closed {
		return false
	}
	for _, p := range s.sorted {
		if p == t || p.finished {
			continue
		}
		ps, ok := p.pend.(*opSelect)
		if !ok || !mayPair(o, ps) {
			continue
		}
		for _, pc := range ps.cases {
			if pc.core() == k && pc.isSend() != c.isSend() {
				return true
			}
		}
	}
	return false
}

func (o *opSelect) enabled(s *Sched, t *Task, out []Alt) []Alt {
	n0 := len(out)
	rendezvousPossible := false
	for i, c := range o.cases {
		k := c.core()
		if k == nil {
			continue
		}
		if caseReady(s, t, c) {
			out = append(out, Alt{T: t, Case: i})
			if o.pri {
				return out
			}
			continue
		}
		if k.capn == 0 && k.wrap == nil && !k.closed {
			if !c.isSend() {
				out = partners(s, t, o, i, k, out)
			} else if hasPartner(s, t, o, c) {
				// enumerated from the receiver's side
				rendezvousPossible = true
			}
		}
	}
	if o.hasDefault && len(out) == n0 && !rendezvousPossible {
		out = append(out, Alt{T: t, Case: -1})
	}
	return out
}

func (o *opSelect) String() string { return descCases(o.cases, o.hasDefault) }

type opResume struct{ idx int }

func (o opResume) enabled(s *Sched, t *Task, out []Alt) []Alt {
	return append(out, Alt{T: t, Case: o.idx, resumed: true})
}
func (o opResume) String() string { return "resume-after-rendezvous" }

func descCases(cases []Case, hasDefault bool) string {
	d := "select["
	for i, c := range cases {
		if i > 0 {
			d += ","
		}
		k := c.core()
		switch {
		case k == nil:
			d += "nil"
		case k.wrap != nil:
			d += "<-done"
		case c.isSend():
			d += k.label + "<-"
		default:
			d += "<-" + k.label
		}
	}
	if hasDefault {
		d += ",default"
	}
	return d + "]"
}

// Select replaces a select statement. It returns the index of the chosen case,
// or -1 for default.
func Select(hasDefault bool, cases ...Case) int { return doSelect(hasDefault, false, cases) }

// SelectPri is a prioritised select for environment models (not a Go
// construct): the first ready case in argument order wins.
func SelectPri(cases ...Case) int { return doSelect(false, true, cases) }

func doSelect(hasDefault, pri bool, cases []Case) int {
	s, t := cur()
	if s.aborting {
		runtime.Goexit()
	}
	o := &opSelect{cases: cases, hasDefault: hasDefault, pri: pri}
	a := s.yield(t, o)
	if a.resumed {
		// our send was consumed by a rendezvous performed by the receiver
		t.tick(kYield, 0, a.Case)
		return a.Case
	}
	if a.Case < 0 {
		t.tick(kChan, 0, 255)
		return -1
	}
	c := cases[a.Case]
	if a.Partner != nil {
		// rendezvous: we are the receiver
		p := a.Partner
		ps := p.pend.(*opSelect)
		k := c.core()
		t.tick(kChan, k.id, 2)
		p.tick(kChan, k.id, 3)
		t.observe(&k.st)
		t.observe(&p.st)
		p.observe(&t.st)
		c.take(ps.cases[a.PCase])
		k.st = t.st
		p.pend = opResume{a.PCase}
		return a.Case
	}
	c.complete(t)
	return a.Case
}

// Send replaces c <- v.
func Send[T any](c *Chan[T], v T) {
	Select(false, &SendC[T]{C: c, V: v})
}

// Recv replaces <-c.
func Recv[T any](c *Chan[T]) T {
	r := &RecvC[T]{C: c}
	Select(false, r)
	return r.Val
}

// Recv2 replaces v, ok := <-c.
func Recv2[T any](c *Chan[T]) (T, bool) {
	r := &RecvC[T]{C: c}
	Select(false, r)
	return r.Val, r.Ok
}

// Close replaces close(c).
func Close[T any](c *Chan[T]) {
	if S == nil {
		// a package-level initialiser of the code under test closing a channel it has just made
		// (program start, or the per-execution reset of package-level state): nobody else is running
		if c == nil {
			panic("close of nil channel")
		}
		if c.closed {
			panic("close of closed channel")
		}
		c.closed = true
		return
	}
	s, t := cur()
	if s.aborting {
		return
	}
	if c == nil {
		panic("close of nil channel")
	}
	if c.wrap != nil {
		panic("mc: close of a wrapped Done channel")
	}
	s.yield(t, opSimple{"close " + c.label})
	t.tick(kClose, c.id, 0)
	c.touchAll(t)
	if c.closed {
		panic("close of closed channel")
	}
	c.closed = true
}

// CloseIfOpen closes c unless it is already closed, in one scheduling step.
func CloseIfOpen[T any](c *Chan[T]) bool {
	s, t := cur()
	if s.aborting {
		return false
	}
	s.yield(t, opSimple{"close-once " + c.label})
	t.tick(kClose, c.id, 1)
	c.touchAll(t)
	if c.closed {
		return false
	}
	c.closed = true
	return true
}

// touchAll orders an operation after and before everything else on the channel.
func (k *chanCore) touchAll(t *Task) {
	t.observe(&k.st)
	if k.split() {
		t.observe(&k.sst)
		t.observe(&k.rst)
		t.observe(&k.cst)
		k.sst, k.rst, k.cst = t.st, t.st, t.st
	}
	k.st = t.st
}

type opSimple struct{ d string }

func (o opSimple) enabled(s *Sched, t *Task, out []Alt) []Alt { return append(out, Alt{T: t}) }
func (o opSimple) String() string                             { return o.d }

// Wrap turns a native channel obtained from un-instrumented code (in practice
// ctx.Done()) into a close-only controlled view. nil stays nil.
func Wrap(ch <-chan struct{}) *Chan[struct{}] {
	if ch == nil {
		return nil
	}
	s := S
	if s == nil {
		panic("mc: Wrap outside an execution")
	}
	c := s.doneMap[ch]
	if c == nil {
		panic(fmt.Sprintf("mc: native channel %p does not belong to a controlled context", ch))
	}
	if c.view == nil {
		c.view = &Chan[struct{}]{chanCore: chanCore{wrap: c, label: "done"}}
	}
	return c.view
}
