package mc

import (
	"fmt"
	"time"
)

// Violation is what an oracle returns for one execution.
type Violation struct {
	Clause string      `json:"clause"`
	Obs    string      `json:"obs"` // normalised observation (part of the fingerprint)
	Detail interface{} `json:"detail,omitempty"`
}

// Found is a violation together with the schedule that produced it.
type Found struct {
	Violation
	Choices  []uint8 `json:"choices"`
	Preempts int     `json:"preemptions"`
	Trace    []Step  `json:"trace,omitempty"`
}

// Explorer enumerates every schedule of Body (stateless DFS, re-running Body
// from scratch for every branch) with happens-before state caching.
type Explorer struct {
	// Body is the root task of every execution.
	Body func(s *Sched)
	// End is evaluated at quiescence of every complete execution.
	End func(s *Sched) []Violation
	// Bound is the preemption bound; <0 means unbounded.
	Bound    int
	MaxSteps int
	Timers   bool
	// Budget: stop (capped) after this wall time / this many executions (0 = none).
	Deadline  time.Time
	MaxExecs  int64
	MaxStates int
	// StopAtFirst stops the search at the first violation of each distinct fingerprint count limit.
	MaxFound int

	States      int
	Transitions int64
	Executions  int64
	Pruned      int64
	Complete    int64
	MaxDepth    int
	Capped      bool
	CapReason   string
	Found       []Found
	Outcomes    map[string]int64 // filled by the harness through NoteOutcome
	Err         error

	visited map[[2]uint64]int16
	stack   []branch
	seenFP  map[string]bool
}

type branch struct {
	prefix []uint8
	key    [2]uint64 // state key expected just before the last choice of prefix
}

// NoteOutcome lets End record the normalised outcome of an execution.
func (e *Explorer) NoteOutcome(o string) {
	if e.Outcomes == nil {
		e.Outcomes = map[string]int64{}
	}
	e.Outcomes[o]++
}

func (e *Explorer) newSched() *Sched {
	return &Sched{ctl: make(chan struct{}, 1), endCh: make(chan bool, 1), doneMap: map[<-chan struct{}]*cancelCtx{}, timers: e.Timers}
}

// runOne executes one schedule. prefix is followed; afterwards choice 0 is
// taken at every point, new branches are pushed, and the execution is pruned
// at the first already-visited state.
func (e *Explorer) runOne(br branch, keepTrace bool, follow bool) *Sched {
	s := e.newSched()
	s.KeepTrace = keepTrace
	prefix := br.prefix
	s.decide = func(s *Sched, alts []Alt) int {
		i := len(s.Choices)
		if i < len(prefix) {
			if i == len(prefix)-1 && !follow && br.key != ([2]uint64{}) {
				if s.Key() != br.key {
					s.err = &CheckerError{fmt.Sprintf("replay divergence: state key differs at step %d", i)}
					return -1
				}
			}
			e.Transitions++
			return int(prefix[i])
		}
		if follow {
			// follow mode: default choice after the prefix, no search
			e.Transitions++
			return 0
		}
		key := s.Key()
		pre := s.preempts
		if v, ok := e.visited[key]; ok && (e.Bound < 0 || int(v) <= pre) {
			e.Pruned++
			return -1
		}
		if _, ok := e.visited[key]; !ok {
			e.States++
		}
		e.visited[key] = int16(pre)
		mainEnabled := s.main != nil && alts[0].T == s.main
		for c := len(alts) - 1; c >= 1; c-- {
			cost := pre
			if mainEnabled && alts[c].T != s.main && !alts[c].T.Free {
				cost++
			}
			if e.Bound >= 0 && cost > e.Bound {
				continue
			}
			np := make([]uint8, i+1)
			copy(np, s.Choices[:i])
			np[i] = uint8(c)
			e.stack = append(e.stack, branch{prefix: np, key: key})
		}
		e.Transitions++
		return 0
	}
	S = s
	root := s.newTask(nil, "root", false)
	s.wg.Add(1)
	go root.run(func() { e.Body(s) })
	s.running = nil
	complete := s.loop(e.maxSteps())
	if s.steps > e.MaxDepth {
		e.MaxDepth = s.steps
	}
	e.Executions++
	if complete && s.err == nil {
		e.Complete++
		if e.End != nil {
			for _, v := range e.End(s) {
				fp := v.Clause + "|" + v.Obs
				if e.seenFP[fp] {
					continue
				}
				e.seenFP[fp] = true
				f := Found{Violation: v, Choices: append([]uint8(nil), s.Choices...), Preempts: s.preempts}
				if keepTrace {
					f.Trace = s.Trace
				}
				e.Found = append(e.Found, f)
			}
		}
	}
	s.abortAll()
	S = nil
	if s.err != nil && e.Err == nil {
		e.Err = s.err
	}
	return s
}

func (e *Explorer) maxSteps() int {
	if e.MaxSteps > 0 {
		return e.MaxSteps
	}
	return 5000
}

// Run explores everything within the bound.
func (e *Explorer) Run() {
	e.visited = map[[2]uint64]int16{}
	e.seenFP = map[string]bool{}
	e.stack = []branch{{}}
	n := 0
	for len(e.stack) > 0 {
		br := e.stack[len(e.stack)-1]
		e.stack = e.stack[:len(e.stack)-1]
		e.runOne(br, false, false)
		if e.Err != nil {
			return
		}
		n++
		if n&255 == 0 {
			if !e.Deadline.IsZero() && time.Now().After(e.Deadline) {
				e.Capped, e.CapReason = true, "time budget"
				return
			}
		}
		if e.MaxExecs > 0 && e.Executions >= e.MaxExecs {
			e.Capped, e.CapReason = true, "execution budget"
			return
		}
		if e.MaxStates > 0 && e.States >= e.MaxStates {
			e.Capped, e.CapReason = true, "state budget"
			return
		}
		if e.MaxFound > 0 && len(e.Found) >= e.MaxFound {
			e.Capped, e.CapReason = true, "violation limit"
			return
		}
	}
}

// Replay runs exactly one schedule (prefix, then default choices) with a full
// trace, evaluates End, and returns the scheduler and the violations found.
func (e *Explorer) Replay(choices []uint8) (*Sched, []Violation) {
	var out []Violation
	save := e.End
	e.End = func(s *Sched) []Violation {
		if save != nil {
			out = save(s)
		}
		return nil
	}
	if e.seenFP == nil {
		e.seenFP = map[string]bool{}
	}
	s := e.runOne(branch{prefix: choices}, true, true)
	e.End = save
	return s, out
}
