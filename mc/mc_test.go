package mc

import (
	"context"
	"fmt"
	"sort"
	"strings"
	"testing"
)

type nv struct{ context.Context }

func (nv) Value(interface{}) interface{} { return nil }

func outcomes(t *testing.T, bound int, body func(s *Sched) func() string) (map[string]int64, *Explorer) {
	var get func() string
	e := &Explorer{Bound: bound}
	e.Body = func(s *Sched) { get = body(s) }
	e.End = func(s *Sched) []Violation {
		o := get()
		for _, b := range s.Blocked() {
			o += " blocked:" + b.Name + ":" + b.Op
		}
		for _, p := range s.Panics {
			o += " panic:" + p.Value
		}
		e.NoteOutcome(o)
		return nil
	}
	e.Run()
	if e.Err != nil {
		t.Fatal(e.Err)
	}
	return e.Outcomes, e
}

func keys(m map[string]int64) []string {
	var k []string
	for s := range m {
		k = append(k, s)
	}
	sort.Strings(k)
	return k
}

func TestLostUpdate(t *testing.T) {
	o, e := outcomes(t, -1, func(s *Sched) func() string {
		x := 0
		var mu Mutex
		var wg WaitGroup
		wg.Add(2)
		for i := 0; i < 2; i++ {
			GoNamed("w", func() {
				mu.Lock()
				v := x
				mu.Unlock()
				mu.Lock()
				x = v + 1
				mu.Unlock()
				wg.Done()
			})
		}
		wg.Wait()
		return func() string { return fmt.Sprint(x) }
	})
	t.Log(keys(o), e.States, e.Executions, e.Transitions)
	if len(o) != 2 {
		t.Fatalf("want outcomes 1 and 2, got %v", o)
	}
}

func TestRendezvousAndSelect(t *testing.T) {
	o, e := outcomes(t, -1, func(s *Sched) func() string {
		c := NewChan[int]()
		d := NewChan[int](1)
		res := ""
		GoNamed("s1", func() { Send(c, 1) })
		GoNamed("s2", func() { Send(d, 2) })
		GoNamed("r", func() {
			for i := 0; i < 2; i++ {
				a, b := RecvCase(c), RecvCase(d)
				switch Select(false, a, b) {
				case 0:
					res += fmt.Sprint("c", a.Val)
				case 1:
					res += fmt.Sprint("d", b.Val)
				}
			}
		})
		return func() string { return res }
	})
	t.Log(keys(o), e.States, e.Executions)
	if len(o) != 2 {
		t.Fatalf("got %v", o)
	}
}

func TestForeignParentPropagation(t *testing.T) {
	// cancel of a parent hidden behind a Value-blocking wrapper reaches the child asynchronously
	o, _ := outcomes(t, -1, func(s *Sched) func() string {
		p, cancel := WithCancel(context.Background())
		ch, _ := WithCancel(nv{p})
		direct, _ := WithCancel(p)
		res := ""
		GoNamed("obs", func() {
			if p.Err() != nil {
				res = fmt.Sprintf("parent=done child=%v direct=%v", CtxErrNoYield(ch) != nil, CtxErrNoYield(direct) != nil)
			} else {
				res = "parent=live"
			}
		})
		cancel()
		return func() string { return res }
	})
	k := keys(o)
	t.Log(k)
	want := []string{"parent=done child=false direct=true", "parent=done child=true direct=true", "parent=live"}
	if fmt.Sprint(k) != fmt.Sprint(want) {
		t.Fatalf("got %v", k)
	}
}

func TestDeadlockAndPanic(t *testing.T) {
	o, _ := outcomes(t, -1, func(s *Sched) func() string {
		c := NewChan[int]()
		GoNamed("a", func() { Recv(c) })
		GoNamed("b", func() {
			d := NewChan[int](1)
			Close(d)
			defer func() {
				var m Mutex
				m.Lock() // controlled op in a deferred function while aborting must not hang
				m.Unlock()
			}()
			Send(d, 1)
		})
		return func() string { return "" }
	})
	k := keys(o)
	t.Log(k)
	if len(k) == 0 {
		t.Fatal("no outcomes")
	}
	for _, s := range k {
		if !strings.HasSuffix(s, "panic:send on closed channel") {
			t.Fatalf("unexpected %q", s)
		}
	}
}

func TestPipe(t *testing.T) {
	o, e := outcomes(t, -1, func(s *Sched) func() string {
		r, w := Pipe()
		res := ""
		GoNamed("w", func() {
			_, err := w.Write([]byte("ab"))
			res += fmt.Sprint("w:", err, ";")
			w.Close()
		})
		GoNamed("r", func() {
			b := make([]byte, 1)
			for {
				n, err := r.Read(b)
				if err != nil {
					res += fmt.Sprint("r:", err, ";")
					return
				}
				res += string(b[:n])
			}
		})
		return func() string { return res }
	})
	t.Log(keys(o), e.States, e.Executions)
	for _, s := range keys(o) {
		if s != "aw:<nil>;br:EOF;" && s != "abw:<nil>;r:EOF;" {
			t.Fatalf("unexpected %q", s)
		}
	}
}

func TestDeadlineTimer(t *testing.T) {
	var e2 *Explorer
	_ = e2
	var get func() string
	e := &Explorer{Bound: -1, Timers: true}
	e.Body = func(s *Sched) {
		ctx, cancel := WithTimeout(context.Background(), 1000)
		res := ""
		GoNamed("x", func() {
			d := RecvCase(Wrap(ctx.Done()))
			Select(false, d)
			res = fmt.Sprint(CtxErrNoYield(ctx))
		})
		cancel()
		get = func() string { return res }
	}
	e.End = func(s *Sched) []Violation { e.NoteOutcome(get()); return nil }
	e.Run()
	if e.Err != nil {
		t.Fatal(e.Err)
	}
	k := keys(e.Outcomes)
	t.Log(k)
	if len(k) != 2 {
		t.Fatalf("got %v", k)
	}
}

func TestReplayDeterminism(t *testing.T) {
	mk := func() *Explorer {
		e := &Explorer{Bound: -1}
		e.Body = func(s *Sched) {
			c := NewChan[int](1)
			var mu Mutex
			for i := 0; i < 3; i++ {
				i := i
				GoNamed("t", func() { mu.Lock(); Select(true, SendCase(c, i)); mu.Unlock() })
			}
		}
		return e
	}
	e := mk()
	e.Run()
	s1, _ := mk().Replay([]uint8{0, 2, 1, 0, 1})
	s2, _ := mk().Replay([]uint8{0, 2, 1, 0, 1})
	if fmt.Sprint(s1.Trace) != fmt.Sprint(s2.Trace) || len(s1.Trace) == 0 {
		t.Fatalf("traces differ:\n%v\n%v", s1.Trace, s2.Trace)
	}
	t.Log(e.States, e.Executions, len(s1.Trace))
}
