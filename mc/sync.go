package mc

// Mutex replaces sync.Mutex. The zero value is an unlocked mutex.
type Mutex struct {
	id     uint64
	locked bool
	st     Stamp
}

type opLock struct {
	m *Mutex
}

func (o opLock) enabled(s *Sched, t *Task, out []Alt) []Alt {
	if !o.m.locked {
		out = append(out, Alt{T: t})
	}
	return out
}
func (o opLock) String() string { return "Lock" }

func (m *Mutex) Lock() {
	if S == nil {
		if m.locked {
			panic("mc: Lock of a locked mutex outside an execution")
		}
		m.locked = true
		return
	}
	s, t := cur()
	if m.id == 0 {
		m.id = t.newObjID()
	}
	s.yield(t, opLock{m})
	m.locked = true
	t.tick(kLock, m.id, 0)
	t.observe(&m.st)
	m.st = t.st
}

func (m *Mutex) TryLock() bool {
	if S == nil {
		if m.locked {
			return false
		}
		m.locked = true
		return true
	}
	s, t := cur()
	if m.id == 0 {
		m.id = t.newObjID()
	}
	s.yield(t, opSimple{"TryLock"})
	ok := !m.locked
	alt := 0
	if ok {
		m.locked = true
		alt = 1
	}
	t.tick(kLock, m.id, alt)
	t.observe(&m.st)
	m.st = t.st
	return ok
}

func (m *Mutex) Unlock() {
	if S == nil {
		m.locked = false
		return
	}
	s, t := cur()
	if s.aborting {
		return
	}
	if !m.locked {
		panic("sync: unlock of unlocked mutex")
	}
	m.locked = false
	t.tick(kUnlock, m.id, 0)
	m.st = t.st
}

// RWMutex replaces sync.RWMutex, with Go's writer preference: once a writer
// waits in Lock because readers hold the lock, new readers wait behind it (so a
// recursive RLock with a writer arriving in between deadlocks, as it really does).
type RWMutex struct {
	id      uint64
	writer  bool
	readers int
	wwait   int // tasks parked in Lock
	st      Stamp
}

type opRW struct {
	m     *RWMutex
	write bool
}

func (o opRW) enabled(s *Sched, t *Task, out []Alt) []Alt {
	if o.write {
		if !o.m.writer && o.m.readers == 0 {
			out = append(out, Alt{T: t})
		}
	} else if !o.m.writer && !(o.m.wwait > 0 && o.m.readers > 0) {
		out = append(out, Alt{T: t})
	}
	return out
}
func (o opRW) String() string {
	if o.write {
		return "RWMutex.Lock"
	}
	return "RWMutex.RLock"
}

func (m *RWMutex) Lock() {
	if S == nil {
		m.writer = true
		return
	}
	s, t := cur()
	if m.id == 0 {
		m.id = t.newObjID()
	}
	m.wwait++
	s.yield(t, opRW{m, true})
	m.wwait--
	m.writer = true
	t.tick(kLock, m.id, 0)
	t.observe(&m.st)
	m.st = t.st
}

func (m *RWMutex) Unlock() {
	if S == nil {
		m.writer = false
		return
	}
	s, t := cur()
	if s.aborting {
		return
	}
	if !m.writer {
		panic("sync: Unlock of unlocked RWMutex")
	}
	m.writer = false
	t.tick(kUnlock, m.id, 0)
	m.st = t.st
}

func (m *RWMutex) RLock() {
	if S == nil {
		m.readers++
		return
	}
	s, t := cur()
	if m.id == 0 {
		m.id = t.newObjID()
	}
	s.yield(t, opRW{m, false})
	m.readers++
	t.tick(kRLock, m.id, 0)
	t.observe(&m.st)
	m.st = t.st
}

func (m *RWMutex) RUnlock() {
	if S == nil {
		m.readers--
		return
	}
	s, t := cur()
	if s.aborting {
		return
	}
	if m.readers <= 0 {
		panic("sync: RUnlock of unlocked RWMutex")
	}
	m.readers--
	t.tick(kRUnlock, m.id, 0)
	t.observe(&m.st)
	m.st = t.st
}

// WaitGroup replaces sync.WaitGroup.
type WaitGroup struct {
	id uint64
	n  int
	st Stamp
}

type opWait struct{ w *WaitGroup }

func (o opWait) enabled(s *Sched, t *Task, out []Alt) []Alt {
	if o.w.n == 0 {
		out = append(out, Alt{T: t})
	}
	return out
}
func (o opWait) String() string { return "WaitGroup.Wait" }

func (w *WaitGroup) Add(d int) {
	if S == nil {
		w.n += d
		return
	}
	s, t := cur()
	if s.aborting {
		return
	}
	if w.id == 0 {
		w.id = t.newObjID()
	}
	w.n += d
	if w.n < 0 {
		panic("sync: negative WaitGroup counter")
	}
	t.tick(kWGDone, w.id, 0)
	t.observe(&w.st)
	w.st = t.st
}

func (w *WaitGroup) Done() { w.Add(-1) }

func (w *WaitGroup) Wait() {
	if S == nil {
		if w.n != 0 {
			panic("mc: WaitGroup.Wait would block outside an execution")
		}
		return
	}
	s, t := cur()
	if w.id == 0 {
		w.id = t.newObjID()
	}
	s.yield(t, opWait{w})
	t.tick(kWait, w.id, 0)
	t.observe(&w.st)
}

// Once replaces sync.Once.
type Once struct {
	m    Mutex
	done bool
}

func (o *Once) Do(f func()) {
	o.m.Lock()
	defer o.m.Unlock()
	if !o.done {
		defer func() { o.done = true }()
		f()
	}
}
