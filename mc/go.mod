module verif/mc

go 1.21
